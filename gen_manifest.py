#!/usr/bin/env python3
"""Regenerates MANIFEST.json from checks_table.py (claimed properties) + the list of all property ids."""
import json, os
from checks_table import PROPS
ROOT = os.path.dirname(os.path.abspath(__file__))
all_ids = [json.loads(l)["id"] for l in open(os.path.join(ROOT, "properties.jsonl"))]
NA_REASON = {}
try:
    NA_REASON = json.load(open(os.path.join(ROOT, "not_applicable.json")))
except FileNotFoundError:
    pass
checks = []
for pid in all_ids:
    if pid not in PROPS:
        continue
    p = PROPS[pid]
    checks.append({
        "property_id": pid,
        "quick_cmd": "./check %s --tier quick" % pid,
        "thorough_cmd": "./check %s --tier thorough" % pid,
        "evidence_file": "/verif/evidence/%s.json" % pid,
        "replay_cmd_template": "./check %s --replay {path}" % pid,
        "engine": "lean-model+lsmverif",
        "level_claimed": {"category": "proof", "text": p["level_text"], "design_ref": "DESIGN.md section " + p["design_ref"]},
        "level_note": p["level_note"],
        "technique": p["technique"],
    })
m = {
    "version": 1,
    "setup_cmd": "cd /verif && ./setup.sh",
    "hooks": {
        "guard": "cargo feature verif_hooks",
        "enable": "harness depends on lsm-tree with features = [\"verif_hooks\", \"lz4\"] (path dependency on /repo; lz4 is the crate's own optional compression feature, enabled so that compressed configurations are exercised)",
        "baseline_off_cmd": "cd /repo && cargo nextest run --workspace --no-fail-fast --offline --test-threads 8 || cargo test --workspace --no-fail-fast --offline",
        "source_commits": [l.strip() for l in open(os.path.join(ROOT, "hook_commits.txt"))] if os.path.exists(os.path.join(ROOT, "hook_commits.txt")) else [],
        "add_only": True,
    },
    "engines": [
        {"name": "lean-model", "path": "/verif/lean", "serves_properties": sorted(PROPS), "kind_free_text": "Lean 4.33 model + theorems (LsmModel), compiled driver lsmdrv speaking a line protocol"},
        {"name": "lsmverif", "path": "/verif/harness", "serves_properties": sorted(PROPS), "kind_free_text": "Rust correspondence harness: runs the real crate in-process, feeds the same inputs / histories to lsmdrv, evaluates property oracles on the real tree"},
    ],
    "checks": checks,
    "notes": "see DESIGN.md; known findings / fixed defects in known_findings.json",
    "not_applicable": [{"property_id": pid, "reason": NA_REASON.get(pid, "check under construction in this session (DESIGN.md section 11); not claimed yet")} for pid in all_ids if pid not in PROPS],
}
json.dump(m, open(os.path.join(ROOT, "MANIFEST.json"), "w"), indent=1)
print("claimed:", [c["property_id"] for c in checks])
