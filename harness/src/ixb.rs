//! Instrument I-A, part 5: index blocks and the block index (full / volatile / two-level) — the real
//! `IndexBlock::encode_into`, `IndexBlock::iter()` (+ `seek`, `seek_upper`, `next`, `next_back`), the index writers of
//! `table::Writer` and (cargo feature `bix`, see below) the real `block_index` iterators against
//! `LsmModel.Table.{IndexBlock,TwoLevel}` through `lsmdrv` (protocol: `Driver/IndexDrv.lean`).
//!
//!   part A  synthetic handle lists: encoding byte for byte, forward / backward decoding, `len()`, seeks + pull words
//!   part B  real table files (tiny data blocks, full or partitioned index, tiny partition sizes): every index block of the
//!           file re-encoded by the model byte for byte; the flat handle list against the data blocks of the file; the
//!           partition cut rule (`ixcut`) and the top-level entries; with feature `bix` the handle sequences of
//!           `table.block_index.iter()` + `seek_lower` / `seek_upper` + pull words against `ixtwo`.
//!
//! `block_index` is `pub(crate)`: the traits `BlockIndex` / `BlockIndexIter` are not nameable from outside, so
//! `table.block_index.iter()` cannot be called although the field is public.  Feature `bix` expects this one line in
//! /repo/src/verif_api.rs:   `pub use crate::table::block_index::{BlockIndex, BlockIndexIter};`
use crate::util::*;
use lsm_tree::table::block::decoder::ParsedItem;
use lsm_tree::table::block::{BlockType, Header};
use lsm_tree::table::{Block, BlockHandle, BlockOffset, DataBlock, IndexBlock, KeyedBlockHandle, Writer};
use lsm_tree::{Cache, Checksum, CompressionType, Table, UserKey};
use std::panic::{catch_unwind, AssertUnwindSafe};
use std::sync::Arc;

#[derive(Clone, Debug, PartialEq, Eq)]
struct H {
    key: Vec<u8>,
    seqno: u64,
    offset: u64,
    size: u32,
}
impl H {
    fn show(&self) -> String {
        format!("{}:{}:{}:{}", hex(&self.key), self.seqno, self.offset, self.size)
    }
    fn real(&self) -> KeyedBlockHandle {
        KeyedBlockHandle::new(UserKey::from(&self.key[..]), self.seqno, BlockHandle::new(BlockOffset(self.offset), self.size))
    }
    fn of(h: &KeyedBlockHandle) -> H {
        H { key: h.end_key().to_vec(), seqno: h.seqno(), offset: *h.offset(), size: h.size() }
    }
}
fn show_hs(l: &[H]) -> String {
    l.iter().map(H::show).collect::<Vec<_>>().join(",")
}
fn show_pulls(l: &[Option<H>]) -> String {
    l.iter().map(|o| o.as_ref().map_or("-".to_string(), H::show)).collect::<Vec<_>>().join("|")
}
fn clip(s: &str, n: usize) -> String {
    if s.len() <= n {
        s.to_string()
    } else {
        format!("{}…[{} chars]", &s[..n], s.len())
    }
}
fn mismatch(st: &mut Stats, what: &str, ctx: &str, req: &str, detail: &str) {
    st.disagreements.push(format!("{what}: {ctx}: {detail}; request `{}`", clip(req, 4000)));
}
fn field<'a>(line: &'a str, name: &str) -> &'a str {
    line.split(' ').find_map(|f| f.strip_prefix(name)).unwrap_or("<missing>")
}
fn panic_text(e: Box<dyn std::any::Any + Send>) -> String {
    e.downcast_ref::<String>().cloned().or_else(|| e.downcast_ref::<&str>().map(|s| s.to_string())).unwrap_or_else(|| "?".into())
}

fn index_block_of(bytes: Vec<u8>) -> IndexBlock {
    IndexBlock::new(Block {
        header: Header { block_type: BlockType::Index, checksum: Checksum::from_raw(0), data_length: bytes.len() as u32, uncompressed_length: bytes.len() as u32 },
        data: bytes.into(),
    })
}

fn gen_word(rng: &mut Rng, n: usize) -> String {
    match rng.below(6) {
        0 => "F".repeat(n),
        1 => "B".repeat(n),
        2 => (0..n).map(|i| if i % 2 == 0 { 'F' } else { 'B' }).collect(),
        3 => (0..n).map(|i| if i % 2 == 0 { 'B' } else { 'F' }).collect(),
        _ => (0..n).map(|_| if rng.chance(1, 2) { 'F' } else { 'B' }).collect(),
    }
}

/// ascending handle list: keys ascending, equal keys with descending seqnos, consecutive offsets
fn gen_handles(rng: &mut Rng, st: &mut Stats) -> Vec<H> {
    let n = match rng.below(10) {
        0 => 1,
        1 => 2,
        2 => 3,
        3 => 60 + rng.below(200) as usize,
        _ => 1 + rng.below(24) as usize,
    };
    let long_keys = rng.chance(1, 12);
    let klen_max = if long_keys { 600 } else { 6 };
    let alpha: &[u8] = if rng.chance(1, 2) { b"ab" } else { b"abcxyz\x00\xff" };
    let mut keys: Vec<Vec<u8>> = (0..n)
        .map(|_| {
            let l = if rng.chance(1, 40) { 0 } else { 1 + rng.below(klen_max) as usize };
            (0..l).map(|_| *rng.pick(alpha)).collect()
        })
        .collect();
    keys.sort();
    if rng.chance(1, 2) {
        keys.dedup();
    }
    let big = rng.chance(1, 6);
    let mut off: u64 = if big { *rng.pick(&[1u64 << 32, (1 << 63) - 1, u64::MAX - (1 << 40)]) } else { rng.below(3) * 4096 };
    let mut out: Vec<H> = vec![];
    let mut prev: Option<(Vec<u8>, u64)> = None;
    for k in keys {
        let seqno = match &prev {
            Some((pk, ps)) if *pk == k => {
                if *ps == 0 {
                    continue;
                }
                st.count("ixb.gen.equal_end_keys");
                if rng.chance(1, 3) { ps - 1 } else { rng.below(*ps) }
            }
            _ => match rng.below(8) {
                0 => u64::MAX,
                1 => 0,
                2 => 1 << 56,
                _ => rng.below(50),
            },
        };
        let size: u32 = match rng.below(8) {
            0 => u32::MAX,
            1 => 1,
            2 => 127,
            3 => 128,
            4 => 16_384,
            _ => 30 + rng.below(9000) as u32,
        };
        prev = Some((k.clone(), seqno));
        out.push(H { key: k, seqno, offset: off, size });
        off = off.saturating_add(u64::from(size).min(1 << 20));
    }
    if long_keys {
        st.count("ixb.gen.long_keys");
    }
    if big {
        st.count("ixb.gen.big_offsets");
    }
    out
}

/// directed: a block beyond 65535 bytes (the binary index switches to 4-byte offsets)
fn gen_big(rng: &mut Rng) -> Vec<H> {
    let n = 136 + rng.below(30) as usize;
    let mut off = 0u64;
    (0..n)
        .map(|i| {
            let mut key = vec![b'k'; 484]; // fixed length: the list must be ascending
            key.extend_from_slice(format!("{i:05}").as_bytes());
            let size = 100 + rng.below(5000) as u32;
            let h = H { key, seqno: rng.below(1000), offset: off, size };
            off += u64::from(size);
            h
        })
        .collect()
}

fn gen_needle(rng: &mut Rng, hs: &[H]) -> Vec<u8> {
    let mut k = if !hs.is_empty() && rng.chance(5, 6) { rng.pick(hs).key.clone() } else { (0..rng.below(4)).map(|_| *rng.pick(b"abxyz")).collect() };
    match rng.below(6) {
        0 => k.push(*rng.pick(b"\x00am\xff")),
        1 => {
            k.pop();
        }
        2 => {
            if let Some(l) = k.last_mut() {
                *l = l.wrapping_add(1);
            }
        }
        _ => {}
    }
    k
}
fn gen_seqno(rng: &mut Rng, hs: &[H]) -> u64 {
    let base = if hs.is_empty() { 0 } else { rng.pick(hs).seqno };
    match rng.below(6) {
        0 => u64::MAX,
        1 => 0,
        2 => base,
        3 => base.saturating_add(1),
        4 => base.saturating_sub(1),
        _ => rng.below(60),
    }
}
fn gen_bounds(rng: &mut Rng, hs: &[H]) -> (Option<(Vec<u8>, u64)>, Option<Vec<u8>>) {
    let lo = if rng.chance(3, 4) { Some((gen_needle(rng, hs), gen_seqno(rng, hs))) } else { None };
    let hi = if rng.chance(3, 5) { Some(gen_needle(rng, hs)) } else { None };
    (lo, hi)
}
fn show_lo(lo: &Option<(Vec<u8>, u64)>) -> String {
    lo.as_ref().map_or("-".into(), |(k, s)| format!("{}:{s}", hex(k)))
}
fn show_hi(hi: &Option<Vec<u8>>) -> String {
    hi.as_ref().map_or("-".into(), |k| hex(k))
}

/// the real index block iterator: optional seeks, then pulls
fn real_block_iter(ib: &IndexBlock, lo: &Option<(Vec<u8>, u64)>, hi: &Option<Vec<u8>>, word: &str) -> (Option<bool>, Option<bool>, Vec<Option<H>>) {
    let mut it = ib.iter();
    let rlo = lo.as_ref().map(|(k, s)| it.seek(k, *s));
    let rhi = hi.as_ref().map(|k| it.seek_upper(k, 0));
    let mut got = vec![];
    for c in word.chars() {
        let x = if c == 'F' { it.next() } else { it.next_back() };
        got.push(x.map(|p| H::of(&p.materialize(ib.as_slice()))));
    }
    (rlo, rhi, got)
}
fn show_ob(b: Option<bool>) -> &'static str {
    match b {
        Some(true) => "1",
        Some(false) => "0",
        None => "-",
    }
}

/// one index block given by its handles: encoding, decoding, iteration (part A; also used for every block of part B)
fn block_case(rng: &mut Rng, hs: &[H], nq: usize, ctx: &str, st: &mut Stats, drv: &mut Drv) -> Vec<u8> {
    let real_items: Vec<KeyedBlockHandle> = hs.iter().map(H::real).collect();
    let bytes = IndexBlock::encode_into_vec(&real_items).unwrap();
    // (1) encoding
    let req = format!("ixenc hs={}", show_hs(hs));
    let model = drv.ask(&req);
    st.evaluations += 1;
    st.count("ixb.block.encodings");
    if bytes.len() > 65_535 + 31 {
        st.count("ixb.block.beyond_64k(4-byte binary index)");
    }
    if model != format!("bytes={}", hex(&bytes)) {
        mismatch(st, "index block encoding", ctx, &req, &format!("implementation `{}` model `{}`", clip(&hex(&bytes), 600), clip(&model, 600)));
    }
    // (2) decoding of the real bytes, forward and backward, len()
    let ib = index_block_of(bytes.clone());
    let fwd: Vec<H> = ib.iter().map(|p| H::of(&p.materialize(ib.as_slice()))).collect();
    let bwd: Vec<H> = ib.iter().rev().map(|p| H::of(&p.materialize(ib.as_slice()))).collect();
    let req = format!("ixdec bytes={}", hex(&bytes));
    let model = drv.ask(&req);
    let imp = format!("len={} fwd={} bwd={}", ib.len(), show_hs(&fwd), show_hs(&bwd));
    st.evaluations += 1;
    if model != imp {
        mismatch(st, "index block decoding", ctx, &req, &format!("implementation `{}` model `{}`", clip(&imp, 900), clip(&model, 900)));
    }
    if fwd != hs {
        st.oracle_failures.push(format!("index block round trip: {ctx}: decoded `{}` encoded `{}`", clip(&show_hs(&fwd), 900), clip(&show_hs(hs), 900)));
    }
    let mut r = bwd.clone();
    r.reverse();
    if r != hs {
        st.oracle_failures.push(format!("index block backward iteration: {ctx}: got `{}` want reverse of `{}`", clip(&show_hs(&bwd), 900), clip(&show_hs(hs), 900)));
    }
    // (3) seeks + pull words
    for _ in 0..nq {
        let (lo, hi) = gen_bounds(rng, hs);
        let wl = rng.below(hs.len().min(12) as u64 + 3) as usize;
        let wn = if rng.chance(1, 5) { hs.len() + 2 } else { wl };
        let word = gen_word(rng, wn);
        let (rlo, rhi, got) = real_block_iter(&ib, &lo, &hi, &word);
        let req = format!("ixiter hs={} lo={} hi={} word={word}", show_hs(hs), show_lo(&lo), show_hi(&hi));
        let model = drv.ask(&req);
        st.evaluations += 1;
        st.count("ixb.block.iter_queries");
        match (lo.is_some(), hi.is_some()) {
            (true, true) => st.count("ixb.block.iter.lo+hi"),
            (true, false) => st.count("ixb.block.iter.lo"),
            (false, true) => st.count("ixb.block.iter.hi"),
            _ => st.count("ixb.block.iter.unbounded"),
        }
        if rlo == Some(false) {
            st.count("ixb.block.iter.seek_beyond_last(false)");
        }
        if word.contains('F') && word.contains('B') && got.iter().any(Option::is_none) {
            st.count("ixb.block.iter.both_ends_until_exhausted");
        }
        if got.iter().all(Option::is_none) && !word.is_empty() {
            st.count("ixb.block.iter.empty_result");
        }
        let imp = format!("lo={} hi={} items={}", show_ob(rlo), show_ob(rhi), show_pulls(&got));
        let model_main = model.split(" win=").next().unwrap_or("");
        if model_main != imp {
            mismatch(st, "index block iterator (decoder level)", ctx, &req, &format!("implementation `{}` model `{}`", clip(&imp, 900), clip(model_main, 900)));
        }
        // the list-window abstraction (what Blocks.lean and TwoLevel.lean use)
        let win = field(&model, "win=");
        if win != show_pulls(&got) {
            mismatch(st, "index block iterator (list window)", ctx, &req, &format!("implementation `{}` window model `{}`", clip(&show_pulls(&got), 900), clip(win, 900)));
        }
    }
    bytes
}

#[cfg(feature = "bix")]
fn real_index_iter(table: &Table, lo: &Option<(Vec<u8>, u64)>, hi: &Option<Vec<u8>>, word: &str) -> Vec<Option<H>> {
    use lsm_tree::verif_api::{BlockIndex, BlockIndexIter};
    let mut it = table.block_index.iter();
    if let Some((k, s)) = lo {
        it.seek_lower(k, *s);
    }
    if let Some(k) = hi {
        it.seek_upper(k, 0);
    }
    word.chars().map(|c| if c == 'F' { it.next() } else { it.next_back() }.map(|r| H::of(&r.unwrap()))).collect()
}
#[cfg(feature = "bix")]
fn real_forward_reader(table: &Table, k: &[u8], s: u64, n: usize) -> Vec<Option<H>> {
    use lsm_tree::verif_api::BlockIndex;
    match table.block_index.forward_reader(k, s) {
        None => vec![None; n],
        Some(mut it) => (0..n).map(|_| it.next().map(|r| H::of(&r.unwrap()))).collect(),
    }
}

/// part B: one real table file
fn table_case(rng: &mut Rng, case: u64, dir: &std::path::Path, cache: &Arc<Cache>, st: &mut Stats, drv: &mut Drv) {
    let hsz = std::mem::size_of::<KeyedBlockHandle>();
    let nkeys = match rng.below(8) {
        0 => 1,
        1 => 2,
        _ => 2 + rng.below(40) as usize,
    };
    let mut keys = gen_keyset(rng, nkeys);
    keys.sort();
    keys.dedup();
    let mut items: Vec<Ent> = vec![];
    for k in &keys {
        let nver = if rng.chance(1, 3) { 1 + rng.below(4) } else { 1 };
        let mut s = 5 + rng.below(40) + nver;
        for _ in 0..nver {
            items.push(Ent { key: k.clone(), seqno: s, vt: 0, val: vec![b'v'; rng.below(5) as usize] });
            s -= 1 + rng.below(2);
        }
    }
    let bs = *rng.pick(&[1u32, 1, 24, 64, 200]);
    let part = rng.chance(3, 4);
    let psize = *rng.pick(&[1u32, 40, 60, 100, 150, 300, 4096]);
    let pin_index = rng.chance(1, 2);
    let ctx = format!("table case {case} [bs={bs} partitioned={part} partition_size={psize} pin_index={pin_index} {} items]", items.len());
    let path = dir.join(format!("x{case}"));
    let mut w = Writer::new(path.clone(), case, 0).unwrap().use_data_block_size(bs);
    if part {
        w = w.use_partitioned_index();
    }
    w = w.use_meta_partition_size(psize);
    for e in &items {
        w.write(e.to_internal()).unwrap();
    }
    let (_, checksum) = w.finish().unwrap().expect("non-empty table");
    let table = Table::recover(path.clone(), checksum, 0, 0, cache.clone(), None, true, pin_index).unwrap();
    let file = std::fs::File::open(&path).unwrap();
    let raw = std::fs::read(&path).unwrap();
    // the data blocks of the file: (end key, seqno of last item, offset, size) — what the index must say
    let mut want: Vec<H> = vec![];
    {
        let mut pos = 0usize;
        for _ in 0..table.metadata.data_block_count {
            let mut rd = &raw[pos..];
            let before = rd.len();
            let b = Block::from_reader(&mut rd, CompressionType::None).unwrap();
            let used = before - rd.len();
            let db = DataBlock::new(b);
            let last = db.iter().map(|i| i.materialize(db.as_slice())).last().unwrap();
            want.push(H { key: last.key.user_key.to_vec(), seqno: last.key.seqno, offset: pos as u64, size: used as u32 });
            pos += used;
        }
    }
    let read_block = |h: BlockHandle| -> (Vec<u8>, Vec<H>) {
        let b = Block::from_file(&file, h, CompressionType::None).unwrap();
        assert!(b.header.block_type == BlockType::Index);
        let ib = IndexBlock::new(b);
        let hs: Vec<H> = ib.iter().map(|p| H::of(&p.materialize(ib.as_slice()))).collect();
        (ib.as_slice().to_vec(), hs)
    };
    let (tli_bytes, tli_hs) = read_block(table.regions.tli);
    let two_level = table.regions.index.is_some();
    if two_level != part {
        st.oracle_failures.push(format!("index kind: {ctx}: partitioned index requested = {part} but the file has an index section = {two_level}"));
    }
    let mut blocks: Vec<(Vec<u8>, Vec<H>)> = vec![(tli_bytes, tli_hs.clone())];
    let mut parts: Vec<Vec<H>> = vec![];
    if two_level {
        st.count("ixb.table.two_level");
        for t in &tli_hs {
            let (b, hs) = read_block(BlockHandle::new(BlockOffset(t.offset), t.size));
            parts.push(hs.clone());
            blocks.push((b, hs));
        }
        st.count(&format!("ixb.table.partitions={}", match parts.len() { 1 => "1", 2 => "2", 3..=5 => "3-5", _ => "6+" }));
        // partitions are laid out back to back in the "index" section
        let mut pos = *table.regions.index.unwrap().offset();
        for t in &tli_hs {
            if t.offset != pos {
                st.oracle_failures.push(format!("partition layout: {ctx}: top-level handle offset {} but the previous partition ends at {pos}", t.offset));
            }
            pos += u64::from(t.size);
        }
    } else {
        st.count(if pin_index { "ixb.table.full" } else { "ixb.table.volatile" });
    }
    let flat: Vec<H> = if two_level { parts.concat() } else { tli_hs.clone() };
    if flat != want {
        st.oracle_failures.push(format!("index content: {ctx}: the index lists `{}` but the data blocks of the file are `{}`", clip(&show_hs(&flat), 1200), clip(&show_hs(&want), 1200)));
    }
    // (a) every index block of the file, byte for byte, + its iterator
    for (i, (bytes, hs)) in blocks.iter().enumerate() {
        let bctx = format!("{ctx} index block #{i}");
        let again = block_case(rng, hs, 2, &bctx, st, drv);
        st.count("ixb.table.index_blocks_compared");
        if &again != bytes {
            st.oracle_failures.push(format!("index block bytes: {bctx}: re-encoding the decoded handles does not give the file's bytes"));
        }
    }
    // (c) the cut rule and the top-level entries
    if two_level {
        let req = format!("ixcut hsz={hsz} psize={psize} hs={}", show_hs(&flat));
        let model = drv.ask(&req);
        st.evaluations += 1;
        let imp = format!(
            "parts={} tli={}",
            parts.iter().map(|p| show_hs(p)).collect::<Vec<_>>().join("|"),
            tli_hs.iter().map(|t| format!("{}:{}", hex(&t.key), t.seqno)).collect::<Vec<_>>().join(",")
        );
        if model != imp {
            mismatch(st, "partition cut rule / top-level entries", &ctx, &req, &format!("implementation `{}` model `{}`", clip(&imp, 1200), clip(&model, 1200)));
        }
    }
    // (b) the real block index iterators
    #[cfg(feature = "bix")]
    {
        let top_s = if two_level {
            tli_hs.iter().zip(parts.iter()).map(|(t, p)| format!("{};{}", t.show(), show_hs(p))).collect::<Vec<_>>().join("|")
        } else {
            // a flat index as a one-partition two-level index is NOT what is compared: see `which` below
            format!("{};{}", flat.last().unwrap().show(), show_hs(&flat))
        };
        let which = if two_level { "items=" } else if pin_index { "flat=" } else { "vol=" };
        for q in 0..10 {
            let (lo, hi) = if q == 0 { (None, None) } else { gen_bounds(rng, &flat) };
            let wl = rng.below(flat.len().min(14) as u64 + 3) as usize;
            let wn = if rng.chance(1, 4) { flat.len() + 2 } else { wl };
            let word = gen_word(rng, wn);
            let got = real_index_iter(&table, &lo, &hi, &word);
            let req = format!("ixtwo top={top_s} lo={} hi={} word={word}", show_lo(&lo), show_hi(&hi));
            let model = drv.ask(&req);
            st.evaluations += 1;
            st.count(&format!("ixb.index_iter.{}queries", which.trim_end_matches('=').replace("items", "two_level").to_owned() + "."));
            if word.contains('F') && word.contains('B') && got.iter().any(Option::is_none) {
                st.count("ixb.index_iter.both_ends_until_exhausted");
            }
            if got.iter().filter(|x| x.is_some()).count() > 0 && two_level {
                let distinct_parts = parts.iter().filter(|p| p.iter().any(|h| got.iter().flatten().any(|g| g == h))).count();
                if distinct_parts > 1 {
                    st.count("ixb.index_iter.two_level.result_spans_partitions");
                }
            }
            if field(&model, which) != show_pulls(&got) {
                mismatch(st, "block index iterator", &ctx, &req, &format!("implementation ({which}) `{}` model `{}`", clip(&show_pulls(&got), 1200), clip(&model, 1500)));
            }
            // the model's own cross-check: two-level == flat == volatile on the same handles
            if two_level && (field(&model, "items=") != field(&model, "flat=") || field(&model, "vol=") != field(&model, "flat=")) {
                mismatch(st, "model: two-level vs flat", &ctx, &req, &format!("model `{}`", clip(&model, 1500)));
            }
            if let Some((k, s)) = &lo {
                let n = word.len();
                let got = real_forward_reader(&table, k, *s, n);
                let req = format!("ixtwo top={top_s} lo={} hi=- word={}", show_lo(&lo), "F".repeat(n));
                let model = drv.ask(&req);
                st.evaluations += 1;
                st.count("ixb.index_iter.forward_reader");
                if field(&model, which) != show_pulls(&got) {
                    mismatch(st, "block index forward_reader", &ctx, &req, &format!("implementation `{}` model `{}`", clip(&show_pulls(&got), 1200), clip(&model, 1500)));
                }
            }
        }
    }
    #[cfg(not(feature = "bix"))]
    {
        // fallback: the model's two-level run against the model's flat run on the REAL partitions (observed cut points)
        if two_level {
            let top_s = tli_hs.iter().zip(parts.iter()).map(|(t, p)| format!("{};{}", t.show(), show_hs(p))).collect::<Vec<_>>().join("|");
            for _ in 0..4 {
                let (lo, hi) = gen_bounds(rng, &flat);
                let wn = rng.below(flat.len() as u64 + 3) as usize;
                let word = gen_word(rng, wn);
                let req = format!("ixtwo top={top_s} lo={} hi={} word={word}", show_lo(&lo), show_hi(&hi));
                let model = drv.ask(&req);
                st.evaluations += 1;
                st.count("ixb.model_only.two_level_vs_flat");
                if field(&model, "items=") != field(&model, "flat=") || field(&model, "vol=") != field(&model, "flat=") {
                    mismatch(st, "model: two-level vs flat", &ctx, &req, &format!("model `{}`", clip(&model, 1500)));
                }
            }
        }
    }
    let _ = std::fs::remove_file(&path);
}

pub fn run(seed: u64, cases: u64, st: &mut Stats, drv: &mut Drv) {
    let mut rng = Rng::new(seed ^ 0x1d8_b10c);
    let dir = tempfile::tempdir_in(crate::scratch_root()).unwrap();
    let cache = Arc::new(Cache::with_capacity_bytes(4_000_000));
    {
        // the empty slice panics (index_block/mod.rs:111-112)
        let r = catch_unwind(AssertUnwindSafe(|| IndexBlock::encode_into_vec(&[]).map(|_| ())));
        let model = drv.ask("ixenc hs=");
        st.evaluations += 1;
        if (model == "panic") != r.is_err() {
            mismatch(st, "index block encoding", "empty handle list", "ixenc hs=", &format!("implementation panics: {}, model `{model}`", r.is_err()));
        }
    }
    for case in 0..cases {
        // part A
        let hs = if case % 40 == 7 { gen_big(&mut rng) } else { gen_handles(&mut rng, st) };
        let ctx = format!("synthetic case {case} ({} handles)", hs.len());
        st.count("ixb.synthetic.cases");
        let r = catch_unwind(AssertUnwindSafe(|| {
            block_case(&mut rng.fork(), &hs, 6, &ctx, st, drv);
        }));
        if let Err(e) = r {
            st.oracle_failures.push(format!("panic in the index block encoder / decoder: {}: {ctx}: handles `{}`", panic_text(e), clip(&show_hs(&hs), 2000)));
        }
        // part B
        st.count("ixb.table.cases");
        let r = catch_unwind(AssertUnwindSafe(|| table_case(&mut rng.fork(), case, dir.path(), &cache, st, drv)));
        if let Err(e) = r {
            st.oracle_failures.push(format!("panic in the index writers / readers: {}: table case {case} (seed {seed})", panic_text(e)));
        }
    }
}
