//! C10 fault enumeration: every byte of every persisted file of small generated trees is altered (and files are truncated),
//! then the tree is opened afresh (empty cache) and every read path is exercised. Outcome per position must be
//! "identical answers" or an error; a different answer is a silent corruption = violation. Panics are counted separately
//! (reported, not silent).
use crate::util::*;
use lsm_tree::{AbstractTree, Config, Guard, KvSeparationOptions, SeqNo, SequenceNumberCounter};
use std::path::{Path, PathBuf};
use std::sync::Arc;

/// trees #2, #3 (mod 4): partitioned (two-level) index and filter blocks on every level, nothing pinned, so that index
/// partitions are loaded on demand by every read path
static PARTITIONED: std::sync::atomic::AtomicBool = std::sync::atomic::AtomicBool::new(false);

fn physical(c: Config) -> Config {
    use lsm_tree::config::PinningPolicy;
    if PARTITIONED.load(std::sync::atomic::Ordering::SeqCst) {
        c.index_block_partitioning_policy(PinningPolicy::all(true))
            .filter_block_partitioning_policy(PinningPolicy::all(true))
            .index_block_pinning_policy(PinningPolicy::all(false))
            .filter_block_pinning_policy(PinningPolicy::all(false))
    } else {
        c
    }
}

fn cfg(p: &Path, blob: bool, a: u64, bs: u32) -> Config {
    let c = physical(Config::new(p, SequenceNumberCounter::new(a), SequenceNumberCounter::new(a)))
        .data_block_size_policy(lsm_tree::config::BlockSizePolicy::all(bs))
        .use_cache(Arc::new(lsm_tree::Cache::with_capacity_bytes(0)));
    if blob {
        c.with_kv_separation(Some(KvSeparationOptions::default().separation_threshold(6).file_target_size(64).compression(lsm_tree::CompressionType::None)))
    } else {
        c
    }
}

type Answers = Vec<(Vec<u8>, Vec<u8>)>;

/// all read paths, each judged ON ITS OWN (a path that reports the corruption must not hide another one that silently
/// returns different data): forward scan, reverse scan, point reads of every key of the universe, first / last key, len,
/// a scan at an older snapshot. One entry per path: (`--path:<name>--`, serialised answer | `ERR`).
fn answers(p: &Path, blob: bool, s: SeqNo, bs: u32, universe: &[K]) -> Result<Answers, String> {
    use std::panic::{catch_unwind, AssertUnwindSafe};
    let r = catch_unwind(|| -> Result<Answers, String> {
        let t = cfg(p, blob, s, bs).open().map_err(|e| format!("open:{e:?}"))?;
        let mut out: Answers = vec![];
        let mut path = |name: &str, f: &dyn Fn() -> Result<String, String>| {
            if std::env::var("LSMVERIF_FLIP_TRACE").is_ok() {
                eprintln!("path {name}");
            }
            let v = match catch_unwind(AssertUnwindSafe(f)) {
                Ok(Ok(v)) => v.into_bytes(),
                _ => b"ERR".to_vec(),
            };
            out.push((format!("--path:{name}--").into_bytes(), v));
        };
        let scan = |snap: SeqNo, rev: bool| -> Result<String, String> {
            let mut l = vec![];
            // stop at the first error: an iterator need not be fused after it reported one
            let it = t.iter(snap, None);
            if rev {
                for g in it.rev() {
                    let (k, v) = g.into_inner().map_err(|e| format!("{e:?}"))?;
                    l.push((hex(&k), hex(&v)));
                }
            } else {
                for g in it {
                    let (k, v) = g.into_inner().map_err(|e| format!("{e:?}"))?;
                    l.push((hex(&k), hex(&v)));
                }
            }
            if rev {
                l.reverse();
            }
            Ok(format!("{l:?}"))
        };
        path("scan", &|| scan(s, false));
        path("reverse-scan", &|| scan(s, true));
        path("point-reads", &|| {
            let mut l = vec![];
            for k in universe {
                if let Some(v) = t.get(k, s).map_err(|e| format!("{e:?}"))? {
                    l.push((hex(k), hex(&v)));
                }
            }
            Ok(format!("{l:?}"))
        });
        path("first-key", &|| Ok(format!("{:?}", match t.first_key_value(s, None) { Some(g) => { let (k, v) = g.into_inner().map_err(|e| format!("{e:?}"))?; Some((hex(&k), hex(&v))) } None => None })));
        path("last-key", &|| Ok(format!("{:?}", match t.last_key_value(s, None) { Some(g) => { let (k, v) = g.into_inner().map_err(|e| format!("{e:?}"))?; Some((hex(&k), hex(&v))) } None => None })));
        path("len", &|| Ok(format!("{}", t.len(s, None).map_err(|e| format!("{e:?}"))?)));
        // an older snapshot too (visibility must not silently change either)
        path("scan-older-snapshot", &|| scan(s / 2, false));
        path("reverse-scan-older-snapshot", &|| scan(s / 2, true));
        Ok(out)
    });
    match r {
        Ok(x) => x,
        Err(_) => Err("panic".into()),
    }
}

/// paths whose answer differs from the original WITHOUT an error (`ERR` = the corruption was reported on that path)
fn silent_paths(d: &Answers, orig: &Answers) -> Vec<String> {
    let mut v = vec![];
    for (i, (name, val)) in d.iter().enumerate() {
        if val.as_slice() != b"ERR" && orig.get(i).map(|o| &o.1) != Some(val) {
            v.push(String::from_utf8_lossy(name).to_string());
        }
    }
    v
}

/// run a probe with a watchdog: a read path that spins forever on corrupted bytes is reported, not waited for
fn with_timeout<T: Send + 'static>(f: impl FnOnce() -> T + Send + 'static, secs: u64) -> Option<T> {
    let (tx, rx) = std::sync::mpsc::channel();
    std::thread::spawn(move || {
        let _ = tx.send(f());
    });
    rx.recv_timeout(std::time::Duration::from_secs(secs)).ok()
}

/// after the corruption: compact everything, then read — a compaction that silently skips unreadable data and
/// publishes a clean-looking table is a silent corruption too
fn answers_after_compaction(p: &Path, blob: bool, s: SeqNo, bs: u32, universe: &[K]) -> Result<Answers, String> {
    let r = std::panic::catch_unwind(|| -> Result<(), String> {
        let t = cfg(p, blob, s, bs).open().map_err(|e| format!("open:{e:?}"))?;
        t.major_compact(u64::MAX, 0).map_err(|e| format!("compact:{e:?}"))?;
        Ok(())
    });
    match r {
        Ok(Ok(())) => answers(p, blob, s, bs, universe),
        Ok(Err(e)) => Err(e),
        Err(_) => Err("panic".into()),
    }
}

fn copy_dir(src: &Path, dst: &Path) {
    std::fs::create_dir_all(dst).unwrap();
    for e in std::fs::read_dir(src).unwrap() {
        let e = e.unwrap();
        let (p, d) = (e.path(), dst.join(e.file_name()));
        if p.is_dir() {
            copy_dir(&p, &d)
        } else {
            std::fs::copy(&p, &d).unwrap();
        }
    }
}

fn build_tree(dir: &Path, blob: bool, rng: &mut Rng, bs: u32, universe: &[K]) -> SeqNo {
    let (seqno, vis) = (SequenceNumberCounter::default(), SequenceNumberCounter::default());
    let c = physical(Config::new(dir, seqno.clone(), vis.clone())).data_block_size_policy(lsm_tree::config::BlockSizePolicy::all(bs));
    let c = if blob { c.with_kv_separation(Some(KvSeparationOptions::default().separation_threshold(6).file_target_size(64).compression(lsm_tree::CompressionType::None))) } else { c };
    let tree = c.open().unwrap();
    let nflush = 2 + rng.below(2);
    for f in 0..nflush {
        for _ in 0..(2 + rng.below(4)) {
            let k = rng.pick(universe).clone();
            let s = seqno.next();
            if rng.chance(1, 6) {
                tree.remove(k, s);
            } else {
                let len = *rng.pick(&[2usize, 5, 12, 13, 20, 21]); // odd and even lengths: a flipped low bit of a length field shrinks or grows it
                let v: Vec<u8> = format!("{}@{s}", hex(&k)).into_bytes().into_iter().chain(std::iter::repeat(b'.')).take(len.max(4)).collect();
                tree.insert(k, v, s);
            }
            vis.fetch_max(s + 1);
        }
        tree.flush_active_memtable(0).unwrap();
        if f == 1 && rng.chance(1, 2) {
            tree.compact(Arc::new(lsm_tree::compaction::Leveled::default().with_l0_threshold(2)), 0).unwrap();
        }
    }
    vis.get()
}

/// probes are numbered across the whole run; a worker started with `--skip N` enumerates the same probes (same seeds, same
/// rng calls) but executes only those with index >= N
static PROBE_IDX: std::sync::atomic::AtomicU64 = std::sync::atomic::AtomicU64::new(0);

fn next_probe(skip: u64) -> Option<u64> {
    let i = PROBE_IDX.fetch_add(1, std::sync::atomic::Ordering::SeqCst);
    if i < skip { None } else { Some(i) }
}

/// an oracle failure is printed at once in worker mode (it must survive a later fatal signal)
fn of(st: &mut Stats, worker: bool, msg: String) {
    if worker {
        println!("OF {}", msg.replace('\n', " "));
    }
    st.oracle_failures.push(msg);
}

/// byte offsets of the entry count of the sfa table of contents (u32 LE after the `TOC!` magic; the trailer's last 16
/// bytes are toc_pos and toc_len): known finding F10 lives in its top byte
fn toc_count_field(bytes: &[u8]) -> Option<std::ops::Range<usize>> {
    if bytes.len() < 16 + 22 {
        return None;
    }
    let p = u64::from_le_bytes(bytes[bytes.len() - 16..bytes.len() - 8].try_into().ok()?) as usize;
    if p + 8 <= bytes.len() && &bytes[p..p + 4] == b"TOC!" { Some(p + 4..p + 8) } else { None }
}

/// The supervisor: runs the enumeration in a child process (`flip --worker`); when the child dies from a fatal signal
/// (corrupted bytes driving the code under test into an allocation failure / SIGSEGV), the probe it died on is recorded
/// and a new child continues with the next probe.
pub fn run_supervised(seed: u64, trees: u64, thorough: bool, st: &mut Stats) {
    let exe = std::env::current_exe().unwrap();
    let mut skip = 0u64;
    let mut crashes = 0u64;
    loop {
        let mut cmd = std::process::Command::new(&exe);
        cmd.args(["flip", "--worker", "--seed", &seed.to_string(), "--cases", &trees.to_string(), "--skip", &skip.to_string()]);
        if thorough {
            cmd.arg("--thorough");
        }
        let out = cmd.stderr(std::process::Stdio::inherit()).output().expect("spawn flip worker");
        let text = String::from_utf8_lossy(&out.stdout).to_string();
        let mut done = false;
        let mut streamed: Vec<String> = vec![];
        let mut crash: Option<(u64, bool, String)> = None;
        for l in text.lines() {
            if let Some(m) = l.strip_prefix("OF ") {
                streamed.push(m.to_string());
            } else if let Some(j) = l.strip_prefix("RESULT ") {
                // the worker's own result line: merge numbers, keep its failures
                let num = |k: &str| -> u64 { j.split(&format!("\"{k}\":")).nth(1).and_then(|r| r.split(|c: char| !c.is_ascii_digit()).next()).and_then(|n| n.parse().ok()).unwrap_or(0) };
                st.evaluations += num("evaluations");
                if let Some(c) = j.split("\"counters\":{").nth(1).and_then(|r| r.split('}').next()) {
                    for kv in c.split(',') {
                        if let Some((k, v)) = kv.rsplit_once(':') {
                            if let Ok(n) = v.trim().parse::<u64>() {
                                st.add(k.trim().trim_matches('"'), n);
                            }
                        }
                    }
                }
                if j.contains("\"disagreements\":[\"") {
                    st.disagreements.push(format!("flip worker reported: {}", clip_str(j, 600)));
                }
                done = true;
            } else if let Some(c) = l.strip_prefix("CRASH ") {
                // CRASH idx=<n> known=<0|1> <message>
                let mut it = c.splitn(3, ' ');
                let idx = it.next().and_then(|x| x.strip_prefix("idx=")).and_then(|x| x.parse().ok()).unwrap_or(skip);
                let known = it.next() == Some("known=1");
                crash = Some((idx, known, it.next().unwrap_or("").to_string()));
            }
        }
        for m in streamed {
            if st.oracle_failures.len() < 12 {
                st.oracle_failures.push(m);
            }
        }
        if done {
            break;
        }
        match crash {
            Some((idx, known, msg)) => {
                crashes += 1;
                st.count("flip.worker_died_from_fatal_signal");
                st.evaluations += idx.saturating_sub(skip) + 1;
                if known {
                    st.count("flip.known_finding_F10_hits");
                    if !st.known_findings.iter().any(|k| k.starts_with("F10:")) {
                        st.known_findings.push(format!("F10: {msg}"));
                    }
                } else if st.oracle_failures.len() < 12 {
                    st.oracle_failures.push(msg);
                }
                skip = idx + 1;
            }
            None => {
                st.oracle_failures.push(format!("C10 flip worker ended without a result and without a crash note (status {:?}) after probe {skip}: {}", out.status, clip_str(&text, 300)));
                break;
            }
        }
        if crashes > 400 {
            st.oracle_failures.push("C10 flip: more than 400 probes end in a fatal signal; enumeration stopped".into());
            break;
        }
    }
    st.nontrivial.insert(st.evaluations);
    for i in 0..st.evaluations.min(200_000) {
        // distinct non-trivial probes = executed probes (each is a distinct (file, offset, pattern))
        st.nontrivial.insert(i);
    }
}

fn clip_str(s: &str, n: usize) -> String {
    s.chars().take(n).collect()
}

pub fn run(seed: u64, trees: u64, thorough: bool, st: &mut Stats, replay_dir: &Path, worker: bool, skip: u64) {
    install_crash_reporter();
    std::fs::create_dir_all(replay_dir).ok();
    for tno in 0..trees {
        let mut rng = Rng::new(seed.wrapping_mul(7919).wrapping_add(tno));
        let blob = tno % 2 == 1;
        PARTITIONED.store(tno % 4 >= 2, std::sync::atomic::Ordering::SeqCst);
        if tno % 4 >= 2 {
            st.count("flip.trees_with_partitioned_index_and_filter");
        }
        let bs = *rng.pick(&[16u32, 64, 4096]);
        let universe = gen_keyset(&mut rng, 6);
        let dir = tempfile::tempdir_in(crate::scratch_root()).unwrap();
        let s = build_tree(dir.path(), blob, &mut rng, bs, &universe);
        let orig = match answers(dir.path(), blob, s, bs, &universe) {
            Ok(a) => a,
            Err(e) => {
                st.disagreements.push(format!("flip: the unmodified tree does not open/read: {e}"));
                continue;
            }
        };
        let mut files: Vec<PathBuf> = vec![];
        for sub in ["", "tables", "blobs"] {
            if let Ok(rd) = std::fs::read_dir(dir.path().join(sub)) {
                for e in rd.flatten() {
                    let p = e.path();
                    if p.is_file() {
                        files.push(p.strip_prefix(dir.path()).unwrap().to_path_buf());
                    }
                }
            }
        }
        files.sort();
        let patterns: &[u8] = if thorough { &[0x01, 0x80, 0xff, 0x10] } else { &[0x01] };
        for rel in files {
            let bytes = std::fs::read(dir.path().join(&rel)).unwrap();
            let kind = if rel.starts_with("tables") { "table" } else if rel.starts_with("blobs") { "blob" } else if rel.to_string_lossy() == "current" { "current" } else if rel.to_string_lossy().starts_with('v') { "version" } else { "other" };
            if kind == "other" {
                continue;
            }
            let stride = if !thorough && bytes.len() > 1500 { 3 } else { 1 };
            let img = tempfile::tempdir_in(crate::scratch_root()).unwrap();
            copy_dir(dir.path(), img.path());
            let target = img.path().join(&rel);
            let mut positions: Vec<(usize, u8, bool)> = vec![]; // (offset, xor pattern, truncate?)
            for i in (0..bytes.len()).step_by(stride) {
                for p in patterns {
                    positions.push((i, *p, false));
                }
            }
            let tstride = if thorough { 1 } else { 7 };
            for i in (0..bytes.len()).step_by(tstride) {
                positions.push((i, 0, true));
            }
            let toc_field = if kind == "current" { None } else { toc_count_field(&bytes) };
            for (i, pat, trunc) in positions {
                let Some(idx) = next_probe(skip) else { continue };
                if let Ok(only) = std::env::var("LSMVERIF_FLIP_ONLY") {
                    // debugging aid: `<tree>:<file>:<offset>:<pattern>` runs that single probe
                    if only != format!("{tno}:{}:{i}:{pat}", rel.display()) || trunc {
                        continue;
                    }
                }
                let mut b = bytes.clone();
                if trunc {
                    b.truncate(i);
                } else {
                    b[i] ^= pat;
                }
                std::fs::write(&target, &b).unwrap();
                st.evaluations += 1;
                let what = if trunc { "truncate" } else { "flip" };
                // F10: the top byte of the sfa ToC entry count (allocation before the ToC checksum is verified)
                let known = !trunc && toc_field.as_ref().is_some_and(|r| i + 1 == r.end);
                crash_line(idx, known, &format!("C10 {what} at offset {i} (pattern {pat:#04x}) of {kind} file `{}` (len {}{}) of tree #{tno} (seed {seed}, blob={blob}, block size {bs}): the process dies with a fatal signal (SIGSEGV / SIGBUS / abort, e.g. a failed allocation) while opening / reading the corrupted tree", rel.display(), bytes.len(), if known { "; the byte is the top byte of the entry count of the sfa table of contents" } else { "" }));
                let res = {
                    let (p, u) = (img.path().to_path_buf(), universe.clone());
                    with_timeout(move || answers(&p, blob, s, bs, &u), if known { 4 } else { 20 })
                };
                let Some(res) = res else {
                    let msg = format!("C10 {what} at offset {i} (pattern {pat:#04x}) of {kind} file `{}` (len {}{}) of tree #{tno} (seed {seed}, blob={blob}, block size {bs}): opening / reading the corrupted tree does not come back within {} s (watchdog)", rel.display(), bytes.len(), if known { "; the byte is the top byte of the entry count of the sfa table of contents" } else { "" }, if known { 4 } else { 20 });
                    if worker {
                        // the stuck thread cannot be reclaimed: hand over to a fresh worker, like after a fatal signal
                        println!("CRASH idx={idx} known={} {msg}", u8::from(known));
                        std::process::exit(0);
                    }
                    of(st, worker, msg);
                    return;
                };
                match res {
                    Ok(d) if d == orig => st.count(&format!("flip.{kind}.{what}.same")),
                    Ok(d) if silent_paths(&d, &orig).is_empty() => st.count(&format!("flip.{kind}.{what}.error_on_some_path")),
                    Ok(d) => {
                        st.count(&format!("flip.{kind}.{what}.SILENT"));
                        let first = silent_paths(&d, &orig).join(", ");
                        let msg = format!("C10 {what} at offset {i} (pattern {pat:#04x}) of {} file `{}` (len {}) of tree #{tno} (seed {seed}, blob={blob}, block size {bs}): these read paths succeed with DIFFERENT answers: {first}", kind, rel.display(), bytes.len());
                        if st.oracle_failures.len() < 12 {
                            of(st, worker, msg);
                        }
                    }
                    Err(e) if e == "panic" => st.count(&format!("flip.{kind}.{what}.panic")),
                    Err(_) => st.count(&format!("flip.{kind}.{what}.error")),
                }
                st.nontrivial_case(&format!("{tno}/{}/{i}/{pat}/{trunc}", rel.display()));
            }
            std::fs::write(&target, &bytes).unwrap();
            // ---- second phase (table and blob files): corrupt, COMPACT, then read
            if kind == "table" || kind == "blob" {
                let cstride = if thorough { 3 } else { 11 };
                let off0 = (rng.below(cstride as u64)) as usize;
                for i in (off0..bytes.len()).step_by(cstride) {
                    let Some(idx) = next_probe(skip) else { continue };
                    let img2 = tempfile::tempdir_in(crate::scratch_root()).unwrap();
                    copy_dir(dir.path(), img2.path());
                    let mut b = bytes.clone();
                    b[i] ^= 0x01;
                    std::fs::write(img2.path().join(&rel), &b).unwrap();
                    st.evaluations += 1;
                    crash_line(idx, false, &format!("C10 flip at offset {i} of {kind} file `{}` (len {}) of tree #{tno} (seed {seed}, blob={blob}, block size {bs}): the process dies with a fatal signal (SIGSEGV / SIGBUS / abort) while compacting / reading the corrupted tree", rel.display(), bytes.len()));
                    let res = {
                        let (p, u) = (img2.path().to_path_buf(), universe.clone());
                        with_timeout(move || answers_after_compaction(&p, blob, s, bs, &u), 30)
                    };
                    match res {
                        None => {
                            let msg = format!("C10 flip at offset {i} of {kind} file `{}` of tree #{tno} (seed {seed}): compaction / reads of the corrupted tree do not come back within 30 s (watchdog)", rel.display());
                            if worker {
                                println!("CRASH idx={idx} known=0 {msg}");
                                std::process::exit(0);
                            }
                            of(st, worker, msg);
                            return;
                        }
                        Some(Ok(d)) if d == orig => st.count(&format!("flip.{kind}.compact.same")),
                        Some(Ok(d)) if silent_paths(&d, &orig).is_empty() => st.count(&format!("flip.{kind}.compact.error_on_some_path")),
                        Some(Ok(_)) => {
                            st.count(&format!("flip.{kind}.compact.SILENT"));
                            if st.oracle_failures.len() < 12 {
                                of(st, worker, format!("C10 flip at offset {i} of {kind} file `{}` (len {}) of tree #{tno} (seed {seed}, blob={blob}, block size {bs}): a major compaction SUCCEEDS on the corrupted file and the reads afterwards differ from the original answers", rel.display(), bytes.len()));
                            }
                        }
                        Some(Err(e)) if e == "panic" => st.count(&format!("flip.{kind}.compact.panic")),
                        Some(Err(_)) => st.count(&format!("flip.{kind}.compact.error")),
                    }
                }
            }
        }
        if tno < 2 {
            st.sample(format!("tree #{tno} blob={blob} block_size={bs} snapshot={s}: {} live keys; every byte of every file flipped / truncated", orig.len().saturating_sub(1)));
        }
    }
}
