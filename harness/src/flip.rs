//! C10 fault enumeration: every byte of every persisted file of small generated trees is altered (and files are truncated),
//! then the tree is opened afresh (empty cache) and every read path is exercised. Outcome per position must be
//! "identical answers" or an error; a different answer is a silent corruption = violation. Panics are counted separately
//! (reported, not silent).
use crate::util::*;
use lsm_tree::{AbstractTree, Config, Guard, KvSeparationOptions, SeqNo, SequenceNumberCounter};
use std::path::{Path, PathBuf};
use std::sync::Arc;

fn cfg(p: &Path, blob: bool, a: u64, bs: u32) -> Config {
    let c = Config::new(p, SequenceNumberCounter::new(a), SequenceNumberCounter::new(a))
        .data_block_size_policy(lsm_tree::config::BlockSizePolicy::all(bs))
        .use_cache(Arc::new(lsm_tree::Cache::with_capacity_bytes(0)));
    if blob {
        c.with_kv_separation(Some(KvSeparationOptions::default().separation_threshold(6).file_target_size(64).compression(lsm_tree::CompressionType::None)))
    } else {
        c
    }
}

type Answers = Vec<(Vec<u8>, Vec<u8>)>;

/// all read paths: forward scan, reverse scan, point reads of every key of the universe, len
fn answers(p: &Path, blob: bool, s: SeqNo, bs: u32, universe: &[K]) -> Result<Answers, String> {
    let r = std::panic::catch_unwind(|| -> Result<Answers, String> {
        let t = cfg(p, blob, s, bs).open().map_err(|e| format!("open:{e:?}"))?;
        let mut out = vec![];
        for g in t.iter(s, None) {
            let (k, v) = g.into_inner().map_err(|e| format!("scan:{e:?}"))?;
            out.push((k.to_vec(), v.to_vec()));
        }
        let mut rev = vec![];
        for g in t.iter(s, None).rev() {
            let (k, v) = g.into_inner().map_err(|e| format!("rscan:{e:?}"))?;
            rev.push((k.to_vec(), v.to_vec()));
        }
        rev.reverse();
        if rev != out {
            return Ok(vec![(b"REVERSE-SCAN-DIFFERS".to_vec(), vec![])]);
        }
        for k in universe {
            let got = t.get(k, s).map_err(|e| format!("get:{e:?}"))?.map(|v| v.to_vec());
            let want = out.iter().find(|(kk, _)| kk == k).map(|(_, v)| v.clone());
            if got != want {
                return Ok(vec![(b"POINT-READ-DIFFERS".to_vec(), k.clone())]);
            }
        }
        // an older snapshot too (visibility must not silently change either)
        let mid = s / 2;
        let mut older = vec![];
        for g in t.iter(mid, None) {
            let (k, v) = g.into_inner().map_err(|e| format!("scan-old:{e:?}"))?;
            older.push((k.to_vec(), v.to_vec()));
        }
        out.push((b"--older-snapshot--".to_vec(), format!("{older:?}").into_bytes()));
        Ok(out)
    });
    match r {
        Ok(x) => x,
        Err(_) => Err("panic".into()),
    }
}

/// run a probe with a watchdog: a read path that spins forever on corrupted bytes is reported, not waited for
fn with_timeout<T: Send + 'static>(f: impl FnOnce() -> T + Send + 'static, secs: u64) -> Option<T> {
    let (tx, rx) = std::sync::mpsc::channel();
    std::thread::spawn(move || {
        let _ = tx.send(f());
    });
    rx.recv_timeout(std::time::Duration::from_secs(secs)).ok()
}

/// after the corruption: compact everything, then read — a compaction that silently skips unreadable data and
/// publishes a clean-looking table is a silent corruption too
fn answers_after_compaction(p: &Path, blob: bool, s: SeqNo, bs: u32, universe: &[K]) -> Result<Answers, String> {
    let r = std::panic::catch_unwind(|| -> Result<(), String> {
        let t = cfg(p, blob, s, bs).open().map_err(|e| format!("open:{e:?}"))?;
        t.major_compact(u64::MAX, 0).map_err(|e| format!("compact:{e:?}"))?;
        Ok(())
    });
    match r {
        Ok(Ok(())) => answers(p, blob, s, bs, universe),
        Ok(Err(e)) => Err(e),
        Err(_) => Err("panic".into()),
    }
}

fn copy_dir(src: &Path, dst: &Path) {
    std::fs::create_dir_all(dst).unwrap();
    for e in std::fs::read_dir(src).unwrap() {
        let e = e.unwrap();
        let (p, d) = (e.path(), dst.join(e.file_name()));
        if p.is_dir() {
            copy_dir(&p, &d)
        } else {
            std::fs::copy(&p, &d).unwrap();
        }
    }
}

fn build_tree(dir: &Path, blob: bool, rng: &mut Rng, bs: u32, universe: &[K]) -> SeqNo {
    let (seqno, vis) = (SequenceNumberCounter::default(), SequenceNumberCounter::default());
    let c = Config::new(dir, seqno.clone(), vis.clone()).data_block_size_policy(lsm_tree::config::BlockSizePolicy::all(bs));
    let c = if blob { c.with_kv_separation(Some(KvSeparationOptions::default().separation_threshold(6).file_target_size(64).compression(lsm_tree::CompressionType::None))) } else { c };
    let tree = c.open().unwrap();
    let nflush = 2 + rng.below(2);
    for f in 0..nflush {
        for _ in 0..(2 + rng.below(4)) {
            let k = rng.pick(universe).clone();
            let s = seqno.next();
            if rng.chance(1, 6) {
                tree.remove(k, s);
            } else {
                let len = *rng.pick(&[2usize, 5, 12, 20]);
                let v: Vec<u8> = format!("{}@{s}", hex(&k)).into_bytes().into_iter().chain(std::iter::repeat(b'.')).take(len.max(4)).collect();
                tree.insert(k, v, s);
            }
            vis.fetch_max(s + 1);
        }
        tree.flush_active_memtable(0).unwrap();
        if f == 1 && rng.chance(1, 2) {
            tree.compact(Arc::new(lsm_tree::compaction::Leveled::default().with_l0_threshold(2)), 0).unwrap();
        }
    }
    vis.get()
}

pub fn run(seed: u64, trees: u64, thorough: bool, st: &mut Stats, replay_dir: &Path) {
    std::fs::create_dir_all(replay_dir).ok();
    for tno in 0..trees {
        let mut rng = Rng::new(seed.wrapping_mul(7919).wrapping_add(tno));
        let blob = tno % 2 == 1;
        let bs = *rng.pick(&[16u32, 64, 4096]);
        let universe = gen_keyset(&mut rng, 6);
        let dir = tempfile::tempdir_in(crate::scratch_root()).unwrap();
        let s = build_tree(dir.path(), blob, &mut rng, bs, &universe);
        let orig = match answers(dir.path(), blob, s, bs, &universe) {
            Ok(a) => a,
            Err(e) => {
                st.disagreements.push(format!("flip: the unmodified tree does not open/read: {e}"));
                continue;
            }
        };
        let mut files: Vec<PathBuf> = vec![];
        for sub in ["", "tables", "blobs"] {
            if let Ok(rd) = std::fs::read_dir(dir.path().join(sub)) {
                for e in rd.flatten() {
                    let p = e.path();
                    if p.is_file() {
                        files.push(p.strip_prefix(dir.path()).unwrap().to_path_buf());
                    }
                }
            }
        }
        files.sort();
        let patterns: &[u8] = if thorough { &[0x01, 0x80, 0xff, 0x10] } else { &[0x01] };
        for rel in files {
            let bytes = std::fs::read(dir.path().join(&rel)).unwrap();
            let kind = if rel.starts_with("tables") { "table" } else if rel.starts_with("blobs") { "blob" } else if rel.to_string_lossy() == "current" { "current" } else if rel.to_string_lossy().starts_with('v') { "version" } else { "other" };
            if kind == "other" {
                continue;
            }
            let stride = if !thorough && bytes.len() > 1500 { 3 } else { 1 };
            let img = tempfile::tempdir_in(crate::scratch_root()).unwrap();
            copy_dir(dir.path(), img.path());
            let target = img.path().join(&rel);
            let mut positions: Vec<(usize, u8, bool)> = vec![]; // (offset, xor pattern, truncate?)
            for i in (0..bytes.len()).step_by(stride) {
                for p in patterns {
                    positions.push((i, *p, false));
                }
            }
            let tstride = if thorough { 1 } else { 7 };
            for i in (0..bytes.len()).step_by(tstride) {
                positions.push((i, 0, true));
            }
            for (i, pat, trunc) in positions {
                let mut b = bytes.clone();
                if trunc {
                    b.truncate(i);
                } else {
                    b[i] ^= pat;
                }
                std::fs::write(&target, &b).unwrap();
                st.evaluations += 1;
                let what = if trunc { "truncate" } else { "flip" };
                let res = {
                    let (p, u) = (img.path().to_path_buf(), universe.clone());
                    with_timeout(move || answers(&p, blob, s, bs, &u), 20)
                };
                let Some(res) = res else {
                    st.oracle_failures.push(format!("C10 {what} at offset {i} (pattern {pat:#04x}) of {kind} file `{}` of tree #{tno} (seed {seed}): the read path does not terminate (watchdog 20 s)", rel.display()));
                    // the stuck thread cannot be reclaimed: stop this instrument here
                    return;
                };
                match res {
                    Ok(d) if d == orig => st.count(&format!("flip.{kind}.{what}.same")),
                    Ok(d) => {
                        st.count(&format!("flip.{kind}.{what}.SILENT"));
                        let first = d.iter().zip(orig.iter()).find(|(a, b)| a != b).map(|(a, _)| hex(&a.0)).unwrap_or_else(|| format!("{} vs {} items", d.len(), orig.len()));
                        let msg = format!("C10 {what} at offset {i} (pattern {pat:#04x}) of {} file `{}` (len {}) of tree #{tno} (seed {seed}, blob={blob}, block size {bs}): reads succeed with DIFFERENT answers (first difference at {first})", kind, rel.display(), bytes.len());
                        if st.oracle_failures.len() < 12 {
                            st.oracle_failures.push(msg);
                        }
                    }
                    Err(e) if e == "panic" => st.count(&format!("flip.{kind}.{what}.panic")),
                    Err(_) => st.count(&format!("flip.{kind}.{what}.error")),
                }
                st.nontrivial_case(&format!("{tno}/{}/{i}/{pat}/{trunc}", rel.display()));
            }
            std::fs::write(&target, &bytes).unwrap();
            // ---- second phase (table and blob files): corrupt, COMPACT, then read
            if kind == "table" || kind == "blob" {
                let cstride = if thorough { 3 } else { 11 };
                let off0 = (rng.below(cstride as u64)) as usize;
                for i in (off0..bytes.len()).step_by(cstride) {
                    let img2 = tempfile::tempdir_in(crate::scratch_root()).unwrap();
                    copy_dir(dir.path(), img2.path());
                    let mut b = bytes.clone();
                    b[i] ^= 0x01;
                    std::fs::write(img2.path().join(&rel), &b).unwrap();
                    st.evaluations += 1;
                    let res = {
                        let (p, u) = (img2.path().to_path_buf(), universe.clone());
                        with_timeout(move || answers_after_compaction(&p, blob, s, bs, &u), 30)
                    };
                    match res {
                        None => {
                            st.oracle_failures.push(format!("C10 flip at offset {i} of {kind} file `{}` of tree #{tno} (seed {seed}): compaction / reads do not terminate", rel.display()));
                            return;
                        }
                        Some(Ok(d)) if d == orig => st.count(&format!("flip.{kind}.compact.same")),
                        Some(Ok(_)) => {
                            st.count(&format!("flip.{kind}.compact.SILENT"));
                            if st.oracle_failures.len() < 12 {
                                st.oracle_failures.push(format!("C10 flip at offset {i} of {kind} file `{}` (len {}) of tree #{tno} (seed {seed}, blob={blob}, block size {bs}): a major compaction SUCCEEDS on the corrupted file and the reads afterwards differ from the original answers", rel.display(), bytes.len()));
                            }
                        }
                        Some(Err(e)) if e == "panic" => st.count(&format!("flip.{kind}.compact.panic")),
                        Some(Err(_)) => st.count(&format!("flip.{kind}.compact.error")),
                    }
                }
            }
        }
        if tno < 2 {
            st.sample(format!("tree #{tno} blob={blob} block_size={bs} snapshot={s}: {} live keys; every byte of every file flipped / truncated", orig.len().saturating_sub(1)));
        }
    }
}
