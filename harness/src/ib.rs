//! Instrument I-B: whole-tree history replay with step validation.
//!
//! A case = (config, op list), generated up front from the seed (so it can be shrunk and replayed verbatim).
//! Every op is executed on the real tree; after every op
//!   * the canonical state of the real tree (history structure, memtable and table contents, counters) is compared
//!     with the state the Lean model (`lsmdrv`) predicts for the same op  -> model/implementation disagreement,
//!   * the property oracles (a versioned ordered map, structural audits) are evaluated on the REAL tree
//!     -> implementation/oracle failure, tagged with the property id.
use crate::util::*;
use lsm_tree::compaction::{CompactionFilter, Factory, ItemAccessor, Verdict};
use lsm_tree::config::{BlockSizePolicy, FilterPolicy, FilterPolicyEntry, HashRatioPolicy, PinningPolicy, RestartIntervalPolicy};
use lsm_tree::verif_api as va;
use lsm_tree::{AbstractTree, AnyTree, Config, Guard, SeqNo, SequenceNumberCounter, Tree};
use std::collections::{BTreeMap, BTreeSet};
use std::ops::Bound;
use std::sync::{Arc, Mutex};

// ------------------------------------------------------------------------------------------------ case description

#[derive(Clone, Debug, PartialEq)]
pub struct Cfg {
    pub block_size: u32,
    pub restart: u8,
    pub hash_ratio: u32, // percent
    pub part_index: bool,
    pub part_filter: bool,
    pub pin: bool,
    pub bloom: u8, // 0 none, 1 10bpk, 2 fpr 0.01
    pub cache_kb: u64, // 0 = zero-capacity cache
    pub fd_cap: u64,   // 0 = no descriptor table
    pub filter_seed: Option<u64>,
    pub blob: Option<(u32, u64)>, // (separation threshold, blob file target size)
    pub nkeys: usize,
    pub key_seed: u64,
    /// 0 = no compression, 1 = lz4 data blocks (+ blobs), 2 = lz4 data + index blocks (+ blobs)
    pub compress: u8,
    /// Config::expect_point_read_hits
    pub hits: bool,
    /// one byte appended to every written value (0 = none): trees of a shared-cache group write values of equal length but different bytes
    pub salt: u8,
}

#[derive(Clone, Copy, Debug, PartialEq)]
pub enum Wm {
    Zero,
    Top,
    Half,
}

#[derive(Clone, Debug, PartialEq)]
pub enum Bd {
    U,
    I(usize),
    E(usize),
}

#[derive(Clone, Debug, PartialEq)]
pub enum Op {
    Insert(usize, usize),       // key idx, value padding
    Remove(usize),
    RemoveWeak(usize),
    Batch(Vec<(usize, u8)>),    // (key idx, 0 insert / 1 remove)
    Rotate,
    Flush(Wm),
    Leveled(u8, u64, Wm),       // l0 threshold, target size
    Major(u64, Wm),
    MoveDown(u8, u8),
    PullDown(u8, u8, Wm),
    Fifo(u8, u8),               // limit selector (0: 1 byte, 1: half, 2: exact, 3: double), ttl selector (0 none, 1 huge)
    DropRange(Bd, Bd),
    Clear,
    Ingest(Vec<(usize, bool)>), // (key idx ascending, tombstone?)
    /// an ingestion that is started, written to and then DROPPED without `finish()` (its table / blob files are leftovers
    /// that the next recovery has to remove; nothing becomes visible)
    AbandonIngest(Vec<usize>),
    /// `n` sequence numbers are drawn from the shared counter and never published (writers in flight): the allocating
    /// counter runs ahead of the visible one for the following operations
    Lag(u8),
    SnapOpen,
    SnapRelease(usize),
    Reopen,
    Scan(Bd, Bd, String, usize), // bounds, F/B word, snapshot selector (0 = newest, i = i-th held)
}

fn wm_s(w: Wm) -> &'static str {
    match w {
        Wm::Zero => "zero",
        Wm::Top => "top",
        Wm::Half => "half",
    }
}
fn wm_p(s: &str) -> Wm {
    match s {
        "zero" => Wm::Zero,
        "top" => Wm::Top,
        _ => Wm::Half,
    }
}
fn bd_s(b: &Bd) -> String {
    match b {
        Bd::U => "U".into(),
        Bd::I(i) => format!("I{i}"),
        Bd::E(i) => format!("E{i}"),
    }
}
fn bd_p(s: &str) -> Bd {
    match &s[..1] {
        "U" => Bd::U,
        "I" => Bd::I(s[1..].parse().unwrap()),
        _ => Bd::E(s[1..].parse().unwrap()),
    }
}
impl Op {
    pub fn show(&self) -> String {
        match self {
            Op::Insert(k, p) => format!("insert {k} {p}"),
            Op::Remove(k) => format!("remove {k}"),
            Op::RemoveWeak(k) => format!("remove_weak {k}"),
            Op::Batch(v) => format!("batch {}", v.iter().map(|(k, t)| format!("{k}:{t}")).collect::<Vec<_>>().join(",")),
            Op::Rotate => "rotate".into(),
            Op::Flush(w) => format!("flush {}", wm_s(*w)),
            Op::Leveled(l0, ts, w) => format!("leveled {l0} {ts} {}", wm_s(*w)),
            Op::Major(ts, w) => format!("major {ts} {}", wm_s(*w)),
            Op::MoveDown(a, b) => format!("movedown {a} {b}"),
            Op::PullDown(a, b, w) => format!("pulldown {a} {b} {}", wm_s(*w)),
            Op::Fifo(l, t) => format!("fifo {l} {t}"),
            Op::DropRange(a, b) => format!("drop_range {} {}", bd_s(a), bd_s(b)),
            Op::Clear => "clear".into(),
            Op::Lag(n) => format!("lag {n}"),
            Op::AbandonIngest(v) => format!("abandon_ingest {}", v.iter().map(|k| k.to_string()).collect::<Vec<_>>().join(",")),
            Op::Ingest(v) => format!("ingest {}", v.iter().map(|(k, t)| format!("{k}:{}", u8::from(*t))).collect::<Vec<_>>().join(",")),
            Op::SnapOpen => "snap_open".into(),
            Op::SnapRelease(i) => format!("snap_release {i}"),
            Op::Reopen => "reopen".into(),
            Op::Scan(a, b, w, s) => format!("scan {} {} {w} {s}", bd_s(a), bd_s(b)),
        }
    }
    pub fn parse(line: &str) -> Option<Op> {
        let t: Vec<&str> = line.split_whitespace().collect();
        let pairs = |s: &str| -> Vec<(usize, u8)> {
            if s.is_empty() {
                return vec![];
            }
            s.split(',').map(|p| { let mut i = p.split(':'); (i.next().unwrap().parse().unwrap(), i.next().unwrap().parse().unwrap()) }).collect()
        };
        Some(match *t.first()? {
            "insert" => Op::Insert(t[1].parse().ok()?, t[2].parse().ok()?),
            "remove" => Op::Remove(t[1].parse().ok()?),
            "remove_weak" => Op::RemoveWeak(t[1].parse().ok()?),
            "batch" => Op::Batch(pairs(t.get(1).copied().unwrap_or(""))),
            "rotate" => Op::Rotate,
            "flush" => Op::Flush(wm_p(t[1])),
            "leveled" => Op::Leveled(t[1].parse().ok()?, t[2].parse().ok()?, wm_p(t[3])),
            "major" => Op::Major(t[1].parse().ok()?, wm_p(t[2])),
            "movedown" => Op::MoveDown(t[1].parse().ok()?, t[2].parse().ok()?),
            "pulldown" => Op::PullDown(t[1].parse().ok()?, t[2].parse().ok()?, wm_p(t[3])),
            "fifo" => Op::Fifo(t[1].parse().ok()?, t[2].parse().ok()?),
            "drop_range" => Op::DropRange(bd_p(t[1]), bd_p(t[2])),
            "clear" => Op::Clear,
            "lag" => Op::Lag(t[1].parse().ok()?),
            "abandon_ingest" => Op::AbandonIngest(t.get(1).copied().unwrap_or("").split(',').filter_map(|x| x.parse().ok()).collect()),
            "ingest" => Op::Ingest(pairs(t.get(1).copied().unwrap_or("")).into_iter().map(|(k, b)| (k, b == 1)).collect()),
            "snap_open" => Op::SnapOpen,
            "snap_release" => Op::SnapRelease(t[1].parse().ok()?),
            "reopen" => Op::Reopen,
            "scan" => Op::Scan(bd_p(t[1]), bd_p(t[2]), t[3].to_string(), t[4].parse().ok()?),
            _ => return None,
        })
    }
}

#[derive(Clone, Debug)]
pub struct Case {
    pub cfg: Cfg,
    pub ops: Vec<Op>,
}
impl Case {
    pub fn show(&self) -> String {
        let c = &self.cfg;
        let mut s = format!(
            "cfg block_size={} restart={} hash_ratio={} part_index={} part_filter={} pin={} bloom={} cache_kb={} fd_cap={} filter_seed={} blob={} nkeys={} key_seed={} salt={} compress={} hits={}\n",
            c.block_size, c.restart, c.hash_ratio, u8::from(c.part_index), u8::from(c.part_filter), u8::from(c.pin), c.bloom, c.cache_kb, c.fd_cap,
            c.filter_seed.map_or("-".into(), |x| x.to_string()),
            c.blob.map_or("-".into(), |(t, f)| format!("{t}:{f}")),
            c.nkeys, c.key_seed, c.salt, c.compress, u8::from(c.hits)
        );
        for o in &self.ops {
            s.push_str(&o.show());
            s.push('\n');
        }
        s
    }
    pub fn parse(text: &str) -> Option<Case> {
        let mut lines = text.lines().filter(|l| !l.trim().is_empty() && !l.starts_with('#'));
        let head = lines.next()?;
        let mut m = BTreeMap::new();
        for tok in head.split_whitespace().skip(1) {
            let mut i = tok.splitn(2, '=');
            m.insert(i.next()?.to_string(), i.next()?.to_string());
        }
        let g = |k: &str| m.get(k).cloned().unwrap_or_default();
        let cfg = Cfg {
            block_size: g("block_size").parse().ok()?,
            restart: g("restart").parse().ok()?,
            hash_ratio: g("hash_ratio").parse().ok()?,
            part_index: g("part_index") == "1",
            part_filter: g("part_filter") == "1",
            pin: g("pin") == "1",
            bloom: g("bloom").parse().ok()?,
            cache_kb: g("cache_kb").parse().ok()?,
            fd_cap: g("fd_cap").parse().ok()?,
            filter_seed: g("filter_seed").parse().ok(),
            blob: { let b = g("blob"); if b == "-" { None } else { let mut i = b.split(':'); Some((i.next()?.parse().ok()?, i.next()?.parse().ok()?)) } },
            nkeys: g("nkeys").parse().ok()?,
            key_seed: g("key_seed").parse().ok()?,
            salt: g("salt").parse().unwrap_or(0),
            compress: g("compress").parse().unwrap_or(0),
            hits: g("hits") == "1",
        };
        let ops = lines.map(Op::parse).collect::<Option<Vec<_>>>()?;
        Some(Case { cfg, ops })
    }
}

// ------------------------------------------------------------------------------------------------ generation

/// per-property op mix; weights out of 1000
#[derive(Clone, Copy, PartialEq, Eq, Debug)]
pub enum Profile {
    Core,     // C01 C07 C18: writes, flush, all compactions, reopen
    Snap,     // C02: + held snapshots
    Scan,     // C03: + scans with bounds and words
    Weak,     // C13: weak-delete rounds
    Ingest,   // C14
    Drop,     // C15: drop_range + clear
    Filter,   // C17
    Fifo,     // C19: append-only + fifo
    Reopen,   // C04: reopen at many positions
    Reloc,    // C08/C09: blob relocation: few keys, several live versions, files made partly stale
    All,
    // NOTE: the case seed depends on the discriminant (`profile as u64`): new profiles go AFTER `All`
    Lvl,      // C01c: Leveled-heavy: multi-table runs in the deep levels, target sizes around the table sizes (50x cap, window choice)
}
impl Profile {
    pub fn parse(s: &str) -> Profile {
        match s {
            "core" => Profile::Core,
            "snap" => Profile::Snap,
            "scan" => Profile::Scan,
            "weak" => Profile::Weak,
            "ingest" => Profile::Ingest,
            "drop" => Profile::Drop,
            "filter" => Profile::Filter,
            "fifo" => Profile::Fifo,
            "reopen" => Profile::Reopen,
            "reloc" => Profile::Reloc,
            "lvl" => Profile::Lvl,
            _ => Profile::All,
        }
    }
}

fn gen_wm(rng: &mut Rng) -> Wm {
    *rng.pick(&[Wm::Zero, Wm::Top, Wm::Top, Wm::Half])
}
fn gen_bd(rng: &mut Rng, nkeys: usize) -> Bd {
    match rng.below(4) {
        0 => Bd::U,
        1 | 2 => Bd::I(rng.below(nkeys as u64) as usize),
        _ => Bd::E(rng.below(nkeys as u64) as usize),
    }
}

pub fn gen_case(rng: &mut Rng, profile: Profile, blob: bool, max_ops: u64) -> Case {
    let nkeys = if profile == Profile::Reloc { 3 + rng.below(3) as usize } else { 6 + rng.below(14) as usize };
    let cfg = Cfg {
        block_size: *rng.pick(&[1u32, 16, 64, 256, 4096]),
        restart: *rng.pick(&[1u8, 2, 16]),
        hash_ratio: *rng.pick(&[0u32, 0, 75, 800]),
        part_index: rng.chance(1, 3),
        part_filter: rng.chance(1, 3),
        pin: rng.chance(1, 2),
        bloom: rng.below(3) as u8,
        cache_kb: *rng.pick(&[0u64, 1, 8192]),
        fd_cap: *rng.pick(&[0u64, 1, 2, 64]),
        filter_seed: if profile == Profile::Filter || (profile == Profile::All && rng.chance(1, 4)) { Some(rng.below(100_000)) } else { None },
        blob: if blob { if profile == Profile::Reloc { Some((*rng.pick(&[0u32, 8]), *rng.pick(&[40u64, 100, 200, 1024, 4096]))) } else { Some((*rng.pick(&[0u32, 1, 8, 12, 1000]), *rng.pick(&[1u64, 64, 1024]))) } } else { None },
        nkeys,
        key_seed: rng.next() % 1_000_000,
        salt: 0,
        compress: *rng.pick(&[0u8, 0, 1, 2]),
        hits: rng.chance(1, 4),
    };
    let n = 10 + rng.below(max_ops.max(11) - 10);
    let mut ops = vec![];
    let nk = nkeys as u64;
    if profile == Profile::Reloc && rng.chance(1, 3) {
        // scripted prelude (a scenario CLASS the random walk reaches too rarely): every key written twice into two flushes (blob files
        // shared by all keys when the blob file target is large), one table per key in the last level (each linking the same blob
        // files), garbage created in those files by a single-key drop_range, then a PARTIAL leveled compaction (new L0 data for
        // one key) while the tables left out of it still reference the stale blob files that become relocation candidates
        for _ in 0..2 {
            for k in 0..nkeys {
                ops.push(Op::Insert(k, 40));
            }
            ops.push(Op::Flush(Wm::Zero));
        }
        ops.push(Op::Major(1, Wm::Zero));
        let kd = rng.below(nk) as usize;
        ops.push(Op::DropRange(Bd::I(kd), Bd::I(kd)));
        let ki = (kd + 1 + rng.below(nk - 1) as usize) % nkeys;
        ops.push(Op::Insert(ki, 40));
        ops.push(Op::Flush(Wm::Zero));
        ops.push(Op::Leveled(1, *rng.pick(&[64u64, 4096, 1 << 26]), Wm::Zero));
    }
    // weak-delete discipline: the first two keys are "weak keys" (insert / remove_weak alternate), tracked at run time
    for _ in 0..n {
        let r = rng.below(1000);
        let k = rng.below(nk) as usize;
        let op = match profile {
            Profile::Reloc => match r {
                0..=249 => Op::Insert(k, *rng.pick(&[6usize, 40, 40])),
                250..=279 => Op::Remove(k),
                280..=449 => Op::Flush(Wm::Zero),
                450..=509 => Op::Major(1, Wm::Zero),
                510..=629 => Op::Major(u64::MAX, *rng.pick(&[Wm::Zero, Wm::Zero, Wm::Top])),
                630..=749 => Op::DropRange(Bd::I(k), Bd::I(k)),
                750..=869 => {
                    // ingested blobs carry the local seqno 0: several blob files then hold blobs of one key whose stored
                    // seqnos do not order like their pointers (finding F9)
                    let mut ks = BTreeSet::new();
                    for _ in 0..(2 + rng.below(nk)) {
                        ks.insert(rng.below(nk) as usize);
                    }
                    Op::Ingest(ks.into_iter().map(|k| (k, rng.chance(1, 8))).collect())
                }
                870..=939 => Op::Leveled(1, *rng.pick(&[1u64, 64]), Wm::Zero),
                940..=964 => Op::SnapOpen,
                _ => Op::Reopen,
            },
            Profile::Lvl => match r {
                0..=379 => Op::Insert(k, *rng.pick(&[0usize, 0, 6, 40])),
                380..=419 => Op::Remove(k),
                420..=579 => Op::Flush(gen_wm(rng)),
                580..=899 => Op::Leveled(*rng.pick(&[1u8, 1, 2, 4]), *rng.pick(&[1u64, 2, 3, 4, 6, 8, 16, 64, 4096]), gen_wm(rng)),
                900..=949 => Op::Major(*rng.pick(&[1u64, 1, 150, 300]), gen_wm(rng)),
                950..=969 => Op::MoveDown(rng.below(6) as u8, 6),
                _ => Op::Reopen,
            },
            Profile::Fifo => match r {
                0..=599 => Op::Insert(k, *rng.pick(&[0usize, 6, 40])),
                600..=799 => Op::Flush(Wm::Zero),
                800..=949 => Op::Fifo(rng.below(4) as u8, rng.below(3) as u8),
                _ => Op::Reopen,
            },
            _ => {
                let (w_weak, w_snap, w_scan, w_ingest, w_drop, w_clear, w_reopen, w_move) = match profile {
                    Profile::Core => (0, 0, 20, 0, 0, 0, 40, 40),
                    Profile::Snap => (0, 120, 40, 10, 10, 5, 20, 20),
                    Profile::Scan => (20, 40, 250, 10, 10, 0, 20, 20),
                    Profile::Weak => (250, 30, 20, 0, 0, 0, 20, 20),
                    Profile::Ingest => (0, 60, 30, 100, 0, 0, 30, 10),
                    Profile::Drop => (0, 60, 30, 10, 100, 30, 30, 10),
                    Profile::Filter => (30, 50, 20, 0, 0, 0, 20, 10),
                    Profile::Reopen => (10, 0, 10, 20, 20, 10, 150, 20),
                    _ => (40, 50, 50, 30, 30, 10, 30, 20),
                };
                let mut acc = 0;
                let mut pick = |w: u64| { acc += w; r < acc };
                if pick(300) {
                    Op::Insert(k, *rng.pick(&[0usize, 0, 6, 40]))
                } else if pick(90) {
                    Op::Remove(k)
                } else if pick(w_weak) {
                    Op::RemoveWeak(k)
                } else if pick(40) {
                    let m = 1 + rng.below(4) as usize;
                    let mut ks = BTreeSet::new();
                    for _ in 0..m {
                        ks.insert(rng.below(nk) as usize);
                    }
                    Op::Batch(ks.into_iter().map(|k| (k, u8::from(rng.chance(1, 4)))).collect())
                } else if pick(20) {
                    Op::Rotate
                } else if pick(120) {
                    Op::Flush(gen_wm(rng))
                } else if pick(120) {
                    Op::Leveled(*rng.pick(&[1u8, 2, 4]), *rng.pick(&[1u64, 64, 4096]), gen_wm(rng))
                } else if pick(35) {
                    Op::Major(*rng.pick(&[1u64, 64, u64::MAX]), gen_wm(rng))
                } else if pick(w_move) {
                    if rng.chance(1, 2) { Op::MoveDown(rng.below(6) as u8, 6) } else { let a = rng.below(6) as u8; Op::PullDown(a, a + 1 + rng.below(u64::from(6 - a)) as u8, gen_wm(rng)) }
                } else if pick(w_snap) {
                    if rng.chance(3, 5) { Op::SnapOpen } else { Op::SnapRelease(rng.below(3) as usize) }
                } else if pick(w_scan) {
                    let len = 1 + rng.below(8) as usize;
                    let word: String = (0..len).map(|_| if rng.chance(1, 2) { 'F' } else { 'B' }).collect();
                    Op::Scan(gen_bd(rng, nkeys), gen_bd(rng, nkeys), word, rng.below(3) as usize)
                } else if pick(w_ingest) {
                    let mut ks = BTreeSet::new();
                    for _ in 0..(1 + rng.below(5)) {
                        ks.insert(rng.below(nk) as usize);
                    }
                    if rng.chance(1, 5) { Op::AbandonIngest(ks.into_iter().collect()) } else { Op::Ingest(ks.into_iter().map(|k| (k, rng.chance(1, 4))).collect()) }
                } else if pick(w_drop) {
                    Op::DropRange(gen_bd(rng, nkeys), gen_bd(rng, nkeys))
                } else if pick(12) {
                    Op::Lag(1 + rng.below(3) as u8)
                } else if pick(w_clear) {
                    Op::Clear
                } else if pick(w_reopen) {
                    Op::Reopen
                } else {
                    Op::Insert(k, 0)
                }
            }
        };
        ops.push(op);
    }
    Case { cfg, ops }
}

// ------------------------------------------------------------------------------------------------ oracle

#[derive(Clone, Debug)]
enum Ev {
    Put(SeqNo, K, Vec<u8>),
    Del(SeqNo, K),
    Clear(SeqNo),
    Forget(SeqNo, K),
}
#[derive(Default)]
struct Oracle {
    evs: Vec<Ev>,
}
impl Oracle {
    /// Some(Some(v)) value, Some(None) absent, None = unspecified (inside a dropped range)
    fn get(&self, s: SeqNo, k: &K) -> Option<Option<Vec<u8>>> {
        let mut cur: Option<Option<Vec<u8>>> = Some(None);
        for e in &self.evs {
            match e {
                Ev::Put(q, kk, v) if *q < s && kk == k => cur = Some(Some(v.clone())),
                Ev::Del(q, kk) if *q < s && kk == k => cur = Some(None),
                Ev::Clear(q) if *q < s => cur = Some(None),
                Ev::Forget(q, kk) if *q < s && kk == k => cur = None,
                _ => {}
            }
        }
        cur
    }
}

// ------------------------------------------------------------------------------------------------ compaction filter

type FLog = Arc<Mutex<Vec<(K, Vec<u8>, u64)>>>; // key, shown value, verdict code
struct Fac {
    log: FLog,
    seed: u64,
    once: Arc<Vec<K>>,
}
struct Fil {
    log: FLog,
    seed: u64,
    once: Arc<Vec<K>>,
}
impl std::panic::RefUnwindSafe for Fac {}
impl Factory for Fac {
    fn name(&self) -> &str {
        "lsmverif"
    }
    fn make_filter(&self, _ctx: &lsm_tree::compaction::filter::Context) -> Box<dyn CompactionFilter> {
        Box::new(Fil { log: self.log.clone(), seed: self.seed, once: self.once.clone() })
    }
}
/// verdict code as the model computes it; codes 6 (RemoveWeak) and 7 (Destroy) are only used on write-once keys
pub fn tree_verdict_code(seed: u64, once: bool, key: &[u8], val: &[u8]) -> u64 {
    let c = verdict_code(seed, key, val);
    if !once && c >= 6 { c - 6 } else { c }
}
impl CompactionFilter for Fil {
    fn filter_item(&mut self, item: ItemAccessor<'_>, _ctx: &lsm_tree::compaction::filter::Context) -> lsm_tree::Result<Verdict> {
        let k = item.key().to_vec();
        let v = item.value()?.to_vec();
        let code = tree_verdict_code(self.seed, self.once.contains(&k), &k, &v);
        let verdict = match code {
            3 => {
                let mut r = v.clone();
                r.extend(std::iter::repeat(0x52).take(12));
                Verdict::ReplaceValue(r.into())
            }
            4 => {
                let mut r = v.clone();
                r.push(0x52);
                Verdict::ReplaceValue(r.into())
            }
            5 => Verdict::Remove,
            6 => Verdict::RemoveWeak,
            7 => Verdict::Destroy,
            _ => Verdict::Keep,
        };
        self.log.lock().unwrap().push((k, v, code));
        Ok(verdict)
    }
}

// ------------------------------------------------------------------------------------------------ execution

pub struct Outcome {
    pub disagreement: Option<String>,
    pub oracle_failures: Vec<String>,
    pub steps: usize,
    pub counters: BTreeMap<String, u64>,
    pub nontrivial: bool,
}

struct Ctx {
    cfg: Cfg,
    dir: tempfile::TempDir,
    tree: AnyTree,
    seqno: SequenceNumberCounter,
    vis: SequenceNumberCounter,
    keys: Vec<K>,
    oracle: Oracle,
    snaps: Vec<SeqNo>,
    weak_state: BTreeMap<K, bool>,
    once_keys: Vec<K>,
    once_written: BTreeSet<K>,
    flog: FLog,
    cache: Arc<lsm_tree::Cache>,
    fds: Option<Arc<lsm_tree::DescriptorTable>>,
    ingest_nonce: u64,
    weak_used: bool,
    /// totals of every blob file ever seen in a published version: id -> (items, uncompressed bytes, on-disk bytes)
    blob_totals: std::cell::RefCell<BTreeMap<u64, (usize, u64, u64)>>,
    /// files of ingestions dropped without finish(): allowed on disk until the next recovery, which has to remove them
    leftovers: std::cell::RefCell<BTreeSet<String>>,
}

fn open_tree(c: &Ctx0) -> AnyTree {
    let cfg = &c.cfg;
    let mut conf = Config::new(c.path, c.seqno.clone(), c.vis.clone())
        .data_block_size_policy(BlockSizePolicy::all(cfg.block_size))
        .data_block_restart_interval_policy(RestartIntervalPolicy::all(cfg.restart))
        .data_block_hash_ratio_policy(HashRatioPolicy::all(cfg.hash_ratio as f32 / 100.0))
        .index_block_partitioning_policy(PinningPolicy::all(cfg.part_index))
        .filter_block_partitioning_policy(PinningPolicy::all(cfg.part_filter))
        .index_block_pinning_policy(PinningPolicy::all(cfg.pin))
        .filter_block_pinning_policy(PinningPolicy::all(cfg.pin))
        .filter_policy(match cfg.bloom {
            0 => FilterPolicy::disabled(),
            1 => FilterPolicy::all(FilterPolicyEntry::Bloom(lsm_tree::config::BloomConstructionPolicy::BitsPerKey(10.0))),
            _ => FilterPolicy::all(FilterPolicyEntry::Bloom(lsm_tree::config::BloomConstructionPolicy::FalsePositiveRate(0.01))),
        })
        .use_cache(c.cache.clone())
        .use_descriptor_table(c.fds.clone())
        .expect_point_read_hits(cfg.hits);
    let lz4 = lsm_tree::CompressionType::Lz4;
    if cfg.compress >= 1 {
        conf = conf.data_block_compression_policy(lsm_tree::config::CompressionPolicy::all(lz4));
    }
    if cfg.compress >= 2 {
        conf = conf.index_block_compression_policy(lsm_tree::config::CompressionPolicy::all(lz4));
    }
    if let Some((th, fsz)) = cfg.blob {
        conf = conf.with_kv_separation(Some(
            lsm_tree::KvSeparationOptions::default()
                .separation_threshold(th)
                .file_target_size(fsz)
                .staleness_threshold(0.3)
                .age_cutoff(1.0)
                .compression(if cfg.compress >= 1 { lz4 } else { lsm_tree::CompressionType::None }),
        ));
    }
    if let Some(seed) = cfg.filter_seed {
        conf = conf.with_compaction_filter_factory(Some(Arc::new(Fac { log: c.flog.clone(), seed, once: c.once.clone() })));
    }
    conf.open().unwrap()
}
struct Ctx0<'a> {
    cfg: &'a Cfg,
    path: &'a std::path::Path,
    seqno: &'a SequenceNumberCounter,
    vis: &'a SequenceNumberCounter,
    cache: &'a Arc<lsm_tree::Cache>,
    fds: &'a Option<Arc<lsm_tree::DescriptorTable>>,
    flog: &'a FLog,
    once: Arc<Vec<K>>,
}

pub fn index_tree(t: &AnyTree) -> &Tree {
    match t {
        AnyTree::Standard(t) => t,
        AnyTree::Blob(b) => &b.index,
    }
}

fn table_entries(t: &lsm_tree::Table) -> Vec<Ent> {
    t.iter().map(|x| Ent::of_internal(&x.unwrap())).collect()
}

/// canonical state text — must equal `Driver.Tree.showState` of the model
fn canon_state(c: &Ctx) -> String {
    canon_state_raw(&c.tree, c.dir.path(), c.seqno.get(), c.vis.get())
}

/// canonical state text of a tree (shared with the controlled-schedule instrument)
pub fn canon_state_raw(anytree: &AnyTree, dir: &std::path::Path, ctr: u64, vis: u64) -> String {
    let tree = index_tree(anytree);
    let hist = va::dump_history(tree);
    let hs = hist
        .iter()
        .map(|h| {
            format!(
                "{}:{}:{}:{}:{}",
                h.seqno,
                h.version_id,
                h.active_memtable_id,
                h.sealed_memtable_ids.iter().map(|x| x.to_string()).collect::<Vec<_>>().join("."),
                h.table_ids.iter().map(|lvl| lvl.iter().map(|r| r.iter().map(|x| x.to_string()).collect::<Vec<_>>().join(".")).collect::<Vec<_>>().join("|")).collect::<Vec<_>>().join("/")
            )
        })
        .collect::<Vec<_>>()
        .join(";");
    let sv = va::latest_super_version(tree);
    let mut mems = vec![];
    for m in va::sealed_memtables(&sv) {
        mems.push(format!("{}{{{}}}", m.id(), show_ents(&m.iter().map(|v| Ent::of_internal(&v)).collect::<Vec<_>>())));
    }
    mems.push(format!("{}{{{}}}", sv.active_memtable.id(), show_ents(&sv.active_memtable.iter().map(|v| Ent::of_internal(&v)).collect::<Vec<_>>())));
    let v = va::version_of(&sv);
    let blobs_folder = dir.join("blobs");
    let tabs = v
        .iter_tables()
        .map(|t| {
            // pointers are shown with the bytes they resolve to (the model's indirections carry their value)
            let ents: Vec<Ent> = table_entries(t)
                .into_iter()
                .map(|mut e| {
                    if e.vt == 4 {
                        match va::resolve_indirection(&v, &blobs_folder, &e.key, &e.val) {
                            Ok(Some(val)) => {
                                e.val = val;
                            }
                            _ => {} // dangling / unreadable: stays `I`, which the model never predicts
                        }
                    }
                    e
                })
                .collect();
            format!("{}g{}[{}..{}]{{{}}}", t.id(), t.global_seqno(), hex(t.metadata.key_range.min()), hex(t.metadata.key_range.max()), show_ents(&ents))
        })
        .collect::<Vec<_>>()
        .join("+");
    format!("ctr={} vis={} hist={} mems={} tables={}", ctr, vis, hs, mems.join("+"), tabs)
}

pub fn digest_of(s: &str) -> String {
    fnv(s.as_bytes()).to_string()
}

type Levels = Vec<Vec<Vec<u64>>>;
fn levels_of(c: &Ctx) -> (u64, Levels) {
    let h = va::dump_history(index_tree(&c.tree));
    let l = h.last().unwrap();
    (l.version_id, l.table_ids.clone())
}
fn level_of(l: &Levels, id: u64) -> Option<usize> {
    l.iter().position(|lvl| lvl.iter().any(|r| r.contains(&id)))
}
fn all_ids(l: &Levels) -> Vec<u64> {
    l.iter().flatten().flatten().copied().collect()
}

fn bound_of(b: &Bd, keys: &[K]) -> (Bound<K>, String) {
    match b {
        Bd::U => (Bound::Unbounded, "U".into()),
        Bd::I(i) => (Bound::Included(keys[*i % keys.len()].clone()), format!("I{}", hex(&keys[*i % keys.len()]))),
        Bd::E(i) => (Bound::Excluded(keys[*i % keys.len()].clone()), format!("E{}", hex(&keys[*i % keys.len()]))),
    }
}
fn inside(lo: &Bound<K>, hi: &Bound<K>, k: &K) -> bool {
    (match lo {
        Bound::Included(x) => k >= x,
        Bound::Excluded(x) => k > x,
        Bound::Unbounded => true,
    }) && (match hi {
        Bound::Included(x) => k <= x,
        Bound::Excluded(x) => k < x,
        Bound::Unbounded => true,
    })
}

fn kv_of(g: lsm_tree::IterGuardImpl) -> (K, Vec<u8>) {
    let (k, v) = g.into_inner().unwrap();
    (k.to_vec(), v.to_vec())
}

/// cut description of freshly created tables: `id:count,...` in run order
fn cuts_of(c: &Ctx, ids: &[u64]) -> String {
    let v = index_tree(&c.tree).current_version();
    ids.iter().map(|id| { let t = v.iter_tables().find(|t| t.id() == *id).unwrap(); format!("{}:{}", id, t.metadata.item_count) }).collect::<Vec<_>>().join(",")
}

pub struct Runner<'a> {
    pub drv: Option<&'a mut Drv>,
    pub check_reads_with_model: bool,
    /// C11: a block cache and descriptor table shared with other trees that are alive at the same time
    pub shared: Option<(Arc<lsm_tree::Cache>, Option<Arc<lsm_tree::DescriptorTable>>)>,
}

impl Runner<'_> {
    fn ask(&mut self, req: &str) -> Option<String> {
        self.drv.as_mut().map(|d| d.ask(req))
    }

    /// compare the model's predicted state with the real one after a state-changing request
    fn validate(&mut self, c: &Ctx, req: &str, what: &str) -> Result<(), String> {
        let Some(reply) = self.ask(req) else { return Ok(()) };
        let real = canon_state(c);
        let want = format!("digest={}", digest_of(&real));
        if reply.starts_with("reject") {
            return Err(format!("model rejects `{req}` after `{what}` (precondition or observed decision not admissible); real state: {real}"));
        }
        let mut it = reply.split(' ');
        let d = it.next().unwrap_or("");
        let inv = it.next().unwrap_or("");
        if d != want {
            let model = self.ask("dump").unwrap_or_default();
            return Err(format!("state after `{what}` differs\n   real : {real}\n   model: {model}"));
        }
        if inv != "inv=ok" {
            return Err(format!("invariant {inv} violated on the state after `{what}`: {real}"));
        }
        Ok(())
    }
}

fn wm_value(w: Wm, c: &Ctx) -> SeqNo {
    let top = c.snaps.iter().copied().min().unwrap_or(c.vis.get()).min(c.vis.get());
    match w {
        Wm::Zero => 0,
        Wm::Top => top,
        Wm::Half => top / 2,
    }
}

thread_local! { static SALT: std::cell::Cell<u8> = const { std::cell::Cell::new(0) }; }

fn val_for(k: &K, s: SeqNo, pad: usize) -> Vec<u8> {
    let salt = SALT.with(std::cell::Cell::get);
    if salt != 0 && pad != 9999 {
        let mut v = val_for_plain(k, s, pad);
        v.push(salt);
        return v;
    }
    val_for_plain(k, s, pad)
}

fn val_for_plain(k: &K, s: SeqNo, pad: usize) -> Vec<u8> {
    if pad == 9999 {
        return vec![]; // the empty value (directed cases only: it cannot identify its version)
    }
    let mut v = format!("{}@{}", hex(k), s).into_bytes();
    v.extend(std::iter::repeat(b'.').take(pad));
    v
}

/// property oracles on the real tree at snapshot `s`
fn check_at(c: &Ctx, s: SeqNo, held: bool, tag: &str, fails: &mut Vec<String>) {
    let pid_point = if held { "C02" } else { "C01" };
    let pid_scan = if held { "C02" } else { "C03" };
    let fwd: Vec<(K, Vec<u8>)> = c.tree.range::<K, _>(.., s, None).map(kv_of).collect();
    let mut rev: Vec<(K, Vec<u8>)> = c.tree.range::<K, _>(.., s, None).rev().map(kv_of).collect();
    rev.reverse();
    if fwd != rev {
        fails.push(format!("C03 after `{tag}` S={s}: forward and backward full scans differ"));
    }
    for w in fwd.windows(2) {
        if w[0].0 >= w[1].0 {
            fails.push(format!("C03 after `{tag}` S={s}: scan not strictly ascending at {}", hex(&w[1].0)));
        }
    }
    // the other scan entry points: `iter` and `prefix` (own code paths in Tree / BlobTree), both directions
    {
        let it: Vec<(K, Vec<u8>)> = c.tree.iter(s, None).map(kv_of).collect();
        if it != fwd {
            fails.push(format!("{pid_scan} after `{tag}` S={s}: iter() differs from range(..)"));
        }
        let mut prefixes: BTreeSet<K> = BTreeSet::new();
        prefixes.insert(vec![]);
        for k in c.keys.iter().take(6) {
            prefixes.insert(k[..1.min(k.len())].to_vec());
            prefixes.insert(k[..2.min(k.len())].to_vec());
        }
        for p in prefixes.iter().take(8) {
            let want: Vec<(K, Vec<u8>)> = fwd.iter().filter(|(k, _)| k.starts_with(p)).cloned().collect();
            let got: Vec<(K, Vec<u8>)> = c.tree.prefix(p, s, None).map(kv_of).collect();
            let mut got_rev: Vec<(K, Vec<u8>)> = c.tree.prefix(p, s, None).rev().map(kv_of).collect();
            got_rev.reverse();
            if got != want || got_rev != want {
                fails.push(format!("{pid_scan} after `{tag}` S={s}: prefix({}) yields {} / {} (reverse) items, the full scan has {} with that prefix{}", hex(p), got.len(), got_rev.len(), want.len(), if got.len() == want.len() { " (values differ)" } else { "" }));
            }
        }
    }
    let scm: BTreeMap<K, Vec<u8>> = fwd.into_iter().collect();
    let mut live = 0usize;
    for k in &c.keys {
        let got = c.tree.get(k, s).unwrap().map(|v| v.to_vec());
        let in_scan = scm.get(k).cloned();
        // reads of keys under the single-delete discipline are C13's subject
        let (pid_point, pid_scan) = if c.weak_state.contains_key(k) && c.weak_used { ("C13", "C13") } else { (pid_point, pid_scan) };
        match c.oracle.get(s, k) {
            Some(want) => {
                if want.is_some() {
                    live += 1;
                }
                if got != want {
                    fails.push(format!("{pid_point} after `{tag}` S={s}: get({}) = {:?}, oracle {:?}", hex(k), got.as_ref().map(|v| String::from_utf8_lossy(v).to_string()), want.as_ref().map(|v| String::from_utf8_lossy(v).to_string())));
                }
                if in_scan != want {
                    fails.push(format!("{pid_scan} after `{tag}` S={s}: scan yields {:?} for {}, oracle {:?}", in_scan.as_ref().map(|v| String::from_utf8_lossy(v).to_string()), hex(k), want.as_ref().map(|v| String::from_utf8_lossy(v).to_string())));
                }
                let ck = c.tree.contains_key(k, s).unwrap();
                if ck != want.is_some() {
                    fails.push(format!("{pid_point} after `{tag}` S={s}: contains_key({}) = {ck}", hex(k)));
                }
                let so = c.tree.size_of(k, s).unwrap();
                if so != want.as_ref().map(|v| v.len() as u32) {
                    fails.push(format!("{pid_point} after `{tag}` S={s}: size_of({}) = {so:?}", hex(k)));
                }
            }
            None => {
                if got != in_scan {
                    fails.push(format!("C03 after `{tag}` S={s}: point read and scan disagree on {}", hex(k)));
                }
                if got.is_some() {
                    live += 1;
                }
            }
        }
    }
    for k in scm.keys() {
        if !c.keys.contains(k) {
            fails.push(format!("C03 after `{tag}` S={s}: scan invented key {}", hex(k)));
        }
    }
    // derived calls
    let len = c.tree.len(s, None).unwrap();
    if len != scm.len() || len != live {
        fails.push(format!("C03 after `{tag}` S={s}: len() = {len}, scan has {}, oracle {live}", scm.len()));
    }
    if c.tree.is_empty(s, None).unwrap() != scm.is_empty() {
        fails.push(format!("C03 after `{tag}` S={s}: is_empty() disagrees with the scan"));
    }
    let first = c.tree.first_key_value(s, None).map(kv_of);
    let last = c.tree.last_key_value(s, None).map(kv_of);
    if first.as_ref().map(|x| &x.0) != scm.keys().next() || last.as_ref().map(|x| &x.0) != scm.keys().next_back() {
        fails.push(format!("C03 after `{tag}` S={s}: first/last_key_value disagree with the scan"));
    }
}

/// structural audit of the current version (C07) and high-water marks (C18) on the real tree
fn audit(c: &Ctx, tag: &str, fails: &mut Vec<String>) {
    let tree = index_tree(&c.tree);
    let sv = va::latest_super_version(tree);
    let v = va::version_of(&sv);
    let mut order: Vec<(usize, usize, u64, Vec<Ent>)> = vec![];
    let mut max_seq: Option<SeqNo> = None;
    for (li, lvl) in v.iter_levels().enumerate() {
        for (ri, run) in lvl.iter().enumerate() {
            let mut prev_max: Option<K> = None;
            for t in run.iter() {
                let ents = table_entries(t);
                if ents.is_empty() {
                    fails.push(format!("C07 after `{tag}`: empty table {}", t.id()));
                    continue;
                }
                for w in ents.windows(2) {
                    if ik_cmp(&w[0], &w[1]) != std::cmp::Ordering::Less {
                        fails.push(format!("C07 after `{tag}`: table {} not strictly sorted", t.id()));
                    }
                }
                let kr = &t.metadata.key_range;
                if kr.min().to_vec() != ents[0].key || kr.max().to_vec() != ents.last().unwrap().key {
                    fails.push(format!("C07 after `{tag}`: table {} recorded key range differs from its contents", t.id()));
                }
                if t.metadata.item_count as usize != ents.len() {
                    fails.push(format!("C07 after `{tag}`: table {} item_count {} vs {}", t.id(), t.metadata.item_count, ents.len()));
                }
                let tomb = ents.iter().filter(|e| e.is_tomb()).count();
                if t.metadata.tombstone_count as usize != tomb {
                    fails.push(format!("C07 after `{tag}`: table {} tombstone_count {} vs {tomb}", t.id(), t.metadata.tombstone_count));
                }
                let weak = ents.iter().filter(|e| e.vt == 2).count();
                if t.metadata.weak_tombstone_count as usize != weak {
                    fails.push(format!("C07 after `{tag}`: table {} weak_tombstone_count {} vs {weak}", t.id(), t.metadata.weak_tombstone_count));
                }
                let mx = ents.iter().map(|e| e.seqno).max().unwrap();
                if t.get_highest_seqno() != mx {
                    fails.push(format!("C18 after `{tag}`: table {} highest seqno {} vs stored {mx}", t.id(), t.get_highest_seqno()));
                }
                max_seq = max_seq.max(Some(mx));
                if let Some(pm) = &prev_max {
                    if *pm >= ents[0].key {
                        fails.push(format!("C07 after `{tag}`: L{li} run {ri}: table {} overlaps / is not after its predecessor", t.id()));
                    }
                }
                prev_max = Some(ents.last().unwrap().key.clone());
                if !std::path::Path::new(&*t.path).exists() {
                    fails.push(format!("C07 after `{tag}`: file of table {} does not exist", t.id()));
                }
                order.push((li, ri, t.id(), ents));
            }
        }
    }
    // ORD across tables of different runs
    for i in 0..order.len() {
        for j in (i + 1)..order.len() {
            if order[i].0 == order[j].0 && order[i].1 == order[j].1 {
                continue;
            }
            let mut newest_later: BTreeMap<&K, SeqNo> = BTreeMap::new();
            for e in &order[j].3 {
                let x = newest_later.entry(&e.key).or_insert(e.seqno);
                if e.seqno > *x {
                    *x = e.seqno;
                }
            }
            for e in &order[i].3 {
                if let Some(m) = newest_later.get(&e.key) {
                    if e.seqno <= *m {
                        fails.push(format!("C07 after `{tag}`: key {} seq {} in table {} (L{} r{}) is not newer than seq {m} in table {} (L{} r{}) consulted later", hex(&e.key), e.seqno, order[i].2, order[i].0, order[i].1, order[j].2, order[j].0, order[j].1));
                    }
                }
            }
        }
    }
    // C07: the tree-level counters are functions of the current version / super version
    {
        let n_tables: usize = order.len();
        if c.tree.table_count() != n_tables {
            fails.push(format!("C07 after `{tag}`: table_count() = {} vs {n_tables} tables in the version", c.tree.table_count()));
        }
        for (li, lvl) in v.iter_levels().enumerate() {
            let n: usize = lvl.iter().map(|r| r.len()).sum();
            if c.tree.level_table_count(li) != Some(n) {
                fails.push(format!("C07 after `{tag}`: level_table_count({li}) = {:?} vs {n}", c.tree.level_table_count(li)));
            }
        }
        let l0_runs = v.iter_levels().next().map_or(0, |l| l.len());
        if c.tree.l0_run_count() != l0_runs {
            fails.push(format!("C07 after `{tag}`: l0_run_count() = {} vs {l0_runs}", c.tree.l0_run_count()));
        }
        let tombs: u64 = order.iter().map(|o| o.3.iter().filter(|e| e.is_tomb()).count() as u64).sum();
        if c.tree.tombstone_count() != tombs {
            fails.push(format!("C07 after `{tag}`: tombstone_count() = {} vs {tombs} tombstones stored in tables", c.tree.tombstone_count()));
        }
        let weak: u64 = order.iter().map(|o| o.3.iter().filter(|e| e.vt == 2).count() as u64).sum();
        if c.tree.weak_tombstone_count() != weak {
            fails.push(format!("C07 after `{tag}`: weak_tombstone_count() = {} vs {weak} weak tombstones stored in tables", c.tree.weak_tombstone_count()));
        }
        let sealed = va::sealed_memtables(&sv).len();
        if c.tree.sealed_memtable_count() != sealed {
            fails.push(format!("C07 after `{tag}`: sealed_memtable_count() = {} vs {sealed}", c.tree.sealed_memtable_count()));
        }
    }
    // C20: files on disk vs files named by the history (quiescent moment: no iterator or compaction is alive)
    {
        let hist = va::dump_history(tree);
        let mut named_tables: BTreeSet<u64> = BTreeSet::new();
        let mut named_blobs: BTreeSet<u64> = BTreeSet::new();
        let mut named_versions: BTreeSet<u64> = BTreeSet::new();
        for h in &hist {
            named_tables.extend(h.table_ids.iter().flatten().flatten().copied());
            named_blobs.extend(h.blob_file_ids.iter().copied());
            named_versions.insert(h.version_id);
        }
        let list = |sub: &str| -> BTreeSet<String> {
            std::fs::read_dir(c.dir.path().join(sub)).map(|rd| rd.flatten().filter(|e| e.path().is_file()).map(|e| e.file_name().to_string_lossy().to_string()).collect()).unwrap_or_default()
        };
        let on_disk_tables: BTreeSet<u64> = list("tables").iter().filter_map(|n| n.parse().ok()).collect();
        let on_disk_blobs: BTreeSet<u64> = list("blobs").iter().filter_map(|n| n.parse().ok()).collect();
        let on_disk_versions: BTreeSet<u64> = list("").iter().filter_map(|n| n.strip_prefix('v').and_then(|x| x.parse().ok())).collect();
        for (what, named, disk) in [("table", &named_tables, &on_disk_tables), ("blob file", &named_blobs, &on_disk_blobs), ("version file", &named_versions, &on_disk_versions)] {
            for id in named.difference(disk) {
                fails.push(format!("C20 after `{tag}`: {what} {id} is named by a live history entry but is not on disk"));
            }
            for id in disk.difference(named) {
                let sub = if what == "table" { "tables" } else if what == "blob file" { "blobs" } else { "" };
                if c.leftovers.borrow().contains(&format!("{sub}/{id}")) {
                    continue; // file of an ingestion dropped without finish(): the next recovery removes it (checked there)
                }
                fails.push(format!("C20 after `{tag}`: {what} {id} is on disk but no live history entry names it (not reclaimed)"));
            }
        }
    }
    // C18
    if c.tree.get_highest_persisted_seqno() != max_seq {
        fails.push(format!("C18 after `{tag}`: get_highest_persisted_seqno {:?} vs stored {:?}", c.tree.get_highest_persisted_seqno(), max_seq));
    }
    let mut mem_max: Option<SeqNo> = None;
    for m in va::sealed_memtables(&sv).iter().chain(std::iter::once(&sv.active_memtable)) {
        for e in m.iter() {
            mem_max = mem_max.max(Some(e.key.seqno));
        }
    }
    if c.tree.get_highest_memtable_seqno() != mem_max {
        fails.push(format!("C18 after `{tag}`: get_highest_memtable_seqno {:?} vs stored {:?}", c.tree.get_highest_memtable_seqno(), mem_max));
    }
    if c.tree.get_highest_seqno() != mem_max.max(max_seq) {
        fails.push(format!("C18 after `{tag}`: get_highest_seqno {:?} vs stored {:?}", c.tree.get_highest_seqno(), mem_max.max(max_seq)));
    }
}

/// key-value separation audits on the real tree: REF (C08: every stored pointer resolves to the bytes written for that key
/// and version) and FRAG (C09: recorded garbage per blob file = blobs of the file no table points to)
fn blob_audit(c: &Ctx, tag: &str, fails: &mut Vec<String>, counters: &mut BTreeMap<String, u64>) {
    if c.cfg.blob.is_none() {
        return;
    }
    let tree = index_tree(&c.tree);
    let blobs_folder = c.dir.path().join("blobs");
    let mut svs = vec![va::latest_super_version(tree)];
    for s in &c.snaps {
        svs.push(va::super_version_for(tree, *s));
    }
    for (i, sv) in svs.iter().enumerate() {
        let v = va::version_of(sv);
        let mut referenced: BTreeSet<(u64, u64)> = BTreeSet::new();
        for t in v.iter_tables() {
            for e in table_entries(t) {
                if e.vt != 4 {
                    continue;
                }
                *counters.entry("blob.pointers_checked".into()).or_default() += 1;
                let Ok((fid, off, _od, size)) = va::decode_indirection(&e.val) else {
                    fails.push(format!("C08 after `{tag}`: undecodable pointer for {}@{}", hex(&e.key), e.seqno));
                    continue;
                };
                referenced.insert((fid, off));
                match va::resolve_indirection(&v, &blobs_folder, &e.key, &e.val) {
                    Ok(Some(val)) => {
                        let want_prefix = format!("{}@", hex(&e.key)).into_bytes();
                        if (!val.is_empty() && !val.starts_with(&want_prefix)) || val.len() as u32 != size {
                            fails.push(format!("C08 after `{tag}`: pointer of {}@{} in table {} resolves to foreign bytes {:?}", hex(&e.key), e.seqno, t.id(), String::from_utf8_lossy(&val)));
                        }
                    }
                    Ok(None) => fails.push(format!("C08 after `{tag}`: dangling pointer of {}@{} in table {} (blob file {fid} not in the version; history entry {i})", hex(&e.key), e.seqno, t.id())),
                    Err(err) => fails.push(format!("C08 after `{tag}`: pointer of {}@{} in table {} does not resolve: {err:?}", hex(&e.key), e.seqno, t.id())),
                }
            }
        }
        if i > 0 {
            continue; // FRAG is audited on the published (latest) version
        }
        let stats: BTreeMap<u64, (usize, u64, u64)> = va::gc_stats_of(&v).into_iter().map(|(id, l, b, d)| (id, (l, b, d))).collect();
        let files = va::blob_files_of(&v);
        for (id, path, rec_n, rec_u, rec_d) in &files {
            if !path.exists() {
                fails.push(format!("C09 after `{tag}`: blob file {id} named by the version does not exist"));
                continue;
            }
            let Ok(blobs) = va::scan_blob_file(path, *id) else {
                fails.push(format!("C09 after `{tag}`: blob file {id} cannot be scanned"));
                continue;
            };
            c.blob_totals.borrow_mut().insert(*id, (blobs.len(), blobs.iter().map(|b| u64::from(b.3)).sum(), blobs.iter().map(|b| u64::from(b.4)).sum()));
            // the totals RECORDED in the blob file's metadata (what `is_dead` / `is_stale` compare the garbage with) must be the
            // totals of the blobs actually in the file (assumption of c09_dead_iff_unreferenced / c09_stale_bytes_exact)
            let tot: (u64, u64, u64) = (blobs.len() as u64, blobs.iter().map(|b| u64::from(b.3)).sum(), blobs.iter().map(|b| u64::from(b.4)).sum());
            *counters.entry("blob.file_totals_audited".into()).or_default() += 1;
            if (*rec_n, *rec_u, *rec_d) != tot {
                fails.push(format!("C09 after `{tag}`: blob file {id}: metadata records (items, bytes, on_disk) = {:?}, the file holds {tot:?}", (rec_n, rec_u, rec_d)));
            }
            let (mut gl, mut gb, mut gd) = (0usize, 0u64, 0u64);
            for (_k, _s, off, ulen, dlen) in &blobs {
                if !referenced.contains(&(*id, *off)) {
                    gl += 1;
                    gb += u64::from(*ulen);
                    gd += u64::from(*dlen);
                }
            }
            let rec = stats.get(id).copied().unwrap_or((0, 0, 0));
            *counters.entry("blob.files_audited".into()).or_default() += 1;
            if gl > 0 {
                *counters.entry("blob.files_with_garbage".into()).or_default() += 1;
            }
            if rec != (gl, gb, gd) {
                fails.push(format!("C09 after `{tag}`: blob file {id}: recorded garbage (len, bytes, on_disk) = {rec:?}, actual unreferenced blobs = {:?}", (gl, gb, gd)));
            }
        }
        // an entry kept for a blob file that has LEFT the version must account for the whole file (the file left because
        // every blob in it was unreferenced); anything else is garbage attributed to a file that does not exist
        let present: BTreeSet<u64> = files.iter().map(|f| f.0).collect();
        for (id, rec) in &stats {
            if present.contains(id) {
                continue;
            }
            match c.blob_totals.borrow().get(id) {
                Some(tot) if tot == rec => {}
                Some(tot) => fails.push(format!("C09 after `{tag}`: gc stats keep {rec:?} for blob file {id}, which is no longer part of the version and held {tot:?} in total")),
                None => fails.push(format!("C09 after `{tag}`: gc stats keep {rec:?} for blob file {id}, which never was part of a published version")),
            }
        }
        let sum: u64 = stats.values().map(|x| x.2).sum();
        if c.tree.stale_blob_bytes() != sum {
            fails.push(format!("C09 after `{tag}`: stale_blob_bytes() = {} but the recorded entries sum to {sum}", c.tree.stale_blob_bytes()));
        }
        if c.tree.blob_file_count() != files.len() {
            fails.push(format!("C09 after `{tag}`: blob_file_count() = {} vs {} files in the version", c.tree.blob_file_count(), files.len()));
        }
    }
}

pub fn run_case(case: &Case, runner: &mut Runner) -> Outcome {
    let r = std::panic::catch_unwind(std::panic::AssertUnwindSafe(|| run_case_inner(case, runner)));
    match r {
        Ok(o) => o,
        Err(e) => {
            let msg = e.downcast_ref::<String>().cloned().or_else(|| e.downcast_ref::<&str>().map(|s| s.to_string())).unwrap_or_default();
            Outcome { disagreement: None, oracle_failures: vec![format!("PANIC while executing the case (a sequential history on the real tree must never panic): {msg}")], steps: 0, counters: BTreeMap::new(), nontrivial: false }
        }
    }
}

fn run_case_inner(case: &Case, runner: &mut Runner) -> Outcome {
    let cfg = case.cfg.clone();
    SALT.with(|s| s.set(cfg.salt));
    let mut krng = Rng::new(cfg.key_seed);
    let keys = gen_keyset(&mut krng, cfg.nkeys);
    let dir = tempfile::tempdir_in(crate::scratch_root()).unwrap();
    let seqno = SequenceNumberCounter::default();
    let vis = SequenceNumberCounter::default();
    let (cache, fds) = match &runner.shared {
        Some((c, f)) => (c.clone(), f.clone()),
        None => (
            Arc::new(if cfg.cache_kb == 0 { lsm_tree::Cache::with_capacity_bytes(0) } else { lsm_tree::Cache::with_capacity_bytes(cfg.cache_kb * 1024) }),
            if cfg.fd_cap == 0 { None } else { Some(Arc::new(lsm_tree::DescriptorTable::new(cfg.fd_cap as usize))) },
        ),
    };
    let flog: FLog = Arc::new(Mutex::new(vec![]));
    let weak_alphabet = cfg.filter_seed.is_none()
        && case.ops.iter().any(|o| matches!(o, Op::RemoveWeak(_)))
        && !case.ops.iter().any(|o| matches!(o, Op::DropRange(..) | Op::Clear | Op::Ingest(..) | Op::AbandonIngest(..)));
    let weak_keys: Vec<K> = keys.iter().take(2).cloned().collect();
    let once_keys: Vec<K> = if cfg.filter_seed.is_some() { keys.iter().rev().take(2).cloned().collect() } else { vec![] };
    let once = Arc::new(once_keys.clone());
    let tree = open_tree(&Ctx0 { cfg: &cfg, path: dir.path(), seqno: &seqno, vis: &vis, cache: &cache, fds: &fds, flog: &flog, once: once.clone() });
    let mut c = Ctx {
        cfg: cfg.clone(),
        dir,
        tree,
        seqno,
        vis,
        keys,
        oracle: Oracle::default(),
        snaps: vec![],
        weak_state: weak_keys.iter().map(|k| (k.clone(), false)).collect(),
        once_keys,
        once_written: BTreeSet::new(),
        flog,
        cache,
        fds,
        ingest_nonce: 0,
        weak_used: false,
        blob_totals: std::cell::RefCell::new(BTreeMap::new()),
        leftovers: std::cell::RefCell::new(BTreeSet::new()),
    };
    let mut out = Outcome { disagreement: None, oracle_failures: vec![], steps: 0, counters: BTreeMap::new(), nontrivial: false };
    let filter_arg = cfg.filter_seed.map_or("none".to_string(), |s| s.to_string());
    let _ = filter_arg;
    let new_req = match cfg.blob { Some((th, _)) => format!("new levels=7 blob={th}"), None => "new levels=7".to_string() };
    if let Some(reply) = runner.ask(&new_req) {
        let want = format!("digest={}", digest_of(&canon_state(&c)));
        if !reply.starts_with(&want) {
            out.disagreement = Some(format!("initial state differs: real {} model {}", canon_state(&c), runner.ask("dump").unwrap_or_default()));
            return out;
        }
    }
    let bump = |out: &mut Outcome, k: &str| *out.counters.entry(k.to_string()).or_default() += 1;
    let nk = c.keys.len();

    for (step, op) in case.ops.iter().enumerate() {
        out.steps = step + 1;
        let tag = format!("#{step} {}", op.show());
        let mut model_res: Result<(), String> = Ok(());
        let mut skip_checks = false;
        match op {
            Op::Insert(ki, pad) => {
                let k = c.keys[*ki % nk].clone();
                if c.once_keys.contains(&k) {
                    if c.once_written.contains(&k) {
                        continue;
                    }
                    c.once_written.insert(k.clone());
                }
                if let Some(st) = c.weak_state.get_mut(&k) {
                    if *st {
                        continue; // discipline: never overwrite a weak key
                    }
                    *st = true;
                }
                let s = c.seqno.next();
                let v = val_for(&k, s, *pad);
                c.tree.insert(k.clone(), v.clone(), s);
                c.vis.fetch_max(s + 1);
                c.oracle.evs.push(Ev::Put(s, k.clone(), v.clone()));
                let e = Ent { key: k, seqno: s, vt: 0, val: v };
                model_res = runner.validate(&c, &format!("write es={}", e.show()), &tag);
                bump(&mut out, "op.insert");
            }
            Op::Remove(ki) => {
                let k = c.keys[*ki % nk].clone();
                if c.weak_state.contains_key(&k) || c.once_keys.contains(&k) {
                    continue;
                }
                let s = c.seqno.next();
                c.tree.remove(k.clone(), s);
                c.vis.fetch_max(s + 1);
                c.oracle.evs.push(Ev::Del(s, k.clone()));
                let e = Ent { key: k, seqno: s, vt: 1, val: vec![] };
                model_res = runner.validate(&c, &format!("write es={}", e.show()), &tag);
                bump(&mut out, "op.remove");
            }
            Op::RemoveWeak(ki) => {
                // only on weak keys, only when currently inserted (single-delete discipline)
                let k = c.keys[*ki % 2 % nk].clone();
                let Some(st) = c.weak_state.get_mut(&k) else { continue };
                if !*st {
                    continue;
                }
                *st = false;
                c.weak_used = true;
                let s = c.seqno.next();
                c.tree.remove_weak(k.clone(), s);
                c.vis.fetch_max(s + 1);
                c.oracle.evs.push(Ev::Del(s, k.clone()));
                let e = Ent { key: k, seqno: s, vt: 2, val: vec![] };
                model_res = runner.validate(&c, &format!("write es={}", e.show()), &tag);
                bump(&mut out, "op.remove_weak");
            }
            Op::Batch(items) => {
                let s = c.seqno.next();
                let mut es = vec![];
                for (ki, t) in items {
                    let k = c.keys[*ki % nk].clone();
                    if c.weak_state.contains_key(&k) || c.once_keys.contains(&k) {
                        continue;
                    }
                    if *t == 0 {
                        let v = val_for(&k, s, 0);
                        c.tree.insert(k.clone(), v.clone(), s);
                        c.oracle.evs.push(Ev::Put(s, k.clone(), v.clone()));
                        es.push(Ent { key: k, seqno: s, vt: 0, val: v });
                    } else {
                        c.tree.remove(k.clone(), s);
                        c.oracle.evs.push(Ev::Del(s, k.clone()));
                        es.push(Ent { key: k, seqno: s, vt: 1, val: vec![] });
                    }
                }
                c.vis.fetch_max(s + 1);
                model_res = runner.validate(&c, &format!("write es={}", show_ents(&es)), &tag);
                bump(&mut out, "op.batch");
            }
            Op::Rotate => {
                let next_mem = index_tree(&c.tree).0.memtable_id_counter.get();
                c.tree.rotate_memtable();
                model_res = runner.validate(&c, &format!("rotate mem={next_mem}"), &tag);
                bump(&mut out, "op.rotate");
            }
            Op::Flush(w) => {
                let wm = wm_value(*w, &c);
                let next_mem = index_tree(&c.tree).0.memtable_id_counter.get();
                let (_, before) = levels_of(&c);
                c.tree.flush_active_memtable(wm).unwrap();
                let (_, after) = levels_of(&c);
                let old: BTreeSet<u64> = all_ids(&before).into_iter().collect();
                let new_ids: Vec<u64> = after[0].iter().flatten().copied().filter(|i| !old.contains(i)).collect();
                model_res = runner.validate(&c, &format!("flush wm={wm} mem={next_mem} cuts={}", cuts_of(&c, &new_ids)), &tag);
                bump(&mut out, "op.flush");
                if !new_ids.is_empty() {
                    bump(&mut out, "flush.created_tables");
                }
                if new_ids.len() > 1 {
                    bump(&mut out, "flush.multi_table");
                }
            }
            Op::Leveled(..) | Op::Major(..) | Op::MoveDown(..) | Op::PullDown(..) | Op::Fifo(..) | Op::DropRange(..) => {
                model_res = exec_compaction(&mut c, op, runner, &tag, &mut out);
            }
            Op::Clear => {
                let next_mem = index_tree(&c.tree).0.memtable_id_counter.get();
                let cs = c.seqno.get();
                c.tree.clear().unwrap();
                c.oracle.evs.push(Ev::Clear(cs));
                for st in c.weak_state.values_mut() {
                    *st = false;
                }
                model_res = runner.validate(&c, &format!("clear mem={next_mem}"), &tag);
                bump(&mut out, "op.clear");
            }
            Op::Lag(n) => {
                for _ in 0..*n {
                    c.seqno.next();
                }
                model_res = runner.validate(&c, &format!("bumpctr n={n}"), &tag);
                bump(&mut out, "op.lag");
            }
            Op::AbandonIngest(kis) => {
                let ks: BTreeSet<K> = kis.iter().map(|ki| c.keys[*ki % nk].clone()).filter(|k| !c.weak_state.contains_key(k) && !c.once_keys.contains(k)).collect();
                if ks.is_empty() {
                    continue;
                }
                let next_mem = index_tree(&c.tree).0.memtable_id_counter.get();
                let ls = |sub: &str| -> BTreeSet<String> { std::fs::read_dir(c.dir.path().join(sub)).map(|rd| rd.flatten().map(|e| e.file_name().to_string_lossy().to_string()).collect()).unwrap_or_default() };
                let (t0, b0) = (ls("tables"), ls("blobs"));
                {
                    let mut ing = c.tree.ingestion().unwrap();
                    for k in &ks {
                        ing.write(k.clone(), format!("{}@abandoned", hex(k)).into_bytes()).unwrap();
                    }
                    // dropped here, never finished
                }
                for f in ls("tables").difference(&t0) {
                    c.leftovers.borrow_mut().insert(format!("tables/{f}"));
                }
                for f in ls("blobs").difference(&b0) {
                    c.leftovers.borrow_mut().insert(format!("blobs/{f}"));
                }
                // creating an ingestion seals and flushes the active memtable first (like a finished one with no items would)
                let _ = next_mem;
                // nothing may have changed logically
                if let Some(reply) = runner.ask("digest") {
                    let real = canon_state(&c);
                    if !reply.starts_with(&format!("digest={}", digest_of(&real))) {
                        model_res = Err(format!("state changed by an ingestion that was dropped without finish() (`{tag}`): {real}"));
                    }
                }
                bump(&mut out, "op.abandon_ingest");
            }
            Op::Ingest(items) => {
                let items: Vec<(K, bool)> = items.iter().map(|(ki, t)| (c.keys[*ki % nk].clone(), *t)).filter(|(k, _)| !c.weak_state.contains_key(k) && !c.once_keys.contains(k)).collect();
                let mut items: Vec<(K, bool)> = items.into_iter().collect::<BTreeMap<_, _>>().into_iter().collect();
                items.sort();
                if items.is_empty() {
                    continue;
                }
                c.ingest_nonce += 1;
                let next_mem = index_tree(&c.tree).0.memtable_id_counter.get();
                let (_, before) = levels_of(&c);
                let mut ing = c.tree.ingestion().unwrap();
                let mut ents = vec![];
                for (k, tomb) in &items {
                    if *tomb {
                        ing.write_tombstone(k.clone()).unwrap();
                        ents.push(Ent { key: k.clone(), seqno: 0, vt: 1, val: vec![] });
                    } else {
                        let v = format!("{}@ingest{}", hex(k), c.ingest_nonce).into_bytes();
                        ing.write(k.clone(), v.clone()).unwrap();
                        ents.push(Ent { key: k.clone(), seqno: 0, vt: 0, val: v });
                    }
                }
                ing.finish().unwrap();
                let g = c.vis.get() - 1;
                for e in &ents {
                    if e.vt == 1 {
                        c.oracle.evs.push(Ev::Del(g, e.key.clone()));
                    } else {
                        c.oracle.evs.push(Ev::Put(g, e.key.clone(), e.val.clone()));
                    }
                }
                // which new tables stem from the internal flush (global seqno 0) and which from the ingestion (global seqno g)
                let (_, after) = levels_of(&c);
                let old: BTreeSet<u64> = all_ids(&before).into_iter().collect();
                let v = index_tree(&c.tree).current_version();
                let new_ids: Vec<u64> = after[0].iter().flatten().copied().filter(|i| !old.contains(i)).collect();
                let (mut f_ids, mut i_ids) = (vec![], vec![]);
                for id in new_ids {
                    let t = v.iter_tables().find(|t| t.id() == id).unwrap();
                    if t.global_seqno() == 0 && g != 0 { f_ids.push(id) } else { i_ids.push(id) }
                }
                f_ids.sort_unstable();
                i_ids.sort_unstable();
                model_res = runner.validate(&c, &format!("ingest mem={next_mem} fcuts={} items={} cuts={}", cuts_of(&c, &f_ids), show_ents(&ents), cuts_of(&c, &i_ids)), &tag);
                bump(&mut out, "op.ingest");
            }
            Op::SnapOpen => {
                if c.snaps.len() < 3 {
                    c.snaps.push(c.vis.get());
                    bump(&mut out, "op.snap_open");
                }
                skip_checks = true;
            }
            Op::SnapRelease(i) => {
                if !c.snaps.is_empty() {
                    let i = *i % c.snaps.len();
                    c.snaps.remove(i);
                }
                skip_checks = true;
            }
            Op::Reopen => {
                // reopen-after-flush: memtable data would be lost otherwise (the crate has no WAL)
                let wm = 0;
                let next_mem = index_tree(&c.tree).0.memtable_id_counter.get();
                let (_, before) = levels_of(&c);
                c.tree.flush_active_memtable(wm).unwrap();
                let (_, after) = levels_of(&c);
                let old: BTreeSet<u64> = all_ids(&before).into_iter().collect();
                let new_ids: Vec<u64> = after[0].iter().flatten().copied().filter(|i| !old.contains(i)).collect();
                model_res = runner.validate(&c, &format!("flush wm={wm} mem={next_mem} cuts={}", cuts_of(&c, &new_ids)), &tag);
                if model_res.is_ok() {
                    let hp_before = c.tree.get_highest_persisted_seqno();
                    let once = Arc::new(c.once_keys.clone());
                    let path = c.dir.path().to_path_buf();
                    // drop the old handle first
                    let placeholder = open_placeholder();
                    let old = std::mem::replace(&mut c.tree, placeholder);
                    drop(old);
                    c.tree = open_tree(&Ctx0 { cfg: &c.cfg, path: &path, seqno: &c.seqno, vis: &c.vis, cache: &c.cache, fds: &c.fds, flog: &c.flog, once });
                    c.snaps.clear();
                    // recovery removes what an ingestion dropped without finish() left behind (C20: "always after a reopen")
                    for f in std::mem::take(&mut *c.leftovers.borrow_mut()) {
                        if c.dir.path().join(&f).exists() {
                            out.oracle_failures.push(format!("C20 after `{tag}`: `{f}` (written by an ingestion that was dropped without finish()) is still on disk after the reopen"));
                        }
                    }
                    if c.tree.get_highest_persisted_seqno() != hp_before {
                        out.oracle_failures.push(format!("C18 after `{tag}`: get_highest_persisted_seqno changed across reopen: {:?} -> {:?}", hp_before, c.tree.get_highest_persisted_seqno()));
                    }
                    model_res = runner.validate(&c, "reopen", &tag);
                }
                bump(&mut out, "op.reopen");
            }
            Op::Scan(lo, hi, word, sel) => {
                let s = if *sel == 0 || c.snaps.is_empty() { c.vis.get() } else { c.snaps[(*sel - 1) % c.snaps.len()] };
                let (lob, los) = bound_of(lo, &c.keys);
                let (hib, his) = bound_of(hi, &c.keys);
                // an overlay memtable (a transaction's write set) in about half of the scans, derived from the op text so that
                // replays see the same one: entries stamped AT OR ABOVE the counter (newer than anything in the tree, hence also
                // above an old snapshot `s`), visible according to the overlay's OWN bound `os`
                let mut orng = Rng::new(fnv(format!("{tag}/{los}/{his}/{word}/{s}").as_bytes()));
                let ctr = c.seqno.get();
                let overlay: Option<(Vec<Ent>, SeqNo)> = if orng.chance(1, 2) {
                    let mut es: Vec<Ent> = vec![];
                    for j in 0..(1 + orng.below(3)) {
                        let k = orng.pick(&c.keys).clone();
                        if es.iter().any(|e| e.key == k) {
                            continue;
                        }
                        let q = ctr + j;
                        es.push(if orng.chance(1, 3) { Ent { key: k, seqno: q, vt: 1, val: vec![] } } else { Ent { key: k.clone(), seqno: q, vt: 0, val: format!("{}@overlay{q}", hex(&k)).into_bytes() } });
                    }
                    Some((es, *orng.pick(&[ctr, ctr + 1, SeqNo::MAX])))
                } else {
                    None
                };
                let real_overlay = overlay.as_ref().map(|(es, os)| {
                    let m = lsm_tree::Memtable::new(u64::MAX - 1);
                    for e in es {
                        m.insert(e.to_internal());
                    }
                    (Arc::new(m), *os)
                });
                let mut it = c.tree.range::<K, _>((lob.clone(), hib.clone()), s, real_overlay);
                let mut items = vec![];
                for ch in word.chars() {
                    let x = if ch == 'F' { it.next() } else { it.next_back() };
                    items.push(x.map(kv_of));
                }
                // oracle: consume the expected list from both ends
                let mut expect: std::collections::VecDeque<(K, Vec<u8>)> = c.keys.iter().filter(|k| inside(&lob, &hib, k)).filter_map(|k| {
                    // a visible overlay entry (seqno below the overlay's bound) is newer than every tree entry
                    if let Some((es, os)) = &overlay {
                        if let Some(e) = es.iter().find(|e| &e.key == k && e.seqno < *os) {
                            return if e.vt == 0 { Some((k.clone(), e.val.clone())) } else { None };
                        }
                    }
                    match c.oracle.get(s, k) { Some(Some(v)) => Some((k.clone(), v)), Some(None) => None, None => c.tree.get(k, s).unwrap().map(|v| (k.clone(), v.to_vec())) }
                }).collect();
                let crosses = expect.len() >= 2;
                for (i, ch) in word.chars().enumerate() {
                    let want = if ch == 'F' { expect.pop_front() } else { expect.pop_back() };
                    if items[i] != want {
                        out.oracle_failures.push(format!("C03 `{tag}` S={s} [{los},{his}]: item {i} ({ch}) = {:?}, oracle {:?}", items[i].as_ref().map(|x| hex(&x.0)), want.as_ref().map(|x| hex(&x.0))));
                        break;
                    }
                }
                if overlay.is_some() {
                    bump(&mut out, "scan.with_overlay");
                }
                let ov = overlay.as_ref().map_or(String::new(), |(es, os)| { let mut l = es.clone(); l.sort_by(ik_cmp); format!(" overlay={} os={os}", show_ents(&l)) });
                if let Some(reply) = runner.ask(&format!("scan S={s} lo={los} hi={his} word={word}{ov}")) {
                    let imp = format!("items={}", items.iter().map(|x| match x { Some((k, v)) => format!("{}=V{}", hex(k), hex(v)), None => "-".into() }).collect::<Vec<_>>().join("|"));
                    let imp_cmp = if c.cfg.blob.is_some() { strip_vt(&imp) } else { imp.clone() };
                    let rep_cmp = if c.cfg.blob.is_some() { strip_vt(&reply) } else { reply.clone() };
                    if imp_cmp != rep_cmp {
                        model_res = Err(format!("scan result differs after `{tag}`: real {imp} model {reply}"));
                    }
                }
                if crosses && word.contains('F') && word.contains('B') {
                    bump(&mut out, "scan.both_ends_multi");
                }
                bump(&mut out, "op.scan");
                skip_checks = true;
            }
        }
        // C13h / C08w: on histories of the C13 alphabet (writes incl. remove_weak, rotate, flush, compactions, moves, reopen; no ingest /
        // drop_range / clear / compaction filter) the generator obeys the single-delete discipline, so the model state (= the real
        // state, by digest) must satisfy the invariant `stateWeakSafeB` of c13_state_disciplined / c08_state_disciplined
        if weak_alphabet && model_res.is_ok() && out.disagreement.is_none() {
            if let Some(r) = runner.ask("weaksafe") {
                if r == "ok" {
                    bump(&mut out, "weaksafe.states_ok");
                } else {
                    model_res = Err(format!("the state after `{tag}` violates the WeakSafe invariant of c13_state_disciplined (model answer `{r}`): {}", canon_state(&c)));
                }
            }
        }
        if let Err(e) = model_res {
            if out.disagreement.is_none() {
                out.disagreement = Some(e);
            }
        }
        // filter log -> oracle (C17)
        {
            let mut fl = c.flog.lock().unwrap();
            let cs = c.seqno.get().saturating_sub(1);
            for (k, v, code) in fl.drain(..) {
                bump(&mut out, "filter.shown");
                if c.oracle.get(SeqNo::MAX, &k) == Some(Some(v.clone())) {
                    bump(&mut out, "filter.shown_newest");
                    match code {
                        5 | 6 | 7 => c.oracle.evs.push(Ev::Del(cs, k.clone())),
                        3 => {
                            let mut r = v.clone();
                            r.extend(std::iter::repeat(0x52).take(12));
                            c.oracle.evs.push(Ev::Put(cs, k.clone(), r));
                        }
                        4 => {
                            let mut r = v.clone();
                            r.push(0x52);
                            c.oracle.evs.push(Ev::Put(cs, k.clone(), r));
                        }
                        _ => {}
                    }
                    if code >= 6 {
                        // RemoveWeak / Destroy on a write-once key: the key may be written again later only once more… keep it simple: never again
                        c.once_written.insert(k.clone());
                    }
                }
            }
        }
        if !skip_checks {
            let mut fails = vec![];
            let newest = if step % 2 == 0 { c.vis.get() } else { SeqNo::MAX };
            check_at(&c, newest, false, &tag, &mut fails);
            let snaps = c.snaps.clone();
            for s in snaps {
                check_at(&c, s, true, &tag, &mut fails);
            }
            audit(&c, &tag, &mut fails);
            blob_audit(&c, &tag, &mut fails, &mut out.counters);
            // model read correspondence on a sample of keys / snapshots
            if runner.check_reads_with_model && out.disagreement.is_none() {
                let mut ss = vec![c.vis.get()];
                ss.extend(c.snaps.iter().copied());
                'outer: for s in ss {
                    for k in c.keys.iter() {
                        let got = c.tree.get(k, s).unwrap().map(|v| v.to_vec());
                        if let Some(reply) = runner.ask(&format!("get key={} S={s}", hex(k))) {
                            let imp = match &got {
                                Some(v) => format!("val={}=V{}", hex(k), hex(v)),
                                None => "val=-".into(),
                            };
                            let ok = if c.cfg.blob.is_some() { strip_vt(&imp) == strip_vt(&reply) } else { imp == reply };
                            if !ok {
                                out.disagreement = Some(format!("point read differs after `{tag}`: get({}, {s}) real {imp} model {reply}", hex(k)));
                                break 'outer;
                            }
                        }
                    }
                }
            }
            if !c.snaps.is_empty() {
                bump(&mut out, "checks.with_held_snapshot");
            }
            if let Ok(ign) = std::env::var("LSMVERIF_IGNORE") {
                // exploration aid only (never set by ./check): keep going past failures of the named property
                fails.retain(|f| !ign.split(',').any(|p| f.starts_with(p)));
            }
            out.oracle_failures.extend(fails);
        }
        if !out.oracle_failures.is_empty() {
            break;
        }
        if out.disagreement.is_some() && runner.drv.is_some() {
            // model and implementation have parted: keep executing the history on the real tree alone, looking for an
            // input on which the property oracle itself fails
            runner.drv = None;
        }
    }
    // non-triviality: at least one compaction that changed the version and ≥ 2 levels/runs populated at some point
    let g = |k: &str| out.counters.get(k).copied().unwrap_or(0);
    out.nontrivial = (g("compaction.merge") + g("compaction.move") > 0 && g("op.flush") >= 2) || (g("op.fifo") > 0 && g("flush.created_tables") >= 2);
    out
}

/// blob trees: values are compared modulo the value type tag (`V` vs `I`); the model resolves pointers itself
fn strip_vt(s: &str) -> String {
    s.replace("=I", "=V")
}

fn open_placeholder() -> AnyTree {
    let d = tempfile::tempdir_in(crate::scratch_root()).unwrap();
    let t = Config::new(d.path(), SequenceNumberCounter::default(), SequenceNumberCounter::default()).open().unwrap();
    // the directory may vanish; the placeholder is dropped right away
    std::mem::forget(d.keep());
    t
}


/// What `leveled::Strategy::choose` really returned, together with the per-table facts of the version it was
/// called on (recorded by `RecLeveled`).
struct LeveledObs {
    /// "nothing" | "move=<ids> dest=<d>" | "merge=<ids> dest=<d>" | "drop=<ids>" (the driver's `showChoice` format)
    choice: String,
    kind: &'static str,
    /// lowest level holding a chosen table
    src_level: Option<usize>,
    /// (table id, `file_size`) of every table of the version
    sizes: Vec<(u64, u64)>,
    /// chosen tables in the source level / in the other levels, and the table counts of source and next level
    shape: (usize, usize, usize, usize),
}

/// `Leveled` wrapped so that the harness sees the REAL `Choice` of the very call the compaction worker makes.
struct RecLeveled {
    inner: lsm_tree::compaction::Leveled,
    rec: Arc<Mutex<Option<LeveledObs>>>,
}

impl va::CompactionStrategy for RecLeveled {
    fn get_name(&self) -> &'static str {
        self.inner.get_name()
    }
    fn get_config(&self) -> Vec<lsm_tree::KvPair> {
        self.inner.get_config()
    }
    fn choose(&self, version: &va::Version, config: &Config, state: &va::CompactionState) -> va::Choice {
        let c = self.inner.choose(version, config, state);
        let levels: Vec<Vec<u64>> = version.iter_levels().map(|l| l.iter().flat_map(|r| r.iter()).map(|t| t.id()).collect()).collect();
        let sizes: Vec<(u64, u64)> = version.iter_levels().flat_map(|l| l.iter()).flat_map(|r| r.iter()).map(|t| (t.id(), t.metadata.file_size)).collect();
        let mut shape = (0, 0, 0, 0);
        let mut describe = |kind: &'static str, mut v: Vec<u64>, dest: Option<u8>| {
            v.sort_unstable();
            let src = v.iter().filter_map(|i| levels.iter().position(|l| l.contains(i))).min();
            let n_src = src.map_or(0, |l| v.iter().filter(|i| levels[l].contains(i)).count());
            shape = (n_src, v.len() - n_src, src.map_or(0, |l| levels[l].len()), src.and_then(|l| levels.get(l + 1)).map_or(0, Vec::len));
            let text = match dest {
                Some(d) => format!("{kind}={} dest={d}", show_ids(&v)),
                None => format!("{kind}={}", show_ids(&v)),
            };
            (text, kind, src)
        };
        let (choice, kind, src_level) = match &c {
            va::Choice::DoNothing => ("nothing".to_string(), "nothing", None),
            va::Choice::Move(i) => describe("move", i.table_ids.iter().copied().collect(), Some(i.dest_level)),
            va::Choice::Merge(i) => describe("merge", i.table_ids.iter().copied().collect(), Some(i.dest_level)),
            va::Choice::Drop(ids) => describe("drop", ids.iter().copied().collect(), None),
        };
        *self.rec.lock().unwrap() = Some(LeveledObs { choice, kind, src_level, sizes, shape });
        c
    }
}

/// Leveled: the model (`leveledChooseAt`, Tree/Leveled.lean) must reproduce the real choice EXACTLY (same ids, same
/// destination, same Move / Merge / DoNothing). The two float-dependent decisions are inferred from the real choice:
/// `scored` = the lowest level holding a chosen table (`-` for DoNothing), `neednew` = whichever value reproduces it.
fn leveled_compare(obs: &LeveledObs, l0: u8, ts: u64, hidden: &[u64], observed: &str, runner: &mut Runner, tag: &str, out: &mut Outcome) -> Result<(), String> {
    let bump = |out: &mut Outcome, k: &str| *out.counters.entry(k.to_string()).or_default() += 1;
    if runner.drv.is_none() {
        return Ok(());
    }
    let scored = obs.src_level.map_or("-".to_string(), |l| l.to_string());
    let sizes = obs.sizes.iter().map(|(i, b)| format!("{i}:{b}")).collect::<Vec<_>>().join(",");
    let base = format!("choose strat=leveled l0={l0} target={ts} hidden={} sizes={sizes}", show_ids(hidden));
    let mut replies = Vec::new();
    for nn in [0, 1] {
        replies.push(runner.ask(&format!("{base} neednew={nn} scored={scored}")).unwrap_or_default());
    }
    let m0 = replies[0] == obs.choice;
    let m1 = replies[1] == obs.choice;
    if !m0 && !m1 {
        return Err(format!(
            "`{tag}`: Leveled choice differs: real `{}`, model `{}` (neednew=0) / `{}` (neednew=1) for `{base} scored={scored}`",
            obs.choice, replies[0], replies[1]
        ));
    }
    bump(out, "leveled.cmp.total");
    bump(out, &format!("leveled.cmp.{}", obs.kind));
    if let Some(l) = obs.src_level {
        bump(out, &format!("leveled.cmp.{}.src{l}", obs.kind));
        if l >= 1 {
            // `pick_minimal_compaction`: chosen tables of the current run / of the next run, out of how many
            let (a, b, na, nb) = obs.shape;
            let cap = |n: usize| if n >= 3 { "3p".to_string() } else { n.to_string() };
            bump(out, &format!("leveled.cmp.deep.{}.{}of{}+{}of{}", obs.kind, cap(a), cap(na), cap(b), cap(nb)));
        }
    }
    bump(out, match (m0, m1) {
        (true, true) => "leveled.cmp.neednew_either",
        (true, false) => "leveled.cmp.neednew_0",
        _ => "leveled.cmp.neednew_1",
    });
    // a move that does not depend on the scoring at all (trivial move into Lmax / into L1)?
    if obs.kind == "move" && obs.src_level == Some(0) {
        if runner.ask(&format!("{base} neednew={} scored=-", if m0 { 0 } else { 1 })).as_deref() == Some(obs.choice.as_str()) {
            bump(out, "leveled.cmp.move.before_scoring");
        }
    }
    // cross-check (NOT a disagreement): exact-rational scoring for the default ratio policy instead of inference
    if let Some(p) = runner.ask(&format!("{base} scored=auto")) {
        let predicted = p.split(" pick=").next().unwrap_or("");
        if predicted == obs.choice {
            bump(out, "leveled.auto.agree");
            bump(out, &format!("leveled.auto.agree.{}", obs.kind));
        } else {
            bump(out, "leveled.auto.differ");
            if std::env::var("LSMVERIF_LEVELED_DEBUG").is_ok() {
                eprintln!("leveled auto differs `{tag}`: real `{}` auto `{p}` for `{base}`", obs.choice);
            }
            // The harness only uses the default ratio policy with power-of-two thresholds / target sizes and small
            // files, where the f32 / f64 arithmetic of the real scoring is exact. No property constrains WHICH admissible
            // compaction Leveled picks, so a difference in the (float) scoring is only counted (`leveled.auto.differ`);
            // `LSMVERIF_LEVELED_AUTO=hard` turns it into a disagreement.
            if std::env::var("LSMVERIF_LEVELED_AUTO").as_deref() == Ok("hard") {
                return Err(format!(
                    "`{tag}`: Leveled choice differs from the model with exact-rational scoring: real `{}`, model `{p}` for `{base} scored=auto`",
                    obs.choice
                ));
            }
        }
    }
    // the effect seen on the version history must be the effect of that choice
    let consistent = match obs.kind {
        "nothing" => observed == "nothing",
        "move" => observed == obs.choice,
        "merge" => observed == obs.choice || observed.starts_with("changed-without-new-tables") || (observed == "nothing" && obs.choice.starts_with("merge= ")),
        _ => false,
    };
    if consistent {
        bump(out, "leveled.effect.consistent");
    } else {
        bump(out, "leveled.effect.differs");
        if std::env::var("LSMVERIF_LEVELED_DEBUG").is_ok() {
            eprintln!("leveled effect differs `{tag}`: choice `{}` observed `{observed}`", obs.choice);
        }
    }
    Ok(())
}

fn exec_compaction(c: &mut Ctx, op: &Op, runner: &mut Runner, tag: &str, out: &mut Outcome) -> Result<(), String> {
    let bump = |out: &mut Outcome, k: &str| *out.counters.entry(k.to_string()).or_default() += 1;
    let (vid_before, before) = levels_of(c);
    let hidden = va::hidden_table_ids(index_tree(&c.tree));
    let filter_arg = c.cfg.filter_seed.map_or("none".to_string(), |s| format!("{s} once={}", c.once_keys.iter().map(|k| hex(k)).collect::<Vec<_>>().join(",")));
    // Leveled: the real `Choice` as returned by `choose` (recorded by the wrapper strategy)
    let mut leveled_obs: Option<(LeveledObs, u8, u64)> = None;
    // run the real operation
    let (wm, strat_req): (SeqNo, Option<String>) = match op {
        Op::Leveled(l0, ts, w) => {
            // P6: leveled is only issued while every level ≥ 1 holds at most one run
            if before.iter().skip(1).any(|lvl| lvl.len() > 1) {
                return Ok(());
            }
            let wm = wm_value(*w, c);
            let rec = Arc::new(Mutex::new(None));
            let strat = RecLeveled { inner: lsm_tree::compaction::Leveled::default().with_l0_threshold(*l0).with_table_target_size(*ts), rec: rec.clone() };
            c.tree.compact(Arc::new(strat), wm).unwrap();
            bump(out, "op.leveled");
            leveled_obs = rec.lock().unwrap().take().map(|o| (o, *l0, *ts));
            (wm, None)
        }
        Op::Major(ts, w) => {
            let wm = wm_value(*w, c);
            c.tree.major_compact(*ts, wm).unwrap();
            bump(out, "op.major");
            (wm, Some("choose strat=major".to_string()))
        }
        Op::MoveDown(a, b) => {
            // P5: only when the levels strictly between are empty
            if !((*a as usize + 1)..(*b as usize)).all(|i| before[i].is_empty()) || a >= b {
                return Ok(());
            }
            c.tree.compact(Arc::new(lsm_tree::compaction::MoveDown(*a, *b)), 0).unwrap();
            bump(out, "op.movedown");
            (0, Some(format!("choose strat=movedown src={a} dst={b}")))
        }
        Op::PullDown(a, b, w) => {
            if !((*a as usize + 1)..(*b as usize)).all(|i| before[i].is_empty()) || a >= b || *b > 6 {
                return Ok(());
            }
            // create_compaction_stream declines partial multi-table runs silently; fine, the diff shows "nothing"
            let wm = wm_value(*w, c);
            c.tree.compact(Arc::new(lsm_tree::compaction::PullDown(*a, *b)), wm).unwrap();
            bump(out, "op.pulldown");
            (wm, Some(format!("choose strat=pulldown src={a} dst={b}")))
        }
        Op::DropRange(lo, hi) => {
            let (lob, los) = bound_of(lo, &c.keys);
            let (hib, his) = bound_of(hi, &c.keys);
            let cs = c.seqno.get();
            c.tree.drop_range::<K, _>((lob.clone(), hib.clone())).unwrap();
            bump(out, "op.drop_range");
            // the property says nothing about keys inside R after the call: re-synchronise them from the tree
            let keys = c.keys.clone();
            for k in &keys {
                if inside(&lob, &hib, k) {
                    c.oracle.evs.push(Ev::Forget(cs, k.clone()));
                }
            }
            for k in &keys {
                if inside(&lob, &hib, k) {
                    match c.tree.get(k, SeqNo::MAX).unwrap() {
                        Some(v) => c.oracle.evs.push(Ev::Put(cs, k.clone(), v.to_vec())),
                        None => c.oracle.evs.push(Ev::Del(cs, k.clone())),
                    }
                    if let Some(st) = c.weak_state.get_mut(k) {
                        *st = c.tree.get(k, SeqNo::MAX).unwrap().is_some();
                    }
                }
            }
            (0, Some(format!("choose strat=droprange lo={los} hi={his}")))
        }
        Op::Fifo(..) => return exec_fifo(c, op, runner, tag, out),
        _ => unreachable!(),
    };
    let (vid_after, after) = levels_of(c);
    // infer what happened
    let bset: BTreeSet<u64> = all_ids(&before).into_iter().collect();
    let aset: BTreeSet<u64> = all_ids(&after).into_iter().collect();
    let removed: Vec<u64> = bset.difference(&aset).copied().collect();
    let added_in_order: Vec<u64> = all_ids(&after).into_iter().filter(|i| !bset.contains(i)).collect();
    let moved: Vec<u64> = bset.intersection(&aset).copied().filter(|i| level_of(&before, *i) != level_of(&after, *i)).collect();
    let observed = if vid_after == vid_before {
        "nothing".to_string()
    } else if !added_in_order.is_empty() {
        format!("merge={} dest={}", show_ids(&removed), level_of(&after, added_in_order[0]).unwrap())
    } else if !moved.is_empty() {
        format!("move={} dest={}", show_ids(&moved), level_of(&after, moved[0]).unwrap())
    } else {
        format!("changed-without-new-tables removed={}", show_ids(&removed))
    };
    // strategies whose choice is pure logic: the model predicts the choice
    let mut predicted: Option<String> = None;
    if let Some(req) = &strat_req {
        if let Some(p) = runner.ask(&format!("{req} hidden={}", show_ids(&hidden))) {
            predicted = Some(p);
        }
    }
    // Leveled: the model predicts the choice too, given the float-dependent decisions (asked on the BEFORE state)
    if let Some((obs, l0, ts)) = &leveled_obs {
        leveled_compare(obs, *l0, *ts, &hidden, &observed, runner, tag, out)?;
    }
    if runner.drv.is_none() {
        if vid_after != vid_before {
            bump(out, if !added_in_order.is_empty() { "compaction.merge" } else if !moved.is_empty() { "compaction.move" } else { "compaction.other" });
        }
        return Ok(());
    }
    // decide the model step
    let step_req: Option<String> = if let Some(p) = &predicted {
        if p == "empty" || vid_after == vid_before {
            // inverted drop_range bounds, or the worker declined (e.g. partial run in pulldown): nothing must have changed
            if vid_after != vid_before && p == "empty" {
                return Err(format!("`{tag}`: inverted/empty bounds but the version changed"));
            }
            None
        } else if let Some(rest) = p.strip_prefix("merge=") {
            let mut it = rest.split(" dest=");
            let ids = it.next().unwrap_or("");
            let dest = it.next().unwrap_or("6");
            if !observed.starts_with("merge=") && !observed.starts_with("changed-") {
                return Err(format!("`{tag}`: model predicts choice `{p}`, observed `{observed}`"));
            }
            if observed.starts_with("merge=") && observed != *p {
                return Err(format!("`{tag}`: model predicts choice `{p}`, observed `{observed}`"));
            }
            Some(format!("merge ids={ids} dest={dest} wm={wm} filter={filter_arg} cuts={}", cuts_of(c, &added_in_order)))
        } else if let Some(rest) = p.strip_prefix("move=") {
            let mut it = rest.split(" dest=");
            let ids = it.next().unwrap_or("");
            let dest = it.next().unwrap_or("6");
            Some(format!("move ids={ids} dest={dest} wm={wm}"))
        } else if let Some(ids) = p.strip_prefix("drop=") {
            Some(format!("drop ids={ids} wm={wm}"))
        } else {
            None
        }
    } else {
        // Leveled: observed choice, checked for admissibility
        if vid_after == vid_before {
            None
        } else if !added_in_order.is_empty() {
            let dest = level_of(&after, added_in_order[0]).unwrap();
            if let Some(adm) = runner.ask(&format!("admissible kind=merge ids={} dest={dest}", show_ids(&removed))) {
                if adm != "ok" {
                    return Err(format!("`{tag}`: observed choice `{observed}` is not Admissible (theorem hypothesis violated)"));
                }
                bump(out, "admissible.checked");
            }
            Some(format!("merge ids={} dest={dest} wm={wm} filter={filter_arg} cuts={}", show_ids(&removed), cuts_of(c, &added_in_order)))
        } else if !moved.is_empty() {
            let dest = level_of(&after, moved[0]).unwrap();
            if let Some(adm) = runner.ask(&format!("admissible kind=move ids={} dest={dest}", show_ids(&moved))) {
                if adm != "ok" {
                    return Err(format!("`{tag}`: observed choice `{observed}` is not Admissible (theorem hypothesis violated)"));
                }
                bump(out, "admissible.checked");
            }
            Some(format!("move ids={} dest={dest} wm={wm}", show_ids(&moved)))
        } else {
            // a merge whose whole output was dropped: the destination level is not observable, try them all
            let mut found = None;
            for dest in (1..=6).rev() {
                let req = format!("merge ids={} dest={dest} wm={wm} filter={filter_arg} cuts=", show_ids(&removed));
                // probe on a copy is not possible; ask admissibility first, then try
                if runner.ask(&format!("admissible kind=merge ids={} dest={dest}", show_ids(&removed))).as_deref() == Some("ok") {
                    found = Some(req);
                    break;
                }
            }
            found
        }
    };
    if vid_after != vid_before {
        bump(out, if !added_in_order.is_empty() { "compaction.merge" } else if !moved.is_empty() { "compaction.move" } else { "compaction.other" });
        if !added_in_order.is_empty() && level_of(&after, added_in_order[0]) == Some(6) {
            bump(out, "compaction.into_last_level");
        }
    }
    match step_req {
        Some(req) => runner.validate(c, &req, tag),
        None => {
            // nothing changed: the model state must still match
            if let Some(reply) = runner.ask("digest") {
                let want = format!("digest={}", digest_of(&canon_state(c)));
                if !reply.starts_with(&want) {
                    return Err(format!("`{tag}`: observed `{observed}` but the state differs from the model's unchanged state\n   real : {}\n   model: {}", canon_state(c), runner.ask("dump").unwrap_or_default()));
                }
            }
            Ok(())
        }
    }
}

fn exec_fifo(c: &mut Ctx, op: &Op, runner: &mut Runner, tag: &str, out: &mut Outcome) -> Result<(), String> {
    let Op::Fifo(lsel, tsel) = op else { unreachable!() };
    let bump = |out: &mut Outcome, k: &str| *out.counters.entry(k.to_string()).or_default() += 1;
    let v = index_tree(&c.tree).current_version();
    // FIFO asserts a disjoint L0: only issue it when L0 is a single run (append-only monotone workloads)
    let l0 = v.level(0).unwrap();
    if l0.len() > 1 {
        return Ok(());
    }
    let tables: Vec<(u64, u128, u64, u64, Vec<K>)> = l0.iter().flat_map(|r| r.iter()).map(|t| (t.id(), u128::from(t.metadata.created_at), t.metadata.file_size, t.referenced_blob_bytes().unwrap_or(0), table_entries(t).into_iter().map(|e| e.key).collect())).collect();
    let db_size: u64 = tables.iter().map(|t| t.2).sum::<u64>() + v.blob_files.on_disk_size();
    let limit = match lsel {
        0 => 1,
        1 => db_size / 2,
        2 => db_size,
        _ => db_size * 2 + 1,
    };
    let ttl: Option<u64> = match *tsel { 0 => None, 1 => Some(1_000_000_000), _ => Some(0) };
    let (_, before) = levels_of(c);
    c.tree.compact(Arc::new(lsm_tree::compaction::Fifo::new(limit, ttl)), 0).unwrap();
    let (_, after) = levels_of(c);
    bump(out, "op.fifo");
    let aset: BTreeSet<u64> = all_ids(&after).into_iter().collect();
    let mut dropped: Vec<u64> = all_ids(&before).into_iter().filter(|i| !aset.contains(i)).collect();
    dropped.sort_unstable();
    // property oracle (C19)
    if db_size <= limit && !dropped.is_empty() {
        out.oracle_failures.push(format!("C19 `{tag}`: within the limit ({db_size} ≤ {limit}) and TTL but tables {dropped:?} were dropped"));
    }
    for d in &dropped {
        let dc = tables.iter().find(|t| t.0 == *d).map(|t| t.1).unwrap_or(0);
        for r in tables.iter().filter(|t| !dropped.contains(&t.0)) {
            if dc > r.1 {
                out.oracle_failures.push(format!("C19 `{tag}`: dropped table {d} (created {dc}) is newer than retained table {} (created {})", r.0, r.1));
            }
        }
    }
    if !dropped.is_empty() {
        bump(out, "fifo.dropped_some");
        // keys that only lived in dropped tables are gone by design: forget them in the oracle
        let cs = c.seqno.get().saturating_sub(1);
        let keys = c.keys.clone();
        for k in &keys {
            if tables.iter().any(|t| dropped.contains(&t.0) && t.4.contains(k)) {
                c.oracle.evs.push(Ev::Forget(cs, k.clone()));
                match c.tree.get(k, SeqNo::MAX).unwrap() {
                    Some(v) => c.oracle.evs.push(Ev::Put(cs, k.clone(), v.to_vec())),
                    None => c.oracle.evs.push(Ev::Del(cs, k.clone())),
                }
            }
        }
        // every key of a retained table must still read a value
        for t in tables.iter().filter(|t| !dropped.contains(&t.0)) {
            for k in &t.4 {
                if c.tree.get(k, SeqNo::MAX).unwrap().is_none() && c.oracle.get(SeqNo::MAX, k) == Some(None) {
                    // deleted by a tombstone in a retained table is fine; FIFO workloads here have no deletes
                }
            }
        }
    }
    // model: predicted choice from the same per-table facts
    let now = std::time::SystemTime::now().duration_since(std::time::UNIX_EPOCH).unwrap().as_nanos();
    let req = format!(
        "fifo limit={limit} ttl={} now={now} dbsize={db_size} tables={}",
        ttl.map_or("-".to_string(), |t| t.to_string()),
        tables.iter().map(|t| format!("{}:{}:{}:{}", t.0, t.1, t.2, t.3)).collect::<Vec<_>>().join(",")
    );
    if let Some(p) = runner.ask(&req) {
        let observed = if dropped.is_empty() { "nothing".to_string() } else { format!("drop={}", show_ids(&dropped)) };
        if p != observed {
            return Err(format!("`{tag}`: FIFO choice differs: model `{p}` observed `{observed}` for `{req}`"));
        }
        if !dropped.is_empty() {
            return runner.validate(c, &format!("drop ids={} wm=0", show_ids(&dropped)), tag);
        }
    }
    Ok(())
}

// ------------------------------------------------------------------------------------------------ campaign, shrinking, replay

fn failure_kind(o: &Outcome) -> Option<String> {
    if let Some(f) = o.oracle_failures.first() {
        return Some(format!("oracle:{}", &f[..3]));
    }
    o.disagreement.as_ref().map(|_| "model".to_string())
}

/// delta debugging over the op list: keep removing chunks while the same kind of failure persists
pub fn shrink(case: &Case, with_model: bool) -> Case {
    let mut drv_holder = if with_model { Some(Drv::spawn()) } else { None };
    let mut run = |c: &Case| -> Option<String> {
        let mut r = Runner { drv: drv_holder.as_mut(), check_reads_with_model: true, shared: None };
        failure_kind(&run_case(c, &mut r))
    };
    let Some(kind) = run(case) else { return case.clone() };
    let mut cur = case.clone();
    let mut chunk = (cur.ops.len() / 2).max(1);
    let mut budget = 400;
    while chunk >= 1 && budget > 0 {
        let mut i = 0;
        let mut progressed = false;
        while i < cur.ops.len() && budget > 0 {
            let mut cand = cur.clone();
            let end = (i + chunk).min(cand.ops.len());
            cand.ops.drain(i..end);
            budget -= 1;
            if run(&cand).as_deref() == Some(&kind) {
                cur = cand;
                progressed = true;
            } else {
                i += chunk;
            }
        }
        if chunk == 1 && !progressed {
            break;
        }
        chunk = if chunk > 1 { chunk / 2 } else { 1 };
    }
    cur
}

pub fn campaign(profile: Profile, blob_mode: u8, seed: u64, cases: u64, max_ops: u64, threads: usize, with_model: bool, replay_dir: &std::path::Path, st: &mut Stats) {
    let results: Arc<Mutex<Vec<(u64, Case, Outcome)>>> = Arc::new(Mutex::new(vec![]));
    let next = Arc::new(std::sync::atomic::AtomicU64::new(0));
    let stop = Arc::new(std::sync::atomic::AtomicBool::new(false));
    std::thread::scope(|sc| {
        for _ in 0..threads {
            let results = results.clone();
            let next = next.clone();
            let stop = stop.clone();
            sc.spawn(move || {
                let mut drv = if with_model { Some(Drv::spawn()) } else { None };
                loop {
                    let i = next.fetch_add(1, std::sync::atomic::Ordering::SeqCst);
                    if i >= cases || stop.load(std::sync::atomic::Ordering::SeqCst) {
                        break;
                    }
                    let mut rng = Rng::new(seed.wrapping_mul(1_000_003).wrapping_add(i).wrapping_add(profile as u64 * 7919));
                    let blob = match blob_mode {
                        0 => false,
                        1 => true,
                        _ => rng.chance(1, 2),
                    };
                    let case = gen_case(&mut rng, profile, blob, max_ops);
                    let mut runner = Runner { drv: drv.as_mut(), check_reads_with_model: true, shared: None };
                    let o = run_case(&case, &mut runner);
                    let failed = o.disagreement.is_some() || !o.oracle_failures.is_empty();
                    let mut g = results.lock().unwrap();
                    // a model/implementation disagreement alone does not end the search: keep looking for an input on
                    // which the property oracle itself fails on the real tree
                    if failed && g.iter().filter(|r| !r.2.oracle_failures.is_empty()).count() >= 3 {
                        stop.store(true, std::sync::atomic::Ordering::SeqCst);
                    }
                    if failed && g.iter().filter(|r| r.2.disagreement.is_some()).count() >= 200 {
                        stop.store(true, std::sync::atomic::Ordering::SeqCst);
                    }
                    g.push((i, case, o));
                }
            });
        }
    });
    let mut results = Arc::try_unwrap(results).ok().unwrap().into_inner().unwrap();
    results.sort_by_key(|r| r.0);
    std::fs::create_dir_all(replay_dir).ok();
    let mut shrunk = 0;
    let mut n_dis = 0;
    for (i, case, o) in results {
        st.evaluations += 1;
        for (k, v) in &o.counters {
            st.add(k, *v);
        }
        st.add("ib.steps", o.steps as u64);
        let failed = o.disagreement.is_some() || !o.oracle_failures.is_empty();
        if !failed {
            st.count("ib.histories_validated");
            if o.nontrivial {
                st.nontrivial_case(&case.show());
            }
            if i < 2 {
                st.sample(case.show().lines().take(12).collect::<Vec<_>>().join(" ; "));
            }
            continue;
        }
        // shrink the first few failures and write replays (oracle failures first)
        let is_oracle = !o.oracle_failures.is_empty();
        if !is_oracle {
            n_dis += 1;
            if n_dis > 3 {
                st.count("ib.more_disagreements_not_listed");
                continue;
            }
        }
        let (small, so) = if shrunk < 2 || (is_oracle && shrunk < 4) {
            shrunk += 1;
            let s = shrink(&case, with_model);
            let mut d = if with_model { Some(Drv::spawn()) } else { None };
            let mut r = Runner { drv: d.as_mut(), check_reads_with_model: true, shared: None };
            let so = run_case(&s, &mut r);
            if so.disagreement.is_some() || !so.oracle_failures.is_empty() { (s, so) } else { (case.clone(), o) }
        } else {
            (case.clone(), o)
        };
        let path = replay_dir.join(format!("case_{:?}_{}_{}.txt", profile, seed, i));
        let mut text = small.show();
        text.push_str(&format!("# oracle_failures: {:?}\n# disagreement: {:?}\n", so.oracle_failures, so.disagreement).replace('\n', "\n# "));
        std::fs::write(&path, text).ok();
        for f in &so.oracle_failures {
            st.oracle_failures.push(format!("{f}  [replay {}]", path.display()));
        }
        if let Some(d) = &so.disagreement {
            st.disagreements.push(format!("{d}  [replay {}]", path.display()));
        }
    }
}

/// C11: the same history on `k` trees with DIFFERENT physical configurations that share ONE block cache and ONE
/// descriptor table and are alive at the same time (their table ids coincide); every tree is validated against the
/// same configuration-free model and ordered-map oracle, so any cross-tree interference shows as a wrong read.
pub fn shared_cache_campaign(seed: u64, cases: u64, max_ops: u64, k: usize, st: &mut Stats) {
    for case_no in 0..cases {
        let mut rng = Rng::new(seed.wrapping_mul(911).wrapping_add(case_no));
        let base = gen_case(&mut rng, Profile::Core, false, max_ops);
        let cache = Arc::new(lsm_tree::Cache::with_capacity_bytes(*rng.pick(&[0u64, 1024, 64 * 1024, 8 * 1024 * 1024])));
        let fds = match rng.below(3) { 0 => None, 1 => Some(Arc::new(lsm_tree::DescriptorTable::new(1))), _ => Some(Arc::new(lsm_tree::DescriptorTable::new(3))) };
        let all_blob = rng.chance(1, 2);
        let group_compress = *rng.pick(&[0u8, 0, 1]);
        let mut variants = vec![];
        for i in 0..k {
            let mut c = base.clone();
            c.cfg.block_size = *rng.pick(&[1u32, 16, 64, 256, 4096]);
            c.cfg.restart = *rng.pick(&[1u8, 2, 16]);
            c.cfg.hash_ratio = *rng.pick(&[0u32, 75, 800]);
            c.cfg.part_index = rng.chance(1, 2);
            c.cfg.part_filter = rng.chance(1, 2);
            c.cfg.pin = rng.chance(1, 2);
            c.cfg.bloom = rng.below(3) as u8;
            c.cfg.blob = if all_blob { Some((8, 64)) } else if i % 2 == 1 && rng.chance(1, 2) { Some((8, 64)) } else { None };
            c.cfg.salt = b'a' + i as u8;
            // compression differs from tree to tree, except in all-blob groups (blob offsets must coincide there)
            c.cfg.compress = if all_blob { group_compress } else { *rng.pick(&[0u8, 1, 2]) };
            c.cfg.hits = rng.chance(1, 3);
            variants.push(c);
        }
        let outcomes: Vec<(Case, Outcome)> = std::thread::scope(|sc| {
            let hs: Vec<_> = variants
                .into_iter()
                .map(|c| {
                    let shared = Some((cache.clone(), fds.clone()));
                    sc.spawn(move || {
                        let mut d = Drv::spawn();
                        let mut r = Runner { drv: Some(&mut d), check_reads_with_model: true, shared };
                        let o = run_case(&c, &mut r);
                        (c, o)
                    })
                })
                .collect();
            hs.into_iter().map(|h| h.join().unwrap()).collect()
        });
        st.evaluations += 1;
        st.count("c11.shared_cache_groups");
        let mut ok = true;
        for (c, o) in outcomes {
            for (kk, v) in &o.counters {
                st.add(kk, *v);
            }
            if let Some(d) = &o.disagreement {
                ok = false;
                st.disagreements.push(format!("shared cache group {case_no} (seed {seed}): {d}\n   case: {}", c.show().lines().take(3).collect::<Vec<_>>().join(" ; ")));
            }
            for f in &o.oracle_failures {
                ok = false;
                st.oracle_failures.push(format!("C11 trees sharing one cache / descriptor table (group {case_no}, seed {seed}): {f}"));
            }
            if ok && o.nontrivial {
                st.nontrivial_case(&format!("{case_no}/{}", c.show()));
            }
        }
        if ok {
            st.count("ib.histories_validated");
        }
        if st.oracle_failures.len() > 6 {
            break;
        }
    }
}

pub fn replay(path: &str, with_model: bool, st: &mut Stats) {
    let text = std::fs::read_to_string(path).unwrap();
    let case = Case::parse(&text).expect("cannot parse replay file");
    let mut d = if with_model { Some(Drv::spawn()) } else { None };
    let mut r = Runner { drv: d.as_mut(), check_reads_with_model: true, shared: None };
    let o = run_case(&case, &mut r);
    st.evaluations += 1;
    for f in o.oracle_failures {
        st.oracle_failures.push(f);
    }
    if let Some(d) = o.disagreement {
        st.disagreements.push(d);
    }
}
