//! I-A `hwm`: high-water marks with memtable contents inserted in ARBITRARY sequence-number order (concurrent
//! writers that drew their seqnos from the shared counter may insert in any order relative to each other and to a
//! rotation). Real tree vs (a) the model's marks on the same memtable contents (driver `rawwrite` / `rotate` /
//! `hwm`) and (b) an independent oracle: the maxima of what was inserted and not yet flushed / what was flushed.

use crate::util::*;
use lsm_tree::{AbstractTree, Config, SequenceNumberCounter};

fn show(o: Option<u64>) -> String {
    o.map_or("-".into(), |n| n.to_string())
}

pub fn hwm(seed: u64, cases: u64, st: &mut Stats, drv: &mut Drv) {
    let mut rng = Rng::new(seed ^ 0x4877_6d);
    for case in 0..cases {
        let dir = tempfile::tempdir().unwrap();
        let tree = Config::new(dir.path(), SequenceNumberCounter::default(), SequenceNumberCounter::default()).open().unwrap();
        let lsm_tree::AnyTree::Standard(t) = &tree else { unreachable!() };
        drv.ask("new levels=7");
        let nops = 2 + rng.below(14);
        let mut used = std::collections::BTreeSet::new();
        // oracle: seqnos per unflushed memtable (last = active), flushed seqnos
        let mut mems: Vec<Vec<u64>> = vec![vec![]];
        let mut persisted: Option<u64> = None;
        let mut log = vec![];
        let mut ooo = false;
        let mut rotated_nonempty = false;
        for _ in 0..nops {
            match rng.below(10) {
                0..=5 => {
                    // out-of-order seqnos from a small window
                    let s = loop {
                        let s = rng.below(24);
                        if used.insert(s) { break s; }
                        if used.len() >= 24 { break 24 + used.len() as u64; }
                    };
                    used.insert(s);
                    let k = vec![b'a' + rng.below(4) as u8];
                    let e = if rng.chance(1, 4) {
                        t.remove(k.clone(), s);
                        Ent { key: k, seqno: s, vt: 1, val: vec![] }
                    } else {
                        t.insert(k.clone(), b"v".to_vec(), s);
                        Ent { key: k, seqno: s, vt: 0, val: b"v".to_vec() }
                    };
                    if mems.iter().flatten().any(|x| *x > s) { ooo = true; }
                    mems.last_mut().unwrap().push(s);
                    let r = drv.ask(&format!("rawwrite es={}", show_ents(&[e])));
                    log.push(format!("insert seqno={s}"));
                    if r.starts_with("reject") || r.starts_with("bad") {
                        st.disagreements.push(format!("hwm case {case}: model answers `{r}` to rawwrite; history {}", log.join(" ; ")));
                    }
                }
                6..=8 => {
                    let next_mem = t.0.memtable_id_counter.get();
                    if t.rotate_memtable().is_some() {
                        if mems.last().is_some_and(|m| !m.is_empty()) { rotated_nonempty = true; }
                        mems.push(vec![]);
                        drv.ask(&format!("rotate mem={next_mem}"));
                        log.push("rotate".into());
                    }
                }
                _ => {
                    // flush everything (real side only; the model keeps no tables here, the persisted mark is judged by the oracle)
                    if mems.iter().any(|m| !m.is_empty()) {
                        t.flush_active_memtable(0).unwrap();
                        let mx = mems.iter().flatten().copied().max();
                        persisted = persisted.max(mx);
                        mems = vec![vec![]];
                        drv.ask("new levels=7");
                        log.push("flush-all".into());
                    }
                }
            }
            st.evaluations += 1;
            let real_m = t.get_highest_memtable_seqno();
            let real_p = t.get_highest_persisted_seqno();
            let real_all = t.get_highest_seqno();
            let want_m = mems.iter().flatten().copied().max();
            if real_m != want_m {
                st.oracle_failures.push(format!("C18 hwm case {case}: get_highest_memtable_seqno = {} but the largest seqno in memtables is {}; history: {}", show(real_m), show(want_m), log.join(" ; ")));
            }
            if real_p != persisted {
                st.oracle_failures.push(format!("C18 hwm case {case}: get_highest_persisted_seqno = {} but the largest flushed seqno is {}; history: {}", show(real_p), show(persisted), log.join(" ; ")));
            }
            if real_all != want_m.max(persisted) {
                st.oracle_failures.push(format!("C18 hwm case {case}: get_highest_seqno = {} but the largest stored seqno is {}; history: {}", show(real_all), show(want_m.max(persisted)), log.join(" ; ")));
            }
            let reply = drv.ask("hwm");
            let model_m = reply.split(' ').find_map(|f| f.strip_prefix("memtable=")).unwrap_or("?").to_string();
            if model_m != show(real_m) {
                st.disagreements.push(format!("hwm case {case}: memtable mark: implementation {} model {model_m}; history: {}", show(real_m), log.join(" ; ")));
            }
        }
        if ooo { st.count("hwm.out_of_order_insert"); }
        if rotated_nonempty { st.count("hwm.sealed_nonempty"); }
        if ooo && rotated_nonempty {
            st.nontrivial_case(&log.join(";"));
        }
        if case < 2 { st.sample(format!("hwm: {}", log.join(" ; "))); }
    }
}

/// I-A `bigblob`: blob files beyond 2^24 bytes (where f32 arithmetic no longer distinguishes neighbouring byte counts):
/// one huge value and one tiny value share a blob file, the huge one is overwritten and collected; the file is then
/// ALMOST entirely garbage but not dead, so it must stay (or be relocated) and the tiny value must stay readable, its
/// garbage statistics must be exact and `stale_blob_bytes` must report them. Oracle only (sizes are parameters, not logic).
pub fn bigblob(seed: u64, cases: u64, st: &mut Stats) {
    let mut rng = Rng::new(seed ^ 0x6269_6762);
    for case in 0..cases.max(1) {
        // sizes at which `huge` and `huge + tiny` round to the same f32 (spacing 2 above 2^24, 4 above 2^25), and some that do not
        let (huge, tiny) = match case % 6 {
            0 => (20_000_000usize, 1usize),
            1 => ((1 << 25) + 4, 2),
            2 => ((1 << 24) + 2, 1),
            3 => (17_000_000, 1),
            4 => ((1 << 25) + 8, 1),
            _ => (*rng.pick(&[(1usize << 24) + 1, 17_000_001, 20_000_003]), 1 + rng.below(3) as usize),
        };
        let r = std::panic::catch_unwind(std::panic::AssertUnwindSafe(|| -> Result<(), String> {
            let dir = tempfile::tempdir_in(crate::scratch_root()).unwrap();
            let seqno = SequenceNumberCounter::default();
            let tree = Config::new(dir.path(), seqno.clone(), SequenceNumberCounter::default())
                .with_kv_separation(Some(lsm_tree::KvSeparationOptions::default().separation_threshold(1).file_target_size(1 << 30).staleness_threshold(0.9).age_cutoff(1.0).compression(lsm_tree::CompressionType::None)))
                .open()
                .map_err(|e| format!("open: {e:?}"))?;
            let e = |x: lsm_tree::Error| format!("{x:?}");
            tree.insert("big", vec![b'B'; huge], seqno.next());
            tree.insert("tiny", vec![b't'; tiny], seqno.next());
            tree.flush_active_memtable(0).map_err(e)?;
            tree.insert("big", vec![b'b'; 2], seqno.next());
            tree.flush_active_memtable(0).map_err(e)?;
            // collects big@0: the first blob file is now `huge` bytes of garbage and `tiny` live bytes
            tree.major_compact(u64::MAX, seqno.get()).map_err(e)?;
            let stale = tree.stale_blob_bytes();
            if stale != huge as u64 && stale != 0 {
                return Err(format!("stale_blob_bytes = {stale} after collecting one blob of {huge} bytes (0 if the file was rewritten)"));
            }
            // the next compaction decides about that blob file (dead? stale enough to rewrite?)
            tree.insert("other", vec![b'o'; 3], seqno.next());
            tree.flush_active_memtable(0).map_err(e)?;
            tree.major_compact(u64::MAX, seqno.get()).map_err(e)?;
            for (k, want) in [("tiny", vec![b't'; tiny]), ("big", vec![b'b'; 2]), ("other", vec![b'o'; 3])] {
                let got = tree.get(k, lsm_tree::SeqNo::MAX).map_err(e)?;
                if got.as_deref() != Some(&want[..]) {
                    return Err(format!("get({k}) = {:?} bytes, expected {} bytes", got.map(|v| v.len()), want.len()));
                }
            }
            drop(tree);
            let t2 = Config::new(dir.path(), seqno.clone(), SequenceNumberCounter::default())
                .with_kv_separation(Some(lsm_tree::KvSeparationOptions::default().separation_threshold(1)))
                .open()
                .map_err(|e| format!("reopen: {e:?}"))?;
            if t2.get("tiny", lsm_tree::SeqNo::MAX).map_err(e)?.as_deref() != Some(&vec![b't'; tiny][..]) {
                return Err("get(tiny) differs after reopen".into());
            }
            Ok(())
        }));
        st.evaluations += 1;
        st.nontrivial_case(&format!("{huge}/{tiny}"));
        st.count(&format!("bigblob.huge={huge}"));
        match r {
            Ok(Ok(())) => {}
            Ok(Err(m)) => st.oracle_failures.push(format!("C09 bigblob case {case}: a blob file holding one {huge}-byte blob (garbage) and one {tiny}-byte blob (live): {m}")),
            Err(p) => st.oracle_failures.push(format!("C09 bigblob case {case}: a blob file holding one {huge}-byte blob (garbage) and one {tiny}-byte blob (live): panic: {}", p.downcast_ref::<String>().cloned().or_else(|| p.downcast_ref::<&str>().map(|s| s.to_string())).unwrap_or_default())),
        }
    }
}
