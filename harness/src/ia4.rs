//! I-A `hwm`: high-water marks with memtable contents inserted in ARBITRARY sequence-number order (concurrent
//! writers that drew their seqnos from the shared counter may insert in any order relative to each other and to a
//! rotation). Real tree vs (a) the model's marks on the same memtable contents (driver `rawwrite` / `rotate` /
//! `hwm`) and (b) an independent oracle: the maxima of what was inserted and not yet flushed / what was flushed.

use crate::util::*;
use lsm_tree::{AbstractTree, Config, SequenceNumberCounter};

fn show(o: Option<u64>) -> String {
    o.map_or("-".into(), |n| n.to_string())
}

pub fn hwm(seed: u64, cases: u64, st: &mut Stats, drv: &mut Drv) {
    let mut rng = Rng::new(seed ^ 0x4877_6d);
    for case in 0..cases {
        let dir = tempfile::tempdir().unwrap();
        let tree = Config::new(dir.path(), SequenceNumberCounter::default(), SequenceNumberCounter::default()).open().unwrap();
        let lsm_tree::AnyTree::Standard(t) = &tree else { unreachable!() };
        drv.ask("new levels=7");
        let nops = 2 + rng.below(14);
        let mut used = std::collections::BTreeSet::new();
        // oracle: seqnos per unflushed memtable (last = active), flushed seqnos
        let mut mems: Vec<Vec<u64>> = vec![vec![]];
        let mut persisted: Option<u64> = None;
        let mut log = vec![];
        let mut ooo = false;
        let mut rotated_nonempty = false;
        for _ in 0..nops {
            match rng.below(10) {
                0..=5 => {
                    // out-of-order seqnos from a small window
                    let s = loop {
                        let s = rng.below(24);
                        if used.insert(s) { break s; }
                        if used.len() >= 24 { break 24 + used.len() as u64; }
                    };
                    used.insert(s);
                    let k = vec![b'a' + rng.below(4) as u8];
                    let e = if rng.chance(1, 4) {
                        t.remove(k.clone(), s);
                        Ent { key: k, seqno: s, vt: 1, val: vec![] }
                    } else {
                        t.insert(k.clone(), b"v".to_vec(), s);
                        Ent { key: k, seqno: s, vt: 0, val: b"v".to_vec() }
                    };
                    if mems.iter().flatten().any(|x| *x > s) { ooo = true; }
                    mems.last_mut().unwrap().push(s);
                    let r = drv.ask(&format!("rawwrite es={}", show_ents(&[e])));
                    log.push(format!("insert seqno={s}"));
                    if r.starts_with("reject") || r.starts_with("bad") {
                        st.disagreements.push(format!("hwm case {case}: model answers `{r}` to rawwrite; history {}", log.join(" ; ")));
                    }
                }
                6..=8 => {
                    let next_mem = t.0.memtable_id_counter.get();
                    if t.rotate_memtable().is_some() {
                        if mems.last().is_some_and(|m| !m.is_empty()) { rotated_nonempty = true; }
                        mems.push(vec![]);
                        drv.ask(&format!("rotate mem={next_mem}"));
                        log.push("rotate".into());
                    }
                }
                _ => {
                    // flush everything (real side only; the model keeps no tables here, the persisted mark is judged by the oracle)
                    if mems.iter().any(|m| !m.is_empty()) {
                        t.flush_active_memtable(0).unwrap();
                        let mx = mems.iter().flatten().copied().max();
                        persisted = persisted.max(mx);
                        mems = vec![vec![]];
                        drv.ask("new levels=7");
                        log.push("flush-all".into());
                    }
                }
            }
            st.evaluations += 1;
            let real_m = t.get_highest_memtable_seqno();
            let real_p = t.get_highest_persisted_seqno();
            let real_all = t.get_highest_seqno();
            let want_m = mems.iter().flatten().copied().max();
            if real_m != want_m {
                st.oracle_failures.push(format!("C18 hwm case {case}: get_highest_memtable_seqno = {} but the largest seqno in memtables is {}; history: {}", show(real_m), show(want_m), log.join(" ; ")));
            }
            if real_p != persisted {
                st.oracle_failures.push(format!("C18 hwm case {case}: get_highest_persisted_seqno = {} but the largest flushed seqno is {}; history: {}", show(real_p), show(persisted), log.join(" ; ")));
            }
            if real_all != want_m.max(persisted) {
                st.oracle_failures.push(format!("C18 hwm case {case}: get_highest_seqno = {} but the largest stored seqno is {}; history: {}", show(real_all), show(want_m.max(persisted)), log.join(" ; ")));
            }
            let reply = drv.ask("hwm");
            let model_m = reply.split(' ').find_map(|f| f.strip_prefix("memtable=")).unwrap_or("?").to_string();
            if model_m != show(real_m) {
                st.disagreements.push(format!("hwm case {case}: memtable mark: implementation {} model {model_m}; history: {}", show(real_m), log.join(" ; ")));
            }
        }
        if ooo { st.count("hwm.out_of_order_insert"); }
        if rotated_nonempty { st.count("hwm.sealed_nonempty"); }
        if ooo && rotated_nonempty {
            st.nontrivial_case(&log.join(";"));
        }
        if case < 2 { st.sample(format!("hwm: {}", log.join(" ; "))); }
    }
}
