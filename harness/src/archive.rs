//! Instrument I-A, `ia archive`: the sfa archive layout (sections ++ ToC ++ trailer) of table / blob / version files —
//! the real `sfa` writer and reader against `LsmModel.Fs.Archive` (through `lsmdrv`, protocol in `Driver/ArchiveDrv.lean`).
//!
//!   synthetic archives   random section lists through `sfa::Writer` (layout, `mkarchive`) and `sfa::Reader` (`archive`)
//!   real files           tables written by `table::Writer`, and the `v<N>`, table and blob files of a flushed tree
//!   probes per file      intact; EVERY byte of ToC + trailer replaced (1-3 values each); sampled body bytes; truncation at
//!                        every length (small files) or a boundary-biased sample; a few appended-garbage variants
//!
//! The ok/error class must agree (Io / InvalidHeader / InvalidVersion / UnsupportedChecksumType / ChecksumMismatch) and on
//! success the ToC entries (name, pos, len).  The one hash VALUE the model needs (xxh3-128 of the byte range the reader
//! hashes, which the MODEL names via `needhash off= len=`) comes from the real code (`Block::write_into`).
//!
//! Finding F10 guard: the real reader does `Vec::with_capacity(count)` before verifying the ToC checksum.  A probe whose model
//! answer carries `alloc=` above `ALLOC_GUARD`, or that alters one of the 3 high bytes of the count field, is NOT run on the
//! real side (counted as `archive.f10.real_side_skipped`); the model's `alloc=` is recorded (`archive.f10.model_alloc_*`).
use crate::util::*;
use lsm_tree::table::{Block, Writer};
use lsm_tree::{AbstractTree, CompressionType, Config, SequenceNumberCounter};
use std::io::{Cursor, Write};
use std::panic::{catch_unwind, AssertUnwindSafe};
use std::path::Path;

const ALLOC_GUARD: u64 = 1 << 16;
const TRAILER: usize = 38;

fn clip(s: &str, n: usize) -> String {
    if s.len() <= n {
        s.to_string()
    } else {
        format!("{}…[{} chars]", &s[..n], s.len())
    }
}

fn mismatch(st: &mut Stats, what: &str, ctx: &str, req: &str, detail: &str) {
    st.disagreements.push(format!("{what}: {ctx}: {detail}; request `{}`", clip(req, 6000)));
}

/// xxh3-128 of `data` as its 16 little-endian bytes — cut out of a header produced by the real block writer
fn real_h128(data: &[u8]) -> Vec<u8> {
    let mut v = vec![];
    Block::write_into(&mut v, data, lsm_tree::table::block::BlockType::Meta, CompressionType::None).unwrap();
    v[5..21].to_vec()
}

fn class_of(e: &sfa::Error) -> &'static str {
    match e {
        sfa::Error::Io(_) => "Io",
        sfa::Error::InvalidHeader => "InvalidHeader",
        sfa::Error::InvalidVersion => "InvalidVersion",
        sfa::Error::UnsupportedChecksumType => "UnsupportedChecksumType",
        sfa::Error::ChecksumMismatch { .. } => "ChecksumMismatch",
    }
}

fn show_toc(r: &sfa::Reader) -> String {
    let v: Vec<String> = r.toc().iter().map(|e| format!("{}:{}:{}", hex(e.name()), e.pos(), e.len())).collect();
    format!("ok entries={}", v.join(","))
}

/// the real reader on `bytes`: through a `Cursor`, or (every 4th probe) through a file and `Reader::new`
fn real_decode(bytes: &[u8], via_file: Option<&Path>) -> String {
    let r = catch_unwind(AssertUnwindSafe(|| match via_file {
        Some(p) => {
            std::fs::write(p, bytes).unwrap();
            sfa::Reader::new(p)
        }
        None => sfa::Reader::from_reader(&mut Cursor::new(bytes)),
    }));
    match r {
        Ok(Ok(rd)) => show_toc(&rd),
        Ok(Err(e)) => format!("err {}", class_of(&e)),
        Err(_) => "panic".into(),
    }
}

/// the model on `bytes`: phase 1 asks which range is hashed, phase 2 supplies the real hash of that range.
/// Returns (alloc field, answer without the alloc field, the replayable request).
fn model_decode(drv: &mut Drv, st: &mut Stats, bytes: &[u8]) -> (Option<u64>, String, String) {
    let hx = hex(bytes);
    let req1 = format!("archive bytes={hx}");
    let a1 = drv.ask(&req1);
    st.evaluations += 1;
    let (ans, req) = if let Some(rest) = a1.strip_prefix("needhash ") {
        let mut off = 0usize;
        let mut len = 0usize;
        for t in rest.split(' ') {
            if let Some(v) = t.strip_prefix("off=") {
                off = v.parse().unwrap();
            }
            if let Some(v) = t.strip_prefix("len=") {
                len = v.parse().unwrap();
            }
        }
        st.count("archive.model.reached_checksum_comparison");
        let ht = real_h128(&bytes[off..off + len]);
        let req2 = format!("archive bytes={hx} ht={}", hex(&ht));
        (drv.ask(&req2), req2)
    } else {
        (a1, req1)
    };
    let (alloc, rest) = match ans.split_once(' ') {
        Some((a, r)) if a.starts_with("alloc=") => (a[6..].parse::<u64>().ok(), r.to_string()),
        _ => (None, ans.clone()),
    };
    (alloc, rest, req)
}

struct Probe<'a> {
    kind: &'a str,
    ctx: String,
    /// position altered, if a single byte was replaced
    pos: Option<usize>,
}

/// one probe: model vs real on `bytes`. `count_field` = file offsets of the ToC count field (4 bytes) of the INTACT file.
fn probe(drv: &mut Drv, st: &mut Stats, bytes: &[u8], pr: &Probe, count_field: Option<usize>, tmp: &Path, n: &mut u64) -> String {
    *n += 1;
    st.count(&format!("archive.probe.{}", pr.kind));
    let (alloc, model, req) = model_decode(drv, st, bytes);
    if let Some(a) = alloc {
        st.count("archive.f10.model_alloc_reported_before_checksum");
        if model.starts_with("err") {
            st.count("archive.f10.model_alloc_then_error");
        }
        if a > ALLOC_GUARD {
            st.count("archive.f10.model_alloc_above_guard");
        }
    }
    let high_count_byte = matches!((pr.pos, count_field), (Some(p), Some(c)) if p > c && p < c + 4);
    if high_count_byte {
        st.count("archive.f10.count_high_byte_probe");
        if alloc.is_none() {
            mismatch(st, "archive/F10", &pr.ctx, &req, "model does not report the count as consumed for a probe that alters the count field");
        }
    }
    if high_count_byte || alloc.map_or(false, |a| a > ALLOC_GUARD) {
        st.count("archive.f10.real_side_skipped");
        return model;
    }
    let via_file = *n % 4 == 0;
    let real = real_decode(bytes, if via_file { Some(tmp) } else { None });
    st.count(&format!("archive.result.{}", real.split('=').next().unwrap_or("?").replace(' ', "_")));
    if real != model {
        mismatch(st, "sfa::Reader", &pr.ctx, &req, &format!("implementation `{}` model `{}`", clip(&real, 400), clip(&model, 400)));
    }
    model
}

/// all probes for one intact archive file
fn probe_file(drv: &mut Drv, st: &mut Stats, rng: &mut Rng, file: &[u8], what: &str, tmp: &Path) {
    let mut n = 0u64;
    let len = file.len();
    st.count(&format!("archive.files.{what}"));
    st.add("archive.file_bytes", len as u64);
    // intact
    let intact = probe(drv, st, file, &Probe { kind: "intact", ctx: format!("{what} intact"), pos: None }, None, tmp, &mut n);
    if !intact.starts_with("ok") {
        mismatch(st, "archive", what, &format!("archive bytes={}", hex(file)), &format!("intact file does not decode in the model: {intact}"));
        return;
    }
    let toc_pos = u64::from_le_bytes(file[len - 16..len - 8].try_into().unwrap()) as usize;
    let count_field = toc_pos + 4;
    // every byte of ToC + trailer
    for p in toc_pos..len {
        let old = file[p];
        let mut vals = vec![loop {
            let v = rng.below(256) as u8;
            if v != old {
                break v;
            }
        }];
        if rng.chance(1, 3) {
            vals.push(old ^ 1);
        }
        if rng.chance(1, 6) {
            vals.push(old ^ 0x80);
        }
        vals.dedup();
        for v in vals {
            let mut m = file.to_vec();
            m[p] = v;
            let region = if p < len - TRAILER {
                "toc"
            } else {
                match p - (len - TRAILER) {
                    0..=3 => "trailer.magic",
                    4 => "trailer.version",
                    5 => "trailer.cktype",
                    6..=21 => "trailer.checksum",
                    22..=29 => "trailer.tocpos",
                    _ => "trailer.toclen",
                }
            };
            let r = probe(drv, st, &m, &Probe { kind: &format!("flip.{region}"), ctx: format!("{what} byte {p} ({region}) {old:#04x}->{v:#04x}"), pos: Some(p) }, Some(count_field), tmp, &mut n);
            // coverage oracle: a flip in ToC/trailer is an error, EXCEPT in the never-read toc_len field where it is the intact answer
            if region == "trailer.toclen" {
                if r != intact {
                    mismatch(st, "archive/coverage", what, &format!("archive bytes={}", hex(&m)), &format!("flip in toc_len changed the answer: {r}"));
                }
                st.count("archive.undetected_flip.toc_len(same_entries)");
            } else if r.starts_with("ok") {
                if r == intact {
                    st.count("archive.undetected_flip.other(same_entries)");
                    st.sample(format!("{what}: undetected flip at byte {p} ({region}), same entries"));
                } else {
                    st.oracle_failures.push(format!("C10file {what}: flip at byte {p} ({region}) accepted with DIFFERENT entries: {r}"));
                }
            } else {
                st.count("archive.flip_detected");
            }
        }
    }
    // sampled body bytes: the archive layer does not look at them
    for _ in 0..6.min(toc_pos) {
        let p = rng.below(toc_pos as u64) as usize;
        let mut m = file.to_vec();
        m[p] ^= 1 + rng.below(255) as u8;
        let r = probe(drv, st, &m, &Probe { kind: "flip.body", ctx: format!("{what} body byte {p}"), pos: Some(p) }, Some(count_field), tmp, &mut n);
        if r != intact {
            mismatch(st, "archive/coverage", what, &format!("archive bytes={}", hex(&m)), "flip in a section payload changed the ToC answer");
        }
    }
    // truncations
    let cuts: Vec<usize> = if len <= 400 {
        (0..len).collect()
    } else {
        let mut c: Vec<usize> = vec![0, 1, 37, 38, 39, len - 1, len - 2, len - 8, len - 9, len - 37, len - 38, len - 39, toc_pos, toc_pos + 1, toc_pos + 4, toc_pos + 8, toc_pos.saturating_sub(1)];
        for _ in 0..40 {
            c.push(rng.below(len as u64) as usize);
        }
        c.sort();
        c.dedup();
        c.retain(|x| *x < len);
        c
    };
    for c in cuts {
        let r = probe(drv, st, &file[..c], &Probe { kind: "truncate", ctx: format!("{what} truncated to {c} of {len}"), pos: None }, None, tmp, &mut n);
        if r.starts_with("ok") {
            st.oracle_failures.push(format!("C10file {what}: truncation to {c} of {len} bytes accepted: {r}"));
        } else {
            st.count("archive.truncation_detected");
        }
    }
    // appended garbage
    for _ in 0..2 {
        let mut m = file.to_vec();
        for _ in 0..1 + rng.below(50) {
            m.push(rng.below(256) as u8);
        }
        probe(drv, st, &m, &Probe { kind: "append", ctx: format!("{what} + {} appended bytes", m.len() - len), pos: None }, None, tmp, &mut n);
    }
}

fn gen_sections(rng: &mut Rng, st: &mut Stats) -> Vec<(Vec<u8>, Vec<u8>)> {
    let n = match rng.below(10) {
        0 => 0,
        1 => 1,
        _ => 1 + rng.below(7) as usize,
    };
    let names: [&[u8]; 10] = [b"data", b"tli", b"index", b"filter", b"meta", b"table_version", b"", b"x", b"linked_blob_files", b"TOC!"];
    let mut v = vec![];
    for i in 0..n {
        let name = match rng.below(8) {
            0 => (0..rng.below(300)).map(|_| rng.below(256) as u8).collect(),
            1 if i > 0 => {
                st.count("archive.gen.duplicate_name");
                let (nm, _): &(Vec<u8>, Vec<u8>) = &v[rng.below(i as u64) as usize];
                nm.clone()
            }
            _ => rng.pick(&names).to_vec(),
        };
        let plen = match rng.below(8) {
            0 | 1 => 0,
            2 => 1,
            3 => 38,
            _ => rng.below(120) as usize,
        };
        if plen == 0 {
            st.count(if v.iter().all(|(_, b): &(Vec<u8>, Vec<u8>)| b.is_empty()) { "archive.gen.empty_section_at_pos0" } else { "archive.gen.empty_section_later" });
        }
        let payload: Vec<u8> = if rng.chance(1, 12) {
            // a payload that looks like a ToC / trailer
            st.count("archive.gen.payload_looks_like_toc");
            let mut p = b"TOC!".to_vec();
            p.extend_from_slice(&(rng.below(3) as u32).to_le_bytes());
            p.extend_from_slice(b"SFA!\x01\x00");
            p
        } else {
            (0..plen).map(|_| rng.below(256) as u8).collect()
        };
        v.push((name, payload));
    }
    v
}

fn real_archive(sections: &[(Vec<u8>, Vec<u8>)]) -> Vec<u8> {
    let mut w = sfa::Writer::from_writer(Cursor::new(Vec::new()));
    for (n, b) in sections {
        w.start(n.clone()).unwrap();
        w.write_all(b).unwrap();
    }
    w.into_inner().unwrap().into_inner()
}

/// layout comparison: the model's `encodeArchive` against the bytes of the real file, given the section list
fn compare_layout(drv: &mut Drv, st: &mut Stats, sections: &[(Vec<u8>, Vec<u8>)], file: &[u8], ctx: &str) {
    let len = file.len();
    if len < TRAILER {
        mismatch(st, "sfa::Writer", ctx, "-", "real archive shorter than a trailer");
        return;
    }
    let body: usize = sections.iter().map(|(_, b)| b.len()).sum();
    // the ToC bytes as the writer is SUPPOSED to lay them out: from the end of the payloads to the trailer
    let ht = real_h128(&file[body.min(len - TRAILER)..len - TRAILER]);
    let secs = if sections.is_empty() { "-".to_string() } else { sections.iter().map(|(n, b)| format!("{}:{}", hex(n), hex(b))).collect::<Vec<_>>().join(",") };
    let req = format!("mkarchive sections={secs} ht={}", hex(&ht));
    let model = drv.ask(&req);
    st.evaluations += 1;
    let imp = format!("bytes={}", hex(file));
    if imp != model {
        mismatch(st, "sfa::Writer", ctx, &req, &format!("implementation `{}` model `{}`", clip(&imp, 600), clip(&model, 600)));
    } else {
        st.count("archive.layout_equal");
    }
}

/// section payloads of a real file according to its own (real) ToC, in ToC order
fn real_sections(file: &[u8]) -> Option<Vec<(Vec<u8>, Vec<u8>)>> {
    let r = sfa::Reader::from_reader(&mut Cursor::new(file)).ok()?;
    let mut v = vec![];
    for e in r.toc().iter() {
        let (p, l) = (e.pos() as usize, e.len() as usize);
        v.push((e.name().to_vec(), file.get(p..p + l)?.to_vec()));
    }
    Some(v)
}

/// table files: `parseRegions` and the region map against the real ToC
fn table_checks(drv: &mut Drv, st: &mut Stats, file: &[u8], ctx: &str) {
    let Ok(r) = sfa::Reader::from_reader(&mut Cursor::new(file)) else { return };
    let toc = r.toc();
    let sh = |n: &[u8]| toc.section(n).map_or("-".to_string(), |e| format!("{}:{}", e.pos(), e.len()));
    let len = file.len();
    let toc_pos = u64::from_le_bytes(file[len - 16..len - 8].try_into().unwrap()) as usize;
    let ht = real_h128(&file[toc_pos..len - TRAILER]);
    let req = format!("regions bytes={} ht={}", hex(file), hex(&ht));
    let model = drv.ask(&req);
    st.evaluations += 1;
    let imp = format!("ok tli={} meta={} index={} filter={} filter_tli={} linked={}", sh(b"tli"), sh(b"meta"), sh(b"index"), sh(b"filter"), sh(b"filter_tli"), sh(b"linked_blob_files"));
    if imp != model {
        mismatch(st, "ParsedRegions", ctx, &req, &format!("real ToC lookups `{imp}` model `{model}`"));
    } else {
        st.count("archive.table.regions_equal");
    }
    // region map (full index, full/no filter, no linked blob files): data frames walked by their headers
    let names: Vec<&[u8]> = toc.iter().map(|e| e.name()).collect();
    let simple = names == [&b"data"[..], b"tli", b"filter", b"table_version", b"meta"] || names == [&b"data"[..], b"tli", b"table_version", b"meta"];
    if !simple {
        st.count("archive.table.layout_other(partitioned_or_linked)");
        return;
    }
    st.count("archive.table.layout_simple");
    let data = toc.section(b"data").unwrap();
    let mut frames = vec![];
    let mut p = 0usize;
    while p < data.len() as usize {
        let dl = u32::from_le_bytes(file[p + 21..p + 25].try_into().unwrap()) as usize;
        frames.push(33 + dl);
        p += 33 + dl;
    }
    let tli = toc.section(b"tli").unwrap().len();
    let meta = toc.section(b"meta").unwrap().len();
    let filter = toc.section(b"filter").map(|e| e.len());
    let req = format!("regionmap data={} tli={tli} filter={} meta={meta}", frames.iter().map(|x| x.to_string()).collect::<Vec<_>>().join(","), filter.map_or("-".into(), |x| x.to_string()));
    let model = drv.ask(&req);
    st.evaluations += 1;
    let mut runs: Vec<String> = frames.iter().enumerate().map(|(i, s)| format!("data{i}:{s}")).collect();
    runs.push(format!("tli:{tli}"));
    if let Some(f) = filter {
        runs.push(format!("filter:{f}"));
    }
    runs.push("table_version:1".into());
    runs.push(format!("meta:{meta}"));
    runs.push(format!("toc:{}", len - TRAILER - toc_pos));
    runs.push("t.magic:4,t.version:1,t.cktype:1,t.checksum:16,t.tocpos:8,t.toclen:8,none:1".into());
    let imp = format!("len={len} map={}", runs.join(","));
    if imp != model || p != data.len() as usize {
        mismatch(st, "regionOf", ctx, &req, &format!("real file `{}` model `{}`", clip(&imp, 500), clip(&model, 500)));
    } else {
        st.count("archive.table.regionmap_equal");
    }
}

fn real_table(rng: &mut Rng, dir: &Path, id: u64, st: &mut Stats) -> Vec<u8> {
    let path = dir.join(format!("t{id}"));
    let mut w = Writer::new(path.clone(), id, 0).unwrap().use_data_block_size(*rng.pick(&[1u32, 64, 4096]));
    let part_index = rng.chance(1, 4);
    let part_filter = rng.chance(1, 4);
    let no_filter = rng.chance(1, 4);
    if part_index {
        w = w.use_partitioned_index();
        st.count("archive.table.partitioned_index");
    }
    if part_filter {
        w = w.use_partitioned_filter();
        st.count("archive.table.partitioned_filter");
    }
    if no_filter {
        w = w.use_bloom_policy(lsm_tree::table::filter::BloomConstructionPolicy::BitsPerKey(0.0));
        st.count("archive.table.no_filter");
    }
    let n = 1 + rng.below(5);
    for i in 0..n {
        let key = format!("k{i:03}").into_bytes();
        let val: Vec<u8> = (0..rng.below(12)).map(|_| rng.below(256) as u8).collect();
        w.write(lsm_tree::InternalValue::from_components(key, val, n - i, lsm_tree::ValueType::Value)).unwrap();
    }
    w.finish().unwrap().expect("non-empty table");
    let bytes = std::fs::read(&path).unwrap();
    let _ = std::fs::remove_file(&path);
    bytes
}

fn walk(dir: &Path, out: &mut Vec<std::path::PathBuf>) {
    for e in std::fs::read_dir(dir).unwrap().flatten() {
        let p = e.path();
        if p.is_dir() {
            walk(&p, out);
        } else {
            out.push(p);
        }
    }
}

/// the archive files of a small flushed tree: (kind, bytes)
fn tree_files(rng: &mut Rng, dir: &Path, st: &mut Stats) -> Vec<(String, Vec<u8>)> {
    let root = dir.join(format!("tree{}", rng.next()));
    let seqno = SequenceNumberCounter::default();
    let vis = SequenceNumberCounter::default();
    let blob = rng.chance(2, 3);
    let mut conf = Config::new(&root, seqno.clone(), vis.clone()).data_block_size_policy(lsm_tree::config::BlockSizePolicy::all(64));
    if blob {
        conf = conf.with_kv_separation(Some(lsm_tree::KvSeparationOptions::default().separation_threshold(16).compression(CompressionType::None)));
    }
    let tree = conf.open().unwrap();
    let flushes = 1 + rng.below(2);
    for f in 0..flushes {
        for i in 0..1 + rng.below(4) {
            let s = seqno.next();
            let val: Vec<u8> = (0..if rng.chance(1, 2) { 40 + rng.below(20) } else { rng.below(8) }).map(|_| rng.below(256) as u8).collect();
            tree.insert(format!("key{f}{i}").into_bytes(), val, s);
            vis.fetch_max(s + 1);
        }
        tree.flush_active_memtable(0).unwrap();
    }
    drop(tree);
    let mut paths = vec![];
    walk(&root, &mut paths);
    let mut out = vec![];
    for p in paths {
        let name = p.file_name().unwrap().to_string_lossy().to_string();
        let parent = p.parent().and_then(|x| x.file_name()).map(|x| x.to_string_lossy().to_string()).unwrap_or_default();
        let kind = if parent == "tables" {
            "tree_table"
        } else if parent == "blobs" {
            "blob_file"
        } else if name.starts_with('v') && name[1..].chars().all(|c| c.is_ascii_digit()) && name.len() > 1 {
            "version_file"
        } else {
            st.count("archive.tree.other_file_skipped");
            continue;
        };
        let bytes = std::fs::read(&p).unwrap();
        if bytes.len() > 6000 {
            st.count("archive.tree.file_too_large_skipped");
            continue;
        }
        out.push((kind.to_string(), bytes));
    }
    let _ = std::fs::remove_dir_all(&root);
    out
}

/// expected section names, in order, per kind of file (what the writers in /repo emit)
fn check_names(st: &mut Stats, kind: &str, file: &[u8], ctx: &str) {
    let Some(secs) = real_sections(file) else { return };
    let names: Vec<String> = secs.iter().map(|(n, _)| String::from_utf8_lossy(n).to_string()).collect();
    let joined = names.join(",");
    let ok = match kind {
        "version_file" => joined == "format_version,crate_version,tree_type,level_count,filter_hash_type,tables,blob_files,blob_gc_stats",
        "blob_file" => joined == "data,meta",
        _ => {
            let allowed = ["data", "index", "tli", "filter", "filter_tli", "linked_blob_files", "table_version", "meta"];
            let mut it = allowed.iter();
            names.iter().all(|n| it.any(|a| a == n)) && names.first().map(String::as_str) == Some("data") && names.last().map(String::as_str) == Some("meta")
        }
    };
    st.count(&format!("archive.sections.{kind}=[{joined}]"));
    if !ok {
        st.oracle_failures.push(format!("archive {ctx}: unexpected section list of a {kind}: [{joined}]"));
    }
}

/// directed: a section payload that is itself a complete archive. Cutting the outer file right after it leaves a byte string
/// that IS a well-formed archive (of the inner sections): truncation is not detectable at the sfa level when payloads may
/// contain trailer images (`Props/C10file.lean`: `c10file_truncation_embedded_archive_accepted`). Model and real reader
/// must agree that the cut file decodes, with the INNER entries.
fn embedded_archive(drv: &mut Drv, st: &mut Stats, rng: &mut Rng, tmp: &Path, case: u64) {
    let inner_secs = gen_sections(rng, st);
    let inner = real_archive(&inner_secs);
    let mut outer_secs = vec![(b"data".to_vec(), inner.clone())];
    if rng.chance(1, 2) {
        outer_secs.push((b"meta".to_vec(), (0..rng.below(20)).map(|_| rng.below(256) as u8).collect()));
    }
    let outer = real_archive(&outer_secs);
    let cut = &outer[..inner.len()];
    let mut n = 1u64;
    let r = probe(drv, st, cut, &Probe { kind: "directed.embedded_archive_cut", ctx: format!("case {case} outer archive cut after an embedded archive"), pos: None }, None, tmp, &mut n);
    let real_inner = real_decode(&inner, None);
    if r.starts_with("ok") && r == real_inner {
        st.count("archive.directed.truncation_after_embedded_archive_ACCEPTED(inner_entries)");
        // NOT reported as a finding: this is a synthetic sfa archive whose first payload is itself an archive image, cut exactly
        // behind it; model and real reader agree, and `c10file_truncation_*` state the exact condition under which a truncation is
        // an error. No lsm-tree file with this shape has been exhibited (DESIGN 13.10).
    } else {
        mismatch(st, "archive/embedded", &format!("case {case}"), &format!("archive bytes={}", hex(cut)), &format!("expected the inner entries, model says `{r}`, real inner `{real_inner}`"));
    }
}

pub fn run(drv: &mut Drv, st: &mut Stats, seed: u64, cases: u64) {
    let mut rng = Rng::new(seed ^ 0xa5c41fe);
    let dir = tempfile::tempdir_in(crate::scratch_root()).unwrap();
    let tmp = dir.path().join("probe.sfa");
    for case in 0..cases {
        st.count("archive.cases");
        if case % 16 == 5 {
            embedded_archive(drv, st, &mut rng, &tmp, case);
        }
        match case % 4 {
            0 | 1 => {
                let secs = gen_sections(&mut rng, st);
                let file = real_archive(&secs);
                let ctx = format!("case {case} synthetic ({} sections)", secs.len());
                compare_layout(drv, st, &secs, &file, &ctx);
                // round trip on the real side: the real ToC lists what the model's `tocEntries` lists (through `archive`)
                probe_file(drv, st, &mut rng, &file, "synthetic", &tmp);
            }
            2 => {
                let file = real_table(&mut rng, dir.path(), case, st);
                let ctx = format!("case {case} table::Writer file");
                check_names(st, "table", &file, &ctx);
                if let Some(secs) = real_sections(&file) {
                    compare_layout(drv, st, &secs, &file, &ctx);
                }
                table_checks(drv, st, &file, &ctx);
                probe_file(drv, st, &mut rng, &file, "table", &tmp);
            }
            _ => {
                for (kind, file) in tree_files(&mut rng, dir.path(), st) {
                    let ctx = format!("case {case} {kind}");
                    check_names(st, &kind, &file, &ctx);
                    if let Some(secs) = real_sections(&file) {
                        compare_layout(drv, st, &secs, &file, &ctx);
                    }
                    if kind == "tree_table" {
                        table_checks(drv, st, &file, &ctx);
                    }
                    probe_file(drv, st, &mut rng, &file, &kind, &tmp);
                }
            }
        }
    }
}
