//! Instrument I-A `manifest` (properties C04 / C07): the MANIFEST CODEC of the model (`LsmModel/Tree/Manifest.lean`,
//! driver requests of `Driver/ManifestDrv.lean`) against the version files real trees write and read.
//!
//! Part 1 (function level, no tree): `FragmentationMap::{encode_into, decode_from}` on generated maps (wide values,
//!   `len as u32` truncation) and on damaged payloads, against `mfrag` / `mencfrag` / `mfragmap`.
//! Part 2 (real trees, standard and key-value separated): generated histories (writes, flushes, leveled / major
//!   compactions, MoveDown, ingestion with a global seqno, drop_range, reopen).  For every published version
//!     (a) the model decoder applied to the REAL bytes of the sections "tables", "blob_files", "blob_gc_stats" of `v<N>`
//!         yields the structure the tree reports (ids per level / run in order, checksums, global seqnos; blob files
//!         and gc statistics as maps) and leaves nothing unread,
//!     (b) the model encoder applied to the structure the tree reports yields the real bytes (byte-exact; the map-valued
//!         sections in the record order of the file),
//!     (c) after drop + reopen the tree reports the same structure and the same file,
//!   failures of (a), (b) are oracle failures tagged C07, of (c) tagged C04.
//!   Then the version file of a COPY of the directory is replaced (sections damaged byte-wise, or re-encoded BY THE MODEL
//!   from an altered structure; `current` re-sealed with the right whole-file checksum) and the copy is opened: model
//!   decoder and real `recover` must agree on accept / reject and, when both accept, on the structure
//!   -> model/implementation disagreements.  With the original `current` (stale checksum) the real open must fail.
use crate::ib::index_tree;
use crate::util::*;
use lsm_tree::blob_tree::{FragmentationEntry, FragmentationMap};
use lsm_tree::coding::{Decode, Encode};
use lsm_tree::verif_api as va;
use lsm_tree::{AbstractTree, AnyTree, Config, SequenceNumberCounter};
use std::collections::{BTreeMap, BTreeSet};
use std::io::Write;
use std::ops::Bound;
use std::path::Path;
use std::sync::Arc;

type TRef = (u64, u128, u64); // id, checksum, global seqno
type BRef = (u64, u128); // id, checksum
type FRef = (u64, u64, u64, u64); // id, len, bytes, on-disk bytes

/// what a version says about the structure of the tree (`Manifest.VersionImage`); blobs and frag sorted by id
#[derive(Clone, Debug, PartialEq, Default)]
struct Img {
    levels: Vec<Vec<Vec<TRef>>>,
    blobs: Vec<BRef>,
    frag: Vec<FRef>,
}

// ------------------------------------------------------------------------------------------------ text forms

fn levels_text(l: &[Vec<Vec<TRef>>]) -> String {
    if l.is_empty() {
        return "-".into();
    }
    l.iter()
        .map(|lvl| {
            lvl.iter()
                .map(|run| if run.is_empty() { "~".to_string() } else { run.iter().map(|t| format!("{}:{:032x}:{}", t.0, t.1, t.2)).collect::<Vec<_>>().join(".") })
                .collect::<Vec<_>>()
                .join("|")
        })
        .collect::<Vec<_>>()
        .join("/")
}
fn parse_levels(s: &str) -> Option<Vec<Vec<Vec<TRef>>>> {
    if s == "-" {
        return Some(vec![]);
    }
    s.split('/')
        .map(|lvl| {
            if lvl.is_empty() {
                return Some(vec![]);
            }
            lvl.split('|')
                .map(|run| {
                    if run == "~" {
                        return Some(vec![]);
                    }
                    run.split('.')
                        .map(|t| {
                            let p: Vec<&str> = t.split(':').collect();
                            if p.len() != 3 {
                                return None;
                            }
                            Some((p[0].parse().ok()?, u128::from_str_radix(p[1], 16).ok()?, p[2].parse().ok()?))
                        })
                        .collect()
                })
                .collect()
        })
        .collect()
}
fn blobs_text(l: &[BRef]) -> String {
    l.iter().map(|b| format!("{}:{:032x}", b.0, b.1)).collect::<Vec<_>>().join(",")
}
fn parse_blobs(s: &str) -> Option<Vec<BRef>> {
    if s.is_empty() {
        return Some(vec![]);
    }
    s.split(',')
        .map(|t| {
            let p: Vec<&str> = t.split(':').collect();
            if p.len() != 2 {
                return None;
            }
            Some((p[0].parse().ok()?, u128::from_str_radix(p[1], 16).ok()?))
        })
        .collect()
}
/// `len` may exceed u32 (the writer truncates): printed as given
fn frag_text(l: &[(u64, u128, u64, u64)]) -> String {
    l.iter().map(|e| format!("{}:{}:{}:{}", e.0, e.1, e.2, e.3)).collect::<Vec<_>>().join(",")
}
fn frag_text64(l: &[FRef]) -> String {
    l.iter().map(|e| format!("{}:{}:{}:{}", e.0, e.1, e.2, e.3)).collect::<Vec<_>>().join(",")
}
fn parse_frag(s: &str) -> Option<Vec<FRef>> {
    if s.is_empty() {
        return Some(vec![]);
    }
    s.split(',')
        .map(|t| {
            let p: Vec<&str> = t.split(':').collect();
            if p.len() != 4 {
                return None;
            }
            Some((p[0].parse().ok()?, p[1].parse().ok()?, p[2].parse().ok()?, p[3].parse().ok()?))
        })
        .collect()
}
/// value of `key=` in a driver answer
fn kv<'a>(reply: &'a str, key: &str) -> Option<&'a str> {
    reply.split(' ').find_map(|t| t.strip_prefix(key).and_then(|r| r.strip_prefix('=')))
}

/// model decode of a section: `None` = `err`; otherwise (decoded text, unread byte count)
fn model_decode(drv: &mut Drv, cmd: &str, key: &str, bytes: &[u8]) -> Result<Option<(String, u64)>, String> {
    let r = drv.ask(&format!("{cmd} bytes={}", hex(bytes)));
    if r == "err" {
        return Ok(None);
    }
    match (kv(&r, key), kv(&r, "rest").and_then(|x| x.parse().ok())) {
        (Some(t), Some(n)) => Ok(Some((t.to_string(), n))),
        _ => Err(format!("unexpected driver answer to {cmd}: {r}")),
    }
}
fn model_encode(drv: &mut Drv, cmd: &str, key: &str, text: &str) -> Result<Vec<u8>, String> {
    let r = drv.ask(&format!("{cmd} {key}={text}"));
    match kv(&r, "bytes") {
        Some(h) => Ok(unhex(h)),
        None => Err(format!("unexpected driver answer to {cmd}: {r}")),
    }
}

// ------------------------------------------------------------------------------------------------ version files

const S_TABLES: &[u8] = b"tables";
const S_BLOBS: &[u8] = b"blob_files";
const S_FRAG: &[u8] = b"blob_gc_stats";

#[derive(Clone)]
struct VFile {
    names: Vec<Vec<u8>>, // in file order
    secs: BTreeMap<Vec<u8>, Vec<u8>>,
    raw: Vec<u8>,
}
fn read_vfile(path: &Path) -> Result<VFile, String> {
    let raw = std::fs::read(path).map_err(|e| format!("read {}: {e}", path.display()))?;
    let reader = sfa::Reader::new(path).map_err(|e| format!("sfa {}: {e:?}", path.display()))?;
    let mut names = vec![];
    let mut secs = BTreeMap::new();
    for e in reader.toc().iter() {
        let (p, l) = (e.pos() as usize, e.len() as usize);
        if p + l > raw.len() {
            return Err(format!("section {:?} outside of the file", String::from_utf8_lossy(e.name())));
        }
        names.push(e.name().to_vec());
        secs.insert(e.name().to_vec(), raw[p..p + l].to_vec());
    }
    Ok(VFile { names, secs, raw })
}
/// the archive `persist_version` would write for these sections
fn build_vfile(names: &[Vec<u8>], secs: &BTreeMap<Vec<u8>, Vec<u8>>) -> Vec<u8> {
    let mut w = sfa::Writer::from_writer(std::io::Cursor::new(Vec::new()));
    for n in names {
        w.start(n.clone()).unwrap();
        w.write_all(&secs[n]).unwrap();
    }
    w.into_inner().unwrap().into_inner()
}
/// xxh3-128 of a byte string, through the crate's own `ChecksummedWriter`
fn checksum_of(bytes: &[u8]) -> u128 {
    let mut w = lsm_tree::checksum::ChecksummedWriter::new(std::io::sink());
    w.write_all(bytes).unwrap();
    w.checksum().into_u128()
}
fn current_bytes(id: u64, checksum: u128) -> Vec<u8> {
    let mut v = id.to_le_bytes().to_vec();
    v.extend_from_slice(&checksum.to_le_bytes());
    v.push(0);
    v
}
fn copy_dir(src: &Path, dst: &Path) {
    std::fs::create_dir_all(dst).unwrap();
    for e in std::fs::read_dir(src).unwrap() {
        let e = e.unwrap();
        let to = dst.join(e.file_name());
        if e.file_type().unwrap().is_dir() {
            copy_dir(&e.path(), &to);
        } else {
            std::fs::copy(e.path(), to).unwrap();
        }
    }
}

// ------------------------------------------------------------------------------------------------ real trees

#[derive(Clone)]
struct TreeCfg {
    block_size: u32,
    blob: Option<(u32, u64)>,
}
fn open_tree(path: &Path, cfg: &TreeCfg, seqno: &SequenceNumberCounter, vis: &SequenceNumberCounter) -> lsm_tree::Result<AnyTree> {
    let mut conf = Config::new(path, seqno.clone(), vis.clone())
        .data_block_size_policy(lsm_tree::config::BlockSizePolicy::all(cfg.block_size))
        .use_cache(Arc::new(lsm_tree::Cache::with_capacity_bytes(64 * 1024)));
    if let Some((th, fsz)) = cfg.blob {
        conf = conf.with_kv_separation(Some(
            lsm_tree::KvSeparationOptions::default()
                .separation_threshold(th)
                .file_target_size(fsz)
                .staleness_threshold(0.3)
                .age_cutoff(1.0)
                .compression(lsm_tree::CompressionType::None),
        ));
    }
    conf.open()
}

/// the structure the real tree reports for its latest version: (version id, image)
fn image_of(t: &AnyTree) -> Result<(u64, Img), String> {
    let idx = index_tree(t);
    let v = idx.current_version();
    let levels: Vec<Vec<Vec<TRef>>> = v
        .iter_levels()
        .map(|lvl| lvl.iter().map(|run| run.iter().map(|t| (t.id(), t.checksum().into_u128(), t.global_seqno())).collect()).collect())
        .collect();
    let mut blobs: Vec<BRef> = v.blob_files.iter().map(|bf| (bf.id(), bf.checksum().into_u128())).collect();
    blobs.sort_unstable();
    let frag: Vec<FRef> = va::gc_stats_of(&v).into_iter().map(|(id, len, b, d)| (id, len as u64, b, d)).collect();
    // the history dump (hook H2) must tell the same ids
    let h = va::dump_history(idx);
    let last = h.last().ok_or("empty history")?;
    let ids: Vec<Vec<Vec<u64>>> = levels.iter().map(|l| l.iter().map(|r| r.iter().map(|t| t.0).collect()).collect()).collect();
    let mut hb = last.blob_file_ids.clone();
    hb.sort_unstable();
    if last.version_id != v.id() || last.table_ids != ids || hb != blobs.iter().map(|b| b.0).collect::<Vec<_>>() {
        return Err(format!("dump_history and current_version differ: {:?} vs version {} {:?}", last, v.id(), ids));
    }
    Ok((v.id(), Img { levels, blobs, frag }))
}

struct Cx {
    dir: tempfile::TempDir,
    cfg: TreeCfg,
    tree: Option<AnyTree>,
    seqno: SequenceNumberCounter,
    vis: SequenceNumberCounter,
    keys: Vec<K>,
    nonce: u64,
}
impl Cx {
    fn t(&self) -> &AnyTree {
        self.tree.as_ref().unwrap()
    }
}

fn has_dup<T: Ord + Copy>(ids: impl Iterator<Item = T>) -> bool {
    let mut s = BTreeSet::new();
    for i in ids {
        if !s.insert(i) {
            return true;
        }
    }
    false
}

/// checks (a) and (b) on the latest version; returns the file and the image
fn check_version(cx: &Cx, tag: &str, st: &mut Stats, drv: &mut Drv) -> Option<(u64, VFile, Img)> {
    let (vid, img) = match image_of(cx.t()) {
        Ok(x) => x,
        Err(e) => {
            st.oracle_failures.push(format!("C07 {tag}: {e}"));
            return None;
        }
    };
    let dir = cx.dir.path();
    // `current` names the latest version and seals the file
    let cur = std::fs::read(dir.join("current")).unwrap_or_default();
    let path = dir.join(format!("v{vid}"));
    let vf = match read_vfile(&path) {
        Ok(v) => v,
        Err(e) => {
            st.oracle_failures.push(format!("C07 {tag}: version file of the latest version #{vid} unreadable: {e}"));
            return None;
        }
    };
    st.evaluations += 1;
    if cur != current_bytes(vid, checksum_of(&vf.raw)) {
        st.oracle_failures.push(format!("C07 {tag}: `current` = {} does not name/seal v{vid} (expected {})", hex(&cur), hex(&current_bytes(vid, checksum_of(&vf.raw)))));
    }
    // the archive builder used for the damaged files below reproduces the real file
    if build_vfile(&vf.names, &vf.secs) != vf.raw {
        st.disagreements.push(format!("C07 {tag}: rebuilding v{vid} from its sections does not reproduce the file (harness archive builder)"));
    }
    let want_names: Vec<&[u8]> = vec![b"format_version", b"crate_version", b"tree_type", b"level_count", b"filter_hash_type", S_TABLES, S_BLOBS, S_FRAG];
    if vf.names.iter().map(|n| n.as_slice()).collect::<Vec<_>>() != want_names {
        st.oracle_failures.push(format!("C07 {tag}: sections of v{vid}: {:?}", vf.names.iter().map(|n| String::from_utf8_lossy(n).to_string()).collect::<Vec<_>>()));
        return None;
    }
    // the one-byte sections
    let tt = u8::from(cx.cfg.blob.is_some());
    let small = [(&b"format_version"[..], vec![3u8]), (&b"tree_type"[..], vec![tt]), (&b"level_count"[..], vec![img.levels.len() as u8]), (&b"filter_hash_type"[..], vec![0u8])];
    for (n, want) in small {
        st.evaluations += 1;
        if vf.secs[n] != want {
            st.oracle_failures.push(format!("C07 {tag}: section {} of v{vid} = {} expected {}", String::from_utf8_lossy(n), hex(&vf.secs[n]), hex(&want)));
        }
    }
    let fail = |st: &mut Stats, what: String| st.oracle_failures.push(format!("C07 {tag} v{vid}: {what}"));

    // ---- tables: order matters
    let real_text = levels_text(&img.levels);
    st.evaluations += 2;
    match model_decode(drv, "mtables", "levels", &vf.secs[S_TABLES]) {
        Err(e) => st.disagreements.push(e),
        Ok(None) => fail(st, format!("section tables = {} is not decodable (model), tree reports {real_text}", hex(&vf.secs[S_TABLES]))),
        Ok(Some((t, rest))) => {
            if t != real_text || rest != 0 {
                fail(st, format!("section tables decodes to {t} (+{rest} unread bytes), tree reports {real_text}"));
            }
        }
    }
    match model_encode(drv, "mencode", "levels", &real_text) {
        Err(e) => st.disagreements.push(e),
        Ok(b) => {
            if b != vf.secs[S_TABLES] {
                fail(st, format!("model encoding of the reported levels {real_text} = {} but the file has {}", hex(&b), hex(&vf.secs[S_TABLES])));
            }
        }
    }
    // ---- blob files: a map; the file order is the writer's HashMap order
    st.evaluations += 2;
    match model_decode(drv, "mblobs", "blobs", &vf.secs[S_BLOBS]) {
        Err(e) => st.disagreements.push(e),
        Ok(None) => fail(st, format!("section blob_files = {} is not decodable (model)", hex(&vf.secs[S_BLOBS]))),
        Ok(Some((t, rest))) => {
            let file_list = parse_blobs(&t).unwrap_or_default();
            let mut sorted = file_list.clone();
            sorted.sort_unstable();
            if sorted != img.blobs || rest != 0 || has_dup(file_list.iter().map(|b| b.0)) {
                fail(st, format!("section blob_files decodes to {t} (+{rest}), tree reports {}", blobs_text(&img.blobs)));
            } else {
                // (b) the REAL records in the id order of the file
                let by_id: BTreeMap<u64, BRef> = img.blobs.iter().map(|b| (b.0, *b)).collect();
                let ordered: Vec<BRef> = file_list.iter().map(|b| by_id[&b.0]).collect();
                match model_encode(drv, "mencblobs", "blobs", &blobs_text(&ordered)) {
                    Err(e) => st.disagreements.push(e),
                    Ok(b) => {
                        if b != vf.secs[S_BLOBS] {
                            fail(st, format!("model encoding of the reported blob files = {} but the file has {}", hex(&b), hex(&vf.secs[S_BLOBS])));
                        }
                    }
                }
            }
        }
    }
    // ---- gc statistics: a map
    st.evaluations += 2;
    match model_decode(drv, "mfrag", "frag", &vf.secs[S_FRAG]) {
        Err(e) => st.disagreements.push(e),
        Ok(None) => fail(st, format!("section blob_gc_stats = {} is not decodable (model)", hex(&vf.secs[S_FRAG]))),
        Ok(Some((t, rest))) => {
            let file_list = parse_frag(&t).unwrap_or_default();
            let mut sorted = file_list.clone();
            sorted.sort_unstable();
            if sorted != img.frag || rest != 0 || has_dup(file_list.iter().map(|e| e.0)) {
                fail(st, format!("section blob_gc_stats decodes to {t} (+{rest}), tree reports {}", frag_text64(&img.frag)));
            } else {
                let by_id: BTreeMap<u64, FRef> = img.frag.iter().map(|e| (e.0, *e)).collect();
                let ordered: Vec<FRef> = file_list.iter().map(|e| by_id[&e.0]).collect();
                match model_encode(drv, "mencfrag", "frag", &frag_text64(&ordered)) {
                    Err(e) => st.disagreements.push(e),
                    Ok(b) => {
                        if b != vf.secs[S_FRAG] {
                            fail(st, format!("model encoding of the reported gc statistics = {} but the file has {}", hex(&b), hex(&vf.secs[S_FRAG])));
                        }
                    }
                }
            }
        }
    }
    // ---- coverage
    st.count("versions.checked");
    if img.levels.iter().any(|l| l.len() > 1) {
        st.count("versions.multi_run_level");
    }
    if img.levels.iter().skip(1).any(|l| l.len() > 1) {
        st.count("versions.multi_run_deep_level");
    }
    if img.levels.iter().flatten().any(|r| r.len() > 1) {
        st.count("versions.multi_table_run");
    }
    if img.levels.iter().filter(|l| !l.is_empty()).count() > 1 {
        st.count("versions.several_levels");
    }
    if img.levels.iter().flatten().flatten().any(|t| t.2 != 0) {
        st.count("versions.gseq_nonzero");
    }
    if !img.blobs.is_empty() {
        st.count("versions.with_blob_files");
    }
    if img.blobs.len() > 1 {
        st.count("versions.with_several_blob_files");
    }
    if !img.frag.is_empty() {
        st.count("versions.with_gc_stats");
    }
    if img.frag.len() > 1 {
        st.count("versions.with_several_gc_stats");
    }
    if img.levels.iter().flatten().flatten().count() == 0 {
        st.count("versions.without_tables");
    }
    st.nontrivial_case(&format!("{}|{}|{}", hex(&vf.secs[S_TABLES]), hex(&vf.secs[S_BLOBS]), hex(&vf.secs[S_FRAG])));
    if img.levels.iter().flatten().count() > 2 {
        st.sample(format!("v{vid}: {real_text} blobs={} frag={}", blobs_text(&img.blobs), frag_text64(&img.frag)));
    }
    Some((vid, vf, img))
}

/// (c): drop + reopen; the tree must report the same image and leave the version file alone
fn reopen_check(cx: &mut Cx, tag: &str, st: &mut Stats, drv: &mut Drv) {
    let Some((vid, vf, img)) = check_version(cx, &format!("{tag} (before reopen)"), st, drv) else { return };
    cx.tree = None;
    match open_tree(cx.dir.path(), &cx.cfg, &cx.seqno, &cx.vis) {
        Err(e) => {
            st.oracle_failures.push(format!("C04 {tag}: reopen failed: {e:?}"));
            // keep going on a fresh directory is not possible: re-create an empty tree elsewhere
            cx.dir = tempfile::tempdir_in(crate::scratch_root()).unwrap();
            cx.tree = Some(open_tree(cx.dir.path(), &cx.cfg, &cx.seqno, &cx.vis).unwrap());
            return;
        }
        Ok(t) => cx.tree = Some(t),
    }
    st.count("reopen.checked");
    st.evaluations += 1;
    match image_of(cx.t()) {
        Err(e) => st.oracle_failures.push(format!("C04 {tag}: after reopen: {e}")),
        Ok((vid2, img2)) => {
            if vid2 != vid || img2 != img {
                st.oracle_failures.push(format!(
                    "C04 {tag}: reopened tree reports version {vid2} {} blobs={} frag={}; before the drop: version {vid} {} blobs={} frag={}",
                    levels_text(&img2.levels),
                    blobs_text(&img2.blobs),
                    frag_text64(&img2.frag),
                    levels_text(&img.levels),
                    blobs_text(&img.blobs),
                    frag_text64(&img.frag)
                ));
            }
        }
    }
    if let Some((_, vf2, _)) = check_version(cx, &format!("{tag} (after reopen)"), st, drv) {
        if vf2.raw != vf.raw {
            st.oracle_failures.push(format!("C04 {tag}: the version file v{vid} changed across reopen"));
        }
    }
}

#[derive(Debug, PartialEq, Clone)]
enum RealOpen {
    Ok(Img),
    Eof,
    ChecksumTypeTag(u8),
    ChecksumMismatch,
    Unrecoverable,
    OtherErr(String),
    Panic,
}
impl RealOpen {
    fn class(&self) -> &'static str {
        match self {
            RealOpen::Ok(_) => "ok",
            RealOpen::Eof => "eof",
            RealOpen::ChecksumTypeTag(_) => "checksum_type_tag",
            RealOpen::ChecksumMismatch => "checksum_mismatch",
            RealOpen::Unrecoverable => "unrecoverable",
            RealOpen::OtherErr(_) => "other_error",
            RealOpen::Panic => "panic",
        }
    }
}

/// opens a COPY of the tree directory whose version file is `file` (re-sealed in `current` unless `stale_current`)
fn open_copy(cx: &Cx, vid: u64, file: &[u8], stale_current: bool) -> RealOpen {
    let tmp = tempfile::tempdir_in(crate::scratch_root()).unwrap();
    let root = tmp.path().join("t");
    copy_dir(cx.dir.path(), &root);
    std::fs::write(root.join(format!("v{vid}")), file).unwrap();
    if !stale_current {
        std::fs::write(root.join("current"), current_bytes(vid, checksum_of(file))).unwrap();
    }
    let cfg = cx.cfg.clone();
    let r = std::panic::catch_unwind(std::panic::AssertUnwindSafe(|| {
        let t = open_tree(&root, &cfg, &SequenceNumberCounter::default(), &SequenceNumberCounter::default())?;
        // `image_of` cross-checks the history dump; a damaged manifest may name one table twice, which both views share
        Ok::<_, lsm_tree::Error>(image_of(&t))
    }));
    match r {
        Err(_) => RealOpen::Panic,
        Ok(Ok(Ok((_, img)))) => RealOpen::Ok(img),
        Ok(Ok(Err(e))) => RealOpen::OtherErr(e),
        Ok(Err(lsm_tree::Error::Io(e))) if e.kind() == std::io::ErrorKind::UnexpectedEof => RealOpen::Eof,
        Ok(Err(lsm_tree::Error::InvalidTag(("ChecksumType", b)))) => RealOpen::ChecksumTypeTag(b),
        Ok(Err(lsm_tree::Error::ChecksumMismatch { .. })) => RealOpen::ChecksumMismatch,
        Ok(Err(lsm_tree::Error::Unrecoverable)) => RealOpen::Unrecoverable,
        Ok(Err(e)) => RealOpen::OtherErr(format!("{e:?}")),
    }
}

/// what the model says about three section payloads
struct ModelView {
    levels: Option<Vec<Vec<Vec<TRef>>>>,
    blobs: Option<Vec<BRef>>,   // file order
    frag: Option<Vec<FRef>>,    // file order
    frag_map: Option<Vec<FRef>>, // `Manifest.fragMap`, ascending id
    blob_map: Option<Vec<BRef>>, // `Manifest.blobMap`, ascending id; None = `Manifest.blobIdsDistinct` fails (or undecodable)
    rest: u64,
}
fn model_view(drv: &mut Drv, secs: &BTreeMap<Vec<u8>, Vec<u8>>) -> Result<ModelView, String> {
    let mut rest = 0;
    let levels = match model_decode(drv, "mtables", "levels", &secs[S_TABLES])? {
        None => None,
        Some((t, r)) => {
            rest += r;
            Some(parse_levels(&t).ok_or(format!("unparsable levels text {t}"))?)
        }
    };
    let (blobs, blob_map) = match model_decode(drv, "mblobs", "blobs", &secs[S_BLOBS])? {
        None => (None, None),
        Some((t, r)) => {
            rest += r;
            let m = drv.ask(&format!("mblobmap blobs={t}"));
            let m = if m == "reject-duplicate-id" { None } else { Some(kv(&m, "blobs").and_then(parse_blobs).ok_or(format!("unexpected answer to mblobmap: {m}"))?) };
            (Some(parse_blobs(&t).ok_or(format!("unparsable blobs text {t}"))?), m)
        }
    };
    let (frag, frag_map) = match model_decode(drv, "mfrag", "frag", &secs[S_FRAG])? {
        None => (None, None),
        Some((t, r)) => {
            rest += r;
            let m = drv.ask(&format!("mfragmap frag={t}"));
            let m = kv(&m, "frag").and_then(parse_frag).ok_or(format!("unexpected answer to mfragmap: {m}"))?;
            (Some(parse_frag(&t).ok_or(format!("unparsable frag text {t}"))?), Some(m))
        }
    };
    Ok(ModelView { levels, blobs, frag, frag_map, blob_map, rest })
}

/// section payload starts with a record count that would make `Vec::with_capacity` / `HashMap::with_capacity` huge
fn huge_count(sec: &[u8]) -> bool {
    sec.len() >= 4 && u32::from_le_bytes([sec[0], sec[1], sec[2], sec[3]]) > (1 << 20)
}

/// damaged / re-encoded version files on a copy of the directory: model decoder vs real `recover`
fn mutation_trials(cx: &Cx, tag: &str, trials: u64, rng: &mut Rng, st: &mut Stats, drv: &mut Drv) {
    let Some((vid, vf, img)) = check_version(cx, &format!("{tag} (before mutation)"), st, drv) else { return };
    let orig_ids: BTreeSet<u64> = img.levels.iter().flatten().flatten().map(|t| t.0).collect();
    let orig_blob_ids: BTreeSet<u64> = img.blobs.iter().map(|b| b.0).collect();
    let blobs_dir_exists = cx.dir.path().join("blobs").is_dir();
    for trial in 0..trials {
        let mut secs = vf.secs.clone();
        let kind = rng.below(16);
        let which: &[u8] = *rng.pick(&[S_TABLES, S_TABLES, S_BLOBS, S_FRAG]);
        let mut stale = false;
        let desc;
        match kind {
            0 | 1 => {
                let s = secs.get_mut(which).unwrap();
                let i = rng.below(s.len() as u64) as usize;
                let bit = rng.below(8);
                s[i] ^= 1 << bit;
                desc = format!("flip bit {bit} of byte {i} in {}", String::from_utf8_lossy(which));
            }
            2 => {
                let s = secs.get_mut(which).unwrap();
                let n = rng.below(s.len() as u64) as usize;
                s.truncate(n);
                desc = format!("truncate {} to {n} bytes", String::from_utf8_lossy(which));
            }
            3 => {
                let s = secs.get_mut(which).unwrap();
                let n = 1 + rng.below(3);
                for _ in 0..n {
                    s.push(rng.next() as u8);
                }
                desc = format!("append {n} bytes to {}", String::from_utf8_lossy(which));
            }
            4 => {
                let s = secs.get_mut(which).unwrap();
                let i = rng.below(s.len() as u64) as usize;
                s[i] = rng.next() as u8;
                desc = format!("overwrite byte {i} in {}", String::from_utf8_lossy(which));
            }
            5 => {
                // the untouched file under a stale seal, or a damaged file under the original seal
                stale = true;
                if rng.chance(1, 2) {
                    let s = secs.get_mut(which).unwrap();
                    let i = rng.below(s.len() as u64) as usize;
                    s[i] ^= 1 << rng.below(8);
                    desc = format!("flip in {} WITHOUT re-sealing `current`", String::from_utf8_lossy(which));
                } else {
                    let s = secs.get_mut(&b"crate_version"[..]).unwrap();
                    s[0] ^= 1;
                    desc = "flip in crate_version WITHOUT re-sealing `current`".into();
                }
            }
            6 | 7 => {
                // structure level, encoded by the MODEL: other global seqnos / checksums of the same tables
                let mut lv = img.levels.clone();
                let mut touched = 0;
                for t in lv.iter_mut().flatten().flatten() {
                    if rng.chance(1, 2) {
                        touched += 1;
                        match rng.below(4) {
                            0 => t.2 = rng.next(),
                            1 => t.2 = u64::MAX,
                            2 => t.1 = (u128::from(rng.next()) << 64) | u128::from(rng.next()),
                            _ => t.1 = u128::MAX,
                        }
                    }
                }
                match model_encode(drv, "mencode", "levels", &levels_text(&lv)) {
                    Ok(b) => {
                        secs.insert(S_TABLES.to_vec(), b);
                    }
                    Err(e) => st.disagreements.push(e),
                }
                desc = format!("model-encoded tables with {touched} altered records");
            }
            8 => {
                // map-valued sections in another record order (model-encoded)
                let mut b = img.blobs.clone();
                let mut f = img.frag.clone();
                let (kb, kf) = (rng.below(b.len().max(1) as u64) as usize, rng.below(f.len().max(1) as u64) as usize);
                b.rotate_left(kb);
                f.rotate_left(kf);
                if rng.chance(1, 2) {
                    b.reverse();
                    f.reverse();
                }
                match (model_encode(drv, "mencblobs", "blobs", &blobs_text(&b)), model_encode(drv, "mencfrag", "frag", &frag_text64(&f))) {
                    (Ok(x), Ok(y)) => {
                        secs.insert(S_BLOBS.to_vec(), x);
                        secs.insert(S_FRAG.to_vec(), y);
                    }
                    (a, b) => st.disagreements.push(format!("{:?} {:?}", a.err(), b.err())),
                }
                desc = format!("model-encoded blob_files / blob_gc_stats in another order ({} / {} records)", b.len(), f.len());
            }
            9 => {
                // arbitrary gc statistics (wide values, ids without blob file, duplicates: the later record wins)
                let n = rng.below(5);
                let mut f: Vec<FRef> = vec![];
                for _ in 0..n {
                    let id = if !img.blobs.is_empty() && rng.chance(1, 2) { rng.pick(&img.blobs).0 } else if !f.is_empty() && rng.chance(1, 3) { rng.pick(&f).0 } else { *rng.pick(&[0u64, 1, 7, u64::MAX, 1 << 40]) };
                    let wide = |rng: &mut Rng| match rng.below(4) {
                        0 => u64::MAX,
                        1 => rng.next(),
                        _ => rng.below(1000),
                    };
                    f.push((id, wide(rng) & 0xffff_ffff, wide(rng), wide(rng)));
                }
                match model_encode(drv, "mencfrag", "frag", &frag_text64(&f)) {
                    Ok(y) => {
                        secs.insert(S_FRAG.to_vec(), y);
                    }
                    Err(e) => st.disagreements.push(e),
                }
                desc = format!("model-encoded gc statistics {}", frag_text64(&f));
            }
            10 => {
                // a blob file record twice
                if img.blobs.is_empty() {
                    continue;
                }
                let mut b = img.blobs.clone();
                let d = *rng.pick(&img.blobs);
                b.insert(rng.below(b.len() as u64 + 1) as usize, (d.0, if rng.chance(1, 2) { d.1 } else { d.1 ^ 1 }));
                match model_encode(drv, "mencblobs", "blobs", &blobs_text(&b)) {
                    Ok(x) => {
                        secs.insert(S_BLOBS.to_vec(), x);
                    }
                    Err(e) => st.disagreements.push(e),
                }
                desc = format!("model-encoded blob_files with record {} twice", d.0);
            }
            15 => {
                // a checksum type byte other than 0 (= XXH3) in a table or blob file record
                let mut offs: Vec<(&[u8], usize)> = vec![];
                let mut o = 1;
                for l in &img.levels {
                    o += 1;
                    for r in l {
                        o += 4;
                        for _ in r {
                            offs.push((S_TABLES, o + 8));
                            o += 33;
                        }
                    }
                }
                for i in 0..img.blobs.len() {
                    offs.push((S_BLOBS, 4 + 25 * i + 8));
                }
                if offs.is_empty() {
                    continue;
                }
                let (sec, at) = *rng.pick(&offs);
                let v = 1 + rng.below(255) as u8;
                let s = secs.get_mut(sec).unwrap();
                if s[at] != 0 {
                    st.disagreements.push(format!("C07 {tag}: harness offset computation: byte {at} of {} is {}", String::from_utf8_lossy(sec), s[at]));
                }
                s[at] = v;
                desc = format!("checksum type byte {v} at offset {at} of {}", String::from_utf8_lossy(sec));
            }
            12..=14 => {
                // another arrangement of the same tables (model-encoded): the reader has to keep every order
                let mut lv = img.levels.clone();
                let edit = rng.below(6);
                let nonempty: Vec<usize> = (0..lv.len()).filter(|i| !lv[*i].is_empty()).collect();
                match edit {
                    0 if !nonempty.is_empty() => {
                        let l = *rng.pick(&nonempty);
                        lv[l].reverse();
                        desc = format!("model-encoded tables, runs of level {l} reversed");
                    }
                    1 if !nonempty.is_empty() => {
                        let l = *rng.pick(&nonempty);
                        let r = rng.below(lv[l].len() as u64) as usize;
                        lv[l][r].reverse();
                        desc = format!("model-encoded tables, tables of run {r} of level {l} reversed");
                    }
                    2 if !nonempty.is_empty() => {
                        let l = *rng.pick(&nonempty);
                        let r = rng.below(lv[l].len() as u64) as usize;
                        let run = lv[l].remove(r);
                        let to = rng.below(lv.len() as u64) as usize;
                        let at = rng.below(lv[to].len() as u64 + 1) as usize;
                        lv[to].insert(at, run);
                        desc = format!("model-encoded tables, run {r} of level {l} moved to level {to} position {at}");
                    }
                    3 if !nonempty.is_empty() => {
                        // every table its own run
                        let l = *rng.pick(&nonempty);
                        lv[l] = lv[l].iter().flatten().map(|t| vec![*t]).collect();
                        desc = format!("model-encoded tables, level {l} split into single-table runs");
                    }
                    4 => {
                        let l = rng.below(lv.len() as u64) as usize;
                        let at = rng.below(lv[l].len() as u64 + 1) as usize;
                        lv[l].insert(at, vec![]);
                        desc = format!("model-encoded tables with an EMPTY run in level {l}");
                    }
                    _ => {
                        if rng.chance(1, 2) {
                            lv.push(vec![]);
                        } else if lv.last().map_or(false, |l| l.is_empty()) {
                            lv.pop();
                        }
                        desc = format!("model-encoded tables with {} levels", lv.len());
                    }
                }
                match model_encode(drv, "mencode", "levels", &levels_text(&lv)) {
                    Ok(b) => {
                        secs.insert(S_TABLES.to_vec(), b);
                    }
                    Err(e) => st.disagreements.push(e),
                }
            }
            _ => {
                // other blob file checksums (model-encoded)
                if img.blobs.is_empty() {
                    continue;
                }
                let b: Vec<BRef> = img.blobs.iter().map(|b| (b.0, if rng.chance(1, 2) { u128::from(rng.next()) << 37 } else { b.1 })).collect();
                match model_encode(drv, "mencblobs", "blobs", &blobs_text(&b)) {
                    Ok(x) => {
                        secs.insert(S_BLOBS.to_vec(), x);
                    }
                    Err(e) => st.disagreements.push(e),
                }
                desc = "model-encoded blob_files with other checksums".into();
            }
        }
        let ttag = format!("{tag} v{vid} trial {trial}: {desc}");
        if huge_count(&secs[S_BLOBS]) || huge_count(&secs[S_FRAG]) {
            // `Vec::with_capacity(count)` / `HashMap::with_capacity(count)` before reading: not run in-process
            st.count("mut.skipped_huge_count");
            continue;
        }
        let file = build_vfile(&vf.names, &secs);
        let mv = match model_view(drv, &secs) {
            Ok(m) => m,
            Err(e) => {
                st.disagreements.push(format!("{ttag}: {e}"));
                continue;
            }
        };
        let real = open_copy(cx, vid, &file, stale);
        st.evaluations += 1;
        st.count(&format!("mut.real.{}", real.class()));
        if stale {
            // the whole-file checksum in `current` is verified first
            st.count("mut.stale_seal");
            if real != RealOpen::ChecksumMismatch {
                st.oracle_failures.push(format!("C07 {ttag}: the open of a version file that does not match `current` gave {real:?}"));
            }
            continue;
        }
        let model_ok = mv.levels.is_some() && mv.blobs.is_some() && mv.frag.is_some();
        if !model_ok {
            st.count("mut.model_reject");
            match real {
                RealOpen::Eof | RealOpen::ChecksumTypeTag(_) => st.count("mut.agree_reject"),
                _ => st.disagreements.push(format!("C07 {ttag}: the model decoder rejects, the real open gives {real:?}")),
            }
            continue;
        }
        st.count("mut.model_accept");
        if mv.rest > 0 {
            st.count("mut.model_accept_with_unread_bytes");
        }
        let (ml, mb, mf, mfm) = (mv.levels.unwrap(), mv.blobs.unwrap(), mv.frag.unwrap(), mv.frag_map.unwrap());
        let m_ids: Vec<u64> = ml.iter().flatten().flatten().map(|t| t.0).collect();
        let dup_tables = has_dup(m_ids.iter().copied());
        let dup_blobs = mv.blob_map.is_none(); // the model's `blobIdsDistinct`
        if dup_blobs != has_dup(mb.iter().map(|b| b.0)) {
            st.disagreements.push(format!("C07 {ttag}: `Manifest.blobIdsDistinct` on {}", blobs_text(&mb)));
        }
        if has_dup(mf.iter().map(|e| e.0)) {
            st.count("mut.dup_gc_record");
        }
        // the decoded structure names exactly the files that exist, in a shape `from_recovery` takes: the open has to succeed
        let must_accept = !dup_tables
            && m_ids.iter().copied().collect::<BTreeSet<_>>() == orig_ids
            && ml.iter().flatten().all(|r| !r.is_empty())
            && ml.len() == 7
            && (!blobs_dir_exists || (!dup_blobs && mb.iter().map(|b| b.0).collect::<BTreeSet<_>>() == orig_blob_ids));
        match &real {
            RealOpen::Ok(rimg) => {
                st.count("mut.both_accept");
                if ml.len() != 7 {
                    st.count("mut.level_count_not_7.ok");
                }
                let ids_of = |l: &Vec<Vec<Vec<TRef>>>| -> Vec<Vec<Vec<u64>>> { l.iter().map(|x| x.iter().map(|r| r.iter().map(|t| t.0).collect()).collect()).collect() };
                let same_levels = if dup_tables { ids_of(&rimg.levels) == ids_of(&ml) } else { rimg.levels == ml };
                // without a blobs folder `recover_blob_files` returns nothing whatever the section says
                let same_blobs = if blobs_dir_exists { mv.blob_map.as_ref() == Some(&rimg.blobs) } else { rimg.blobs.is_empty() };
                if !same_levels || !same_blobs || rimg.frag != mfm {
                    st.disagreements.push(format!(
                        "C07 {ttag}: real open reports {} blobs={} frag={}; the model decodes {} blobs={} frag-map={}",
                        levels_text(&rimg.levels),
                        blobs_text(&rimg.blobs),
                        frag_text64(&rimg.frag),
                        levels_text(&ml),
                        blobs_text(&mb),
                        frag_text64(&mfm)
                    ));
                }
            }
            RealOpen::Eof | RealOpen::ChecksumTypeTag(_) => {
                st.disagreements.push(format!("C07 {ttag}: the model decoder accepts ({} / {} / {}), the real open gives {real:?}", levels_text(&ml), blobs_text(&mb), frag_text64(&mf)));
            }
            other => {
                if must_accept {
                    st.disagreements.push(format!("C07 {ttag}: the decoded structure names exactly the existing files, but the real open gives {other:?}"));
                } else {
                    st.count("mut.decoded_but_unusable");
                    if ml.iter().flatten().any(|r| r.is_empty()) {
                        st.count(&format!("mut.empty_run.{}", other.class()));
                    }
                    if ml.len() != 7 {
                        st.count(&format!("mut.level_count_not_7.{}", other.class()));
                    }
                    if dup_blobs && blobs_dir_exists {
                        st.count("mut.dup_blob_record_rejected");
                        if *other != RealOpen::Unrecoverable {
                            st.disagreements.push(format!("C07 {ttag}: duplicate blob file record: expected Unrecoverable, got {other:?}"));
                        }
                    }
                }
            }
        }
        if must_accept {
            st.count("mut.must_accept");
        }
    }
}

fn bound_of(rng: &mut Rng, keys: &[K]) -> Bound<K> {
    match rng.below(3) {
        0 => Bound::Unbounded,
        1 => Bound::Included(rng.pick(keys).clone()),
        _ => Bound::Excluded(rng.pick(keys).clone()),
    }
}

fn levels_ids(cx: &Cx) -> Vec<Vec<Vec<u64>>> {
    va::dump_history(index_tree(cx.t())).last().unwrap().table_ids.clone()
}

thread_local! { static OPLOG: std::cell::RefCell<Vec<String>> = const { std::cell::RefCell::new(vec![]) }; }
fn oplog(s: String) {
    OPLOG.with(|l| l.borrow_mut().push(s));
}

fn tree_case(case: u64, rng: &mut Rng, st: &mut Stats, drv: &mut Drv) {
    OPLOG.with(|l| l.borrow_mut().clear());
    let blob = case % 2 == 1;
    let cfg = TreeCfg {
        block_size: *rng.pick(&[1u32, 64, 4096]),
        blob: if blob { Some((*rng.pick(&[0u32, 1, 8, 12]), *rng.pick(&[1u64, 64, 200, 1024]))) } else { None },
    };
    let dir = tempfile::tempdir_in(crate::scratch_root()).unwrap();
    let seqno = SequenceNumberCounter::default();
    let vis = SequenceNumberCounter::default();
    let nkeys = 4 + rng.below(12) as usize;
    let keys = gen_keyset(rng, nkeys);
    oplog(format!("cfg block_size={} blob={:?}", cfg.block_size, cfg.blob));
    let tree = open_tree(dir.path(), &cfg, &seqno, &vis).unwrap();
    let mut cx = Cx { dir, cfg, tree: Some(tree), seqno, vis, keys, nonce: 0 };
    let n_ops = 15 + rng.below(45);
    let tagp = format!("case {case}{}", if blob { " (kv-separated)" } else { "" });
    check_version(&cx, &format!("{tagp} fresh tree"), st, drv);
    for step in 0..n_ops {
        let tag = format!("{tagp} #{step}");
        let r = rng.below(1000);
        let k = rng.pick(&cx.keys).clone();
        let top = cx.vis.get();
        let wm = *rng.pick(&[0, 0, top / 2, top]);
        let structural;
        match r {
            0..=379 => {
                let s = cx.seqno.next();
                let mut v = format!("{}@{s}", hex(&k)).into_bytes();
                v.extend(std::iter::repeat(b'.').take(*rng.pick(&[0usize, 0, 6, 40])));
                oplog(format!("insert {} len={} @{s}", hex(&k), v.len()));
                cx.t().insert(k, v, s);
                cx.vis.fetch_max(s + 1);
                structural = false;
            }
            380..=449 => {
                let s = cx.seqno.next();
                oplog(format!("remove {} @{s}", hex(&k)));
                cx.t().remove(k, s);
                cx.vis.fetch_max(s + 1);
                structural = false;
            }
            450..=469 => {
                oplog("rotate".into());
                cx.t().rotate_memtable();
                structural = true;
            }
            470..=609 => {
                oplog(format!("flush wm={wm}"));
                cx.t().flush_active_memtable(wm).unwrap();
                st.count("op.flush");
                structural = true;
            }
            610..=709 => {
                // P6: leveled only while every level ≥ 1 holds at most one run
                if levels_ids(&cx).iter().skip(1).any(|l| l.len() > 1) {
                    continue;
                }
                let (l0t, tts) = (*rng.pick(&[1u8, 2, 4]), *rng.pick(&[1u64, 64, 4096]));
                let s = lsm_tree::compaction::Leveled::default().with_l0_threshold(l0t).with_table_target_size(tts);
                oplog(format!("leveled l0={l0t} target={tts} wm={wm}"));
                cx.t().compact(Arc::new(s), wm).unwrap();
                st.count("op.leveled");
                structural = true;
            }
            710..=749 => {
                let tts = *rng.pick(&[1u64, 64, u64::MAX]);
                oplog(format!("major target={tts} wm={wm}"));
                cx.t().major_compact(tts, wm).unwrap();
                st.count("op.major");
                structural = true;
            }
            750..=809 => {
                // P5: only when the levels strictly between are empty
                let a = rng.below(6) as usize;
                let b = a + 1 + rng.below((6 - a) as u64) as usize;
                let l = levels_ids(&cx);
                if !((a + 1)..b).all(|i| l[i].is_empty()) {
                    continue;
                }
                oplog(format!("movedown {a} {b}"));
                cx.t().compact(Arc::new(lsm_tree::compaction::MoveDown(a as u8, b as u8)), 0).unwrap();
                st.count("op.movedown");
                if l[a].len() > 1 {
                    st.count("op.movedown_multi_run");
                }
                structural = true;
            }
            810..=879 => {
                let mut ks = BTreeSet::new();
                for _ in 0..(1 + rng.below(5)) {
                    ks.insert(rng.pick(&cx.keys).clone());
                }
                cx.nonce += 1;
                let mut ing = cx.t().ingestion().unwrap();
                for k in ks {
                    if rng.chance(1, 4) {
                        oplog(format!("ingest-tomb {}", hex(&k)));
                        ing.write_tombstone(k).unwrap();
                    } else {
                        let mut v = format!("{}@ingest{}", hex(&k), cx.nonce).into_bytes();
                        v.extend(std::iter::repeat(b'.').take(*rng.pick(&[0usize, 6, 40])));
                        oplog(format!("ingest {} len={}", hex(&k), v.len()));
                        ing.write(k, v).unwrap();
                    }
                }
                oplog("ingest-finish".into());
                ing.finish().unwrap();
                st.count("op.ingest");
                structural = true;
            }
            880..=929 => {
                let (lo, hi) = if rng.chance(1, 2) { (Bound::Included(k.clone()), Bound::Included(k.clone())) } else { (bound_of(rng, &cx.keys), bound_of(rng, &cx.keys)) };
                oplog(format!("drop_range {:?} {:?}", lo, hi));
                cx.t().drop_range::<K, _>((lo.clone(), hi.clone())).unwrap();
                st.count("op.drop_range");
                structural = true;
            }
            930..=969 => {
                oplog("reopen".into());
                reopen_check(&mut cx, &tag, st, drv);
                continue;
            }
            _ => {
                mutation_trials(&cx, &tag, 3, rng, st, drv);
                continue;
            }
        }
        if structural {
            check_version(&cx, &tag, st, drv);
        }
    }
    let tag = format!("{tagp} end");
    cx.t().flush_active_memtable(0).unwrap();
    mutation_trials(&cx, &tag, 4, rng, st, drv);
    reopen_check(&mut cx, &tag, st, drv);
    // the reopened tree can be written, flushed and compacted, and its manifest is again sound
    let s = cx.seqno.next();
    let k = cx.keys[0].clone();
    cx.t().insert(k, b"after-reopen".to_vec(), s);
    cx.vis.fetch_max(s + 1);
    cx.t().flush_active_memtable(0).unwrap();
    check_version(&cx, &format!("{tag} (flush after reopen)"), st, drv);
    cx.t().major_compact(u64::MAX, 0).unwrap();
    check_version(&cx, &format!("{tag} (major after reopen)"), st, drv);
    reopen_check(&mut cx, &format!("{tag} (second reopen)"), st, drv);
}

// ------------------------------------------------------------------------------------------------ part 1: gc statistics, function level

fn frag_case(rng: &mut Rng, st: &mut Stats, drv: &mut Drv) {
    let n = rng.below(6);
    let mut ents: BTreeMap<u64, (u128, u64, u64)> = BTreeMap::new();
    let wide = |rng: &mut Rng| match rng.below(5) {
        0 => u64::MAX,
        1 => rng.next(),
        2 => 0,
        _ => rng.below(100_000),
    };
    for _ in 0..n {
        let id = match rng.below(4) {
            0 => rng.next(),
            1 => *rng.pick(&[0u64, u64::MAX, 1 << 32, 255, 256]),
            _ => rng.below(20),
        };
        // `len` is a usize written `as u32`
        let len: u128 = match rng.below(5) {
            0 => u128::from(u32::MAX),
            1 => (1u128 << 32) + u128::from(rng.below(1000)),
            2 => u128::from(rng.next()),
            _ => u128::from(rng.below(1000)),
        };
        ents.insert(id, (len, wide(rng), wide(rng)));
    }
    let mut map = FragmentationMap::default();
    for (id, (len, b, d)) in &ents {
        map.insert(*id, FragmentationEntry::new(*len as usize, *b, *d));
    }
    let bytes = map.encode_into_vec();
    let tag = format!("gc-stats {}", hex(&bytes));
    st.evaluations += 3;
    st.count("frag.cases");
    if ents.values().any(|e| e.0 > u128::from(u32::MAX)) {
        st.count("frag.len_truncated");
    }
    // (a) model decode of the real bytes = the map (len reduced modulo 2^32)
    let file_list = match model_decode(drv, "mfrag", "frag", &bytes) {
        Ok(Some((t, 0))) => parse_frag(&t).unwrap_or_default(),
        other => {
            st.disagreements.push(format!("C07 {tag}: model decode of the bytes `FragmentationMap::encode_into` wrote: {other:?}"));
            return;
        }
    };
    let mut sorted = file_list.clone();
    sorted.sort_unstable();
    let want: Vec<FRef> = ents.iter().map(|(id, e)| (*id, (e.0 % (1u128 << 32)) as u64, e.1, e.2)).collect();
    if sorted != want {
        st.disagreements.push(format!("C07 {tag}: model decodes {} but the map is {}", frag_text64(&sorted), frag_text64(&want)));
        return;
    }
    // (b) model encode of the records (untruncated len) in the file's order = the real bytes
    let ordered: Vec<(u64, u128, u64, u64)> = file_list.iter().map(|e| (e.0, ents[&e.0].0, e.2, e.3)).collect();
    match model_encode(drv, "mencfrag", "frag", &frag_text(&ordered)) {
        Ok(b) if b == bytes => {}
        other => st.disagreements.push(format!("C07 {tag}: model encoding of {} gives {:?}", frag_text(&ordered), other.map(|b| hex(&b)))),
    }
    // (c) the real decoder on the real bytes
    match FragmentationMap::decode_from(&mut &bytes[..]) {
        Ok(m2) if m2 == {
            let mut m = FragmentationMap::default();
            for e in &want {
                m.insert(e.0, FragmentationEntry::new(e.1 as usize, e.2, e.3));
            }
            m
        } => {}
        other => st.disagreements.push(format!("C07 {tag}: real decode of the real bytes: {other:?}")),
    }
    // (d) damaged payloads: accept / reject and the resulting map
    for _ in 0..3 {
        let mut b = bytes.clone();
        match rng.below(5) {
            0 => {
                let i = rng.below(b.len() as u64) as usize;
                b[i] ^= 1 << rng.below(8);
            }
            1 => {
                let n = rng.below(b.len() as u64) as usize;
                b.truncate(n);
            }
            2 => {
                for _ in 0..(1 + rng.below(30)) {
                    b.push(rng.next() as u8);
                }
            }
            3 => {
                // one more record for an id that is already there (or not): the count is raised
                let c = u32::from_le_bytes([b[0], b[1], b[2], b[3]]) + 1;
                b[0..4].copy_from_slice(&c.to_le_bytes());
                let id = if !ents.is_empty() && rng.chance(2, 3) { *ents.keys().nth(rng.below(ents.len() as u64) as usize).unwrap() } else { rng.below(20) };
                b.extend_from_slice(&id.to_le_bytes());
                b.extend_from_slice(&(rng.next() as u32).to_le_bytes());
                b.extend_from_slice(&rng.below(1000).to_le_bytes());
                b.extend_from_slice(&rng.next().to_le_bytes());
            }
            _ => {
                let i = rng.below(b.len() as u64) as usize;
                b[i] = rng.next() as u8;
            }
        }
        if huge_count(&b) {
            st.count("frag.skipped_huge_count");
            continue;
        }
        st.evaluations += 1;
        let real = FragmentationMap::decode_from(&mut &b[..]);
        let model = model_decode(drv, "mfrag", "frag", &b);
        match (real, model) {
            (Err(lsm_tree::Error::Io(e)), Ok(None)) if e.kind() == std::io::ErrorKind::UnexpectedEof => st.count("frag.mut.agree_reject"),
            (Ok(m), Ok(Some((t, rest)))) => {
                st.count("frag.mut.both_accept");
                if rest > 0 {
                    st.count("frag.mut.accept_with_unread_bytes");
                }
                let list = parse_frag(&t).unwrap_or_default();
                if has_dup(list.iter().map(|e| e.0)) {
                    st.count("frag.mut.dup_record");
                }
                let mm = drv.ask(&format!("mfragmap frag={t}"));
                let mm = kv(&mm, "frag").and_then(parse_frag).unwrap_or_default();
                let mut want = FragmentationMap::default();
                for e in &mm {
                    want.insert(e.0, FragmentationEntry::new(e.1 as usize, e.2, e.3));
                }
                if m != want {
                    st.disagreements.push(format!("C07 gc-stats {}: real decode {m:?}, model map {}", hex(&b), frag_text64(&mm)));
                }
            }
            (r, m) => st.disagreements.push(format!("C07 gc-stats {}: real decode {r:?}, model {m:?}", hex(&b))),
        }
    }
}

pub fn manifest(seed: u64, cases: u64, st: &mut Stats, drv: &mut Drv) {
    let mut rng = Rng::new(seed ^ 0x6d61_6e69_6665_7374);
    for _ in 0..cases * 5 {
        let mut r = rng.fork();
        frag_case(&mut r, st, drv);
    }
    for c in 0..cases {
        let mut r = rng.fork();
        let res = std::panic::catch_unwind(std::panic::AssertUnwindSafe(|| tree_case(c, &mut r, st, drv)));
        if let Err(p) = res {
            let msg = p.downcast_ref::<String>().cloned().or_else(|| p.downcast_ref::<&str>().map(|s| s.to_string())).unwrap_or_default();
            st.oracle_failures.push(format!("C04 case {c} (seed {seed}): panic while driving the real tree: {msg}; history: {}", OPLOG.with(|l| l.borrow().join(" ; "))));
        }
        st.count("tree.cases");
    }
}

// ------------------------------------------------------------------------------------------------ replay / shrink of an op log

fn parse_bound(s: &str) -> Bound<K> {
    // `Included([98, 1])` / `Excluded([..])` / `Unbounded`
    if s.starts_with("Unbounded") {
        return Bound::Unbounded;
    }
    let inner = &s[s.find('[').map_or(0, |i| i + 1)..s.find(']').unwrap_or(s.len())];
    let k: Vec<u8> = inner.split(',').filter_map(|x| x.trim().parse().ok()).collect();
    if s.starts_with("Included") { Bound::Included(k) } else { Bound::Excluded(k) }
}

/// executes an op log (the `history:` text of a failure, ops separated by ` ; `) on a fresh real tree
fn exec_log(ops: &[String]) -> Result<(), String> {
    let r = std::panic::catch_unwind(std::panic::AssertUnwindSafe(|| -> Result<(), String> {
        let f = |l: &str, k: &str| -> Option<String> { l.split(' ').find_map(|w| w.strip_prefix(&format!("{k}=")).map(str::to_string)) };
        let cfgl = &ops[0];
        let blob = if cfgl.contains("blob=None") { None } else {
            let inner = &cfgl[cfgl.find("((").unwrap() + 2..cfgl.find("))").unwrap()];
            let mut i = inner.split(',').map(|x| x.trim().parse::<u64>().unwrap());
            Some((i.next().unwrap() as u32, i.next().unwrap()))
        };
        let cfg = TreeCfg { block_size: f(cfgl, "block_size").unwrap().parse().unwrap(), blob };
        let dir = tempfile::tempdir_in(crate::scratch_root()).unwrap();
        let (seqno, vis) = (SequenceNumberCounter::default(), SequenceNumberCounter::default());
        let mut tree = Some(open_tree(dir.path(), &cfg, &seqno, &vis).map_err(|e| format!("open: {e:?}"))?);
        let mut ing: Vec<(K, Option<usize>)> = vec![];
        for l in &ops[1..] {
            let w: Vec<&str> = l.split(' ').collect();
            let t = tree.as_ref().unwrap();
            match w[0] {
                "insert" => {
                    let s = seqno.next();
                    t.insert(unhex(w[1]), vec![b'x'; f(l, "len").unwrap().parse().unwrap()], s);
                    vis.fetch_max(s + 1);
                }
                "remove" => {
                    let s = seqno.next();
                    t.remove(unhex(w[1]), s);
                    vis.fetch_max(s + 1);
                }
                "rotate" => { t.rotate_memtable(); }
                "flush" => { t.flush_active_memtable(f(l, "wm").unwrap().parse().unwrap()).map_err(|e| format!("flush: {e:?}"))?; }
                "leveled" => {
                    let s = lsm_tree::compaction::Leveled::default().with_l0_threshold(f(l, "l0").unwrap().parse().unwrap()).with_table_target_size(f(l, "target").unwrap().parse().unwrap());
                    t.compact(Arc::new(s), f(l, "wm").unwrap().parse().unwrap()).map_err(|e| format!("leveled: {e:?}"))?;
                }
                "major" => { t.major_compact(f(l, "target").unwrap().parse().unwrap(), f(l, "wm").unwrap().parse().unwrap()).map_err(|e| format!("major: {e:?}"))?; }
                "movedown" => {
                    let (a, b): (u8, u8) = (w[1].parse().unwrap(), w[2].parse().unwrap());
                    let lv: Vec<usize> = crate::ib::index_tree(t).current_version().iter_levels().map(|l| l.len()).collect();
                    if ((a as usize + 1)..b as usize).all(|i| lv[i] == 0) {
                        t.compact(Arc::new(lsm_tree::compaction::MoveDown(a, b)), 0).map_err(|e| format!("movedown: {e:?}"))?;
                    }
                }
                "ingest" => ing.push((unhex(w[1]), Some(f(l, "len").unwrap().parse().unwrap()))),
                "ingest-tomb" => ing.push((unhex(w[1]), None)),
                "ingest-finish" => {
                    ing.sort();
                    ing.dedup_by(|a, b| a.0 == b.0);
                    if !ing.is_empty() {
                        let mut i = t.ingestion().map_err(|e| format!("ingestion: {e:?}"))?;
                        for (k, v) in ing.drain(..) {
                            match v {
                                Some(n) => i.write(k, vec![b'y'; n]).map_err(|e| format!("ingest write: {e:?}"))?,
                                None => i.write_tombstone(k).map_err(|e| format!("ingest tomb: {e:?}"))?,
                            }
                        }
                        i.finish().map_err(|e| format!("ingest finish: {e:?}"))?;
                    }
                }
                "drop_range" => {
                    let rest = l["drop_range ".len()..].to_string();
                    let cut = rest.find(") ").map_or(rest.find(' ').unwrap(), |i| i + 1);
                    let (lo, hi) = (parse_bound(rest[..cut].trim()), parse_bound(rest[cut..].trim()));
                    t.drop_range::<K, _>((lo, hi)).map_err(|e| format!("drop_range: {e:?}"))?;
                }
                "reopen" => {
                    tree = None;
                    tree = Some(open_tree(dir.path(), &cfg, &seqno, &vis).map_err(|e| format!("reopen: {e:?}"))?);
                }
                _ => {}
            }
            if std::env::var("LSMVERIF_DUMP").is_ok() {
                if let Some(t) = tree.as_ref() {
                    eprintln!("after `{l}`: {}", crate::ib::canon_state_raw(t, dir.path(), seqno.get(), vis.get()));
                }
            }
        }
        // every key readable, and a final major compaction works
        let t = tree.as_ref().unwrap();
        for g in t.iter(lsm_tree::SeqNo::MAX, None) {
            use lsm_tree::Guard;
            g.into_inner().map_err(|e| format!("scan: {e:?}"))?;
        }
        Ok(())
    }));
    match r {
        Ok(x) => x,
        Err(p) => Err(format!("panic: {}", p.downcast_ref::<String>().cloned().or_else(|| p.downcast_ref::<&str>().map(|s| s.to_string())).unwrap_or_default())),
    }
}

/// `ia manifest-replay <file> [--shrink]`: re-executes the history text (first line of the file); ddmin-style shrinking
pub fn replay_log(path: &str, shrink: bool, st: &mut Stats) {
    let text = std::fs::read_to_string(path).unwrap();
    let line = text.lines().next().unwrap_or("");
    let line = line.strip_prefix("history: ").unwrap_or(line);
    let mut ops: Vec<String> = line.split(" ; ").map(|s| s.trim().to_string()).filter(|s| !s.is_empty()).collect();
    let first = exec_log(&ops);
    st.evaluations += 1;
    let Err(e0) = first else {
        st.sample("replayed history runs without failure".into());
        return;
    };
    let class = |e: &str| e.chars().take(40).collect::<String>();
    if shrink {
        let mut changed = true;
        while changed {
            changed = false;
            let mut i = 1;
            while i < ops.len() {
                let mut cand = ops.clone();
                cand.remove(i);
                st.evaluations += 1;
                if let Err(e) = exec_log(&cand) {
                    if class(&e) == class(&e0) {
                        ops = cand;
                        changed = true;
                        continue;
                    }
                }
                i += 1;
            }
        }
    }
    st.oracle_failures.push(format!("history fails on the real tree: {e0}; history: {}", ops.join(" ; ")));
}
