//! Shared helpers: seeded RNG, hex / entry codecs, the `lsmdrv` child process, result accounting.
use lsm_tree::{InternalValue, SeqNo, ValueType};
use std::collections::BTreeMap;
use std::io::{BufRead, BufReader, Write};
use std::process::{Child, ChildStdin, ChildStdout, Command, Stdio};

/// splitmix64 — every random choice of the harness derives from one of these
#[derive(Clone)]
pub struct Rng(pub u64);
impl Rng {
    pub fn new(seed: u64) -> Self {
        Rng(seed)
    }
    pub fn next(&mut self) -> u64 {
        self.0 = self.0.wrapping_add(0x9E37_79B9_7F4A_7C15);
        let mut z = self.0;
        z = (z ^ (z >> 30)).wrapping_mul(0xBF58_476D_1CE4_E5B9);
        z = (z ^ (z >> 27)).wrapping_mul(0x94D0_49BB_1331_11EB);
        z ^ (z >> 31)
    }
    pub fn below(&mut self, n: u64) -> u64 {
        if n == 0 {
            0
        } else {
            self.next() % n
        }
    }
    pub fn chance(&mut self, num: u64, den: u64) -> bool {
        self.below(den) < num
    }
    pub fn pick<'a, T>(&mut self, v: &'a [T]) -> &'a T {
        &v[self.below(v.len() as u64) as usize]
    }
    pub fn fork(&mut self) -> Rng {
        Rng(self.next())
    }
    /// an independent stream (for a thread's own choices)
    pub fn fork_stream(&mut self) -> Rng {
        Rng(self.next() ^ 0x5bd1_e995_9e37_79b9)
    }
}

pub type K = Vec<u8>;

pub fn hex(b: &[u8]) -> String {
    let mut s = String::with_capacity(b.len() * 2);
    for x in b {
        s.push_str(&format!("{x:02x}"));
    }
    s
}
pub fn unhex(s: &str) -> Vec<u8> {
    (0..s.len() / 2).map(|i| u8::from_str_radix(&s[2 * i..2 * i + 2], 16).unwrap()).collect()
}

/// plain-data entry (what the model calls `Entry`)
#[derive(Clone, Debug, PartialEq, Eq, PartialOrd, Ord)]
pub struct Ent {
    pub key: K,
    pub seqno: SeqNo,
    pub vt: u8, // 0 V, 1 T, 2 W, 4 I
    pub val: Vec<u8>,
}
impl Ent {
    pub fn vt_char(&self) -> char {
        match self.vt {
            0 => 'V',
            1 => 'T',
            2 => 'W',
            _ => 'I',
        }
    }
    pub fn show(&self) -> String {
        format!("{}:{}:{}:{}", hex(&self.key), self.seqno, self.vt_char(), hex(&self.val))
    }
    pub fn to_internal(&self) -> InternalValue {
        InternalValue::from_components(self.key.clone(), self.val.clone(), self.seqno, vt_of(self.vt))
    }
    pub fn of_internal(v: &InternalValue) -> Ent {
        Ent { key: v.key.user_key.to_vec(), seqno: v.key.seqno, vt: u8::from(v.key.value_type), val: v.value.to_vec() }
    }
    pub fn is_tomb(&self) -> bool {
        self.vt == 1 || self.vt == 2
    }
}
pub fn vt_of(b: u8) -> ValueType {
    ValueType::try_from(b).unwrap()
}
pub fn show_ents(l: &[Ent]) -> String {
    l.iter().map(Ent::show).collect::<Vec<_>>().join(",")
}
pub fn show_opt_ent(e: &Option<Ent>) -> String {
    match e {
        Some(e) => e.show(),
        None => "-".into(),
    }
}
pub fn show_ids<T: std::fmt::Display>(l: &[T]) -> String {
    l.iter().map(|x| x.to_string()).collect::<Vec<_>>().join(",")
}

/// internal-key order: user key ascending, seqno descending
pub fn ik_cmp(a: &Ent, b: &Ent) -> std::cmp::Ordering {
    a.key.cmp(&b.key).then(b.seqno.cmp(&a.seqno))
}

/// FNV-1a verdict hash shared with `Driver/Codec.lean`
pub fn verdict_code(seed: u64, key: &[u8], val: &[u8]) -> u64 {
    let mut h: u64 = seed ^ 0xcbf2_9ce4_8422_2325;
    for b in key.iter().chain(std::iter::once(&0xffu8)).chain(val.iter()) {
        h = (h ^ u64::from(*b)).wrapping_mul(0x0100_0000_01b3);
    }
    (h >> 17) % 8
}

/// the model driver as a child process (line protocol)
pub struct Drv {
    child: Child,
    stdin: ChildStdin,
    stdout: BufReader<ChildStdout>,
    pub requests: u64,
}
impl Drv {
    pub fn spawn() -> Drv {
        let path = std::env::var("LSMDRV").unwrap_or_else(|_| "/verif/lean/.lake/build/bin/lsmdrv".into());
        let mut child = Command::new(&path)
            .stdin(Stdio::piped())
            .stdout(Stdio::piped())
            .spawn()
            .unwrap_or_else(|e| panic!("cannot start model driver {path}: {e}"));
        let stdin = child.stdin.take().unwrap();
        let stdout = BufReader::new(child.stdout.take().unwrap());
        let mut d = Drv { child, stdin, stdout, requests: 0 };
        let hello = d.ask("hello");
        assert!(hello.starts_with("ok lsmdrv"), "unexpected driver greeting: {hello}");
        d
    }
    pub fn ask(&mut self, req: &str) -> String {
        debug_assert!(!req.contains('\n'));
        self.requests += 1;
        self.stdin.write_all(req.as_bytes()).unwrap();
        self.stdin.write_all(b"\n").unwrap();
        self.stdin.flush().unwrap();
        let mut line = String::new();
        let n = self.stdout.read_line(&mut line).unwrap();
        if n == 0 {
            panic!("model driver died on request: {req}");
        }
        line.trim_end().to_string()
    }
}
impl Drop for Drv {
    fn drop(&mut self) {
        let _ = self.child.kill();
        let _ = self.child.wait();
    }
}

/// accounting for one instrument run; printed as one JSON line at the end
#[derive(Default)]
pub struct Stats {
    pub evaluations: u64,
    pub nontrivial: std::collections::BTreeSet<u64>,
    pub counters: BTreeMap<String, u64>,
    pub samples: Vec<String>,
    pub disagreements: Vec<String>, // model vs implementation
    pub oracle_failures: Vec<String>, // implementation vs property oracle
    pub known_findings: Vec<String>,
}
impl Stats {
    pub fn count(&mut self, k: &str) {
        *self.counters.entry(k.to_string()).or_default() += 1;
    }
    pub fn add(&mut self, k: &str, n: u64) {
        *self.counters.entry(k.to_string()).or_default() += n;
    }
    pub fn sample(&mut self, s: String) {
        if self.samples.len() < 3 {
            self.samples.push(s);
        }
    }
    pub fn nontrivial_case(&mut self, digest_src: &str) {
        self.nontrivial.insert(fnv(digest_src.as_bytes()));
    }
    pub fn merge(&mut self, o: Stats) {
        self.evaluations += o.evaluations;
        self.nontrivial.extend(o.nontrivial);
        for (k, v) in o.counters {
            *self.counters.entry(k).or_default() += v;
        }
        for s in o.samples {
            self.sample(s);
        }
        self.disagreements.extend(o.disagreements);
        self.oracle_failures.extend(o.oracle_failures);
        self.known_findings.extend(o.known_findings);
    }
    pub fn to_json(&self) -> String {
        let esc = |s: &str| {
            let mut o = String::new();
            for c in s.chars() {
                match c {
                    '"' => o.push_str("\\\""),
                    '\\' => o.push_str("\\\\"),
                    '\n' => o.push_str("\\n"),
                    '\t' => o.push_str("\\t"),
                    c if (c as u32) < 0x20 => o.push_str(&format!("\\u{:04x}", c as u32)),
                    c => o.push(c),
                }
            }
            o
        };
        let list = |v: &Vec<String>| v.iter().map(|s| format!("\"{}\"", esc(s))).collect::<Vec<_>>().join(",");
        let counters = self.counters.iter().map(|(k, v)| format!("\"{}\":{}", esc(k), v)).collect::<Vec<_>>().join(",");
        format!(
            "{{\"evaluations\":{},\"distinct_nontrivial\":{},\"counters\":{{{}}},\"samples\":[{}],\"disagreements\":[{}],\"oracle_failures\":[{}],\"known_findings\":[{}]}}",
            self.evaluations,
            self.nontrivial.len(),
            counters,
            list(&self.samples),
            list(&self.disagreements),
            list(&self.oracle_failures),
            list(&self.known_findings),
        )
    }
}

pub fn fnv(b: &[u8]) -> u64 {
    let mut h: u64 = 0xcbf2_9ce4_8422_2325;
    for x in b {
        h = (h ^ u64::from(*x)).wrapping_mul(0x0100_0000_01b3);
    }
    h
}

/// adversarial key alphabet / key sets (DESIGN.md Appendix C)
pub const ALPHA: [u8; 6] = [0x00, 0x01, 0x61, 0x62, 0xfe, 0xff];
pub fn gen_key(rng: &mut Rng) -> K {
    let len = 1 + rng.below(3) as usize;
    (0..len).map(|_| *rng.pick(&ALPHA)).collect()
}
pub fn gen_keyset(rng: &mut Rng, n: usize) -> Vec<K> {
    let mut ks = std::collections::BTreeSet::new();
    let mut guard = 0;
    while ks.len() < n && guard < 10_000 {
        guard += 1;
        let k = gen_key(rng);
        // prefix-related keys are welcome: extend an existing key sometimes
        if !ks.is_empty() && rng.chance(3, 10) {
            let base: K = ks.iter().nth(rng.below(ks.len() as u64) as usize).cloned().unwrap();
            let mut k2 = base.clone();
            k2.push(*rng.pick(&ALPHA));
            if k2.len() <= 4 {
                ks.insert(k2);
                continue;
            }
        }
        ks.insert(k);
    }
    ks.into_iter().collect()
}

/// a sorted multi-version slab over a key set: each key gets 0..=max_versions versions with descending seqnos
pub fn gen_source(rng: &mut Rng, keys: &[K], seq_hi: u64, max_versions: usize, density: u64) -> Vec<Ent> {
    let mut out = vec![];
    for k in keys {
        if !rng.chance(density, 100) {
            continue;
        }
        let n = 1 + rng.below(max_versions as u64) as usize;
        let mut seqs = std::collections::BTreeSet::new();
        for _ in 0..n {
            seqs.insert(rng.below(seq_hi));
        }
        for s in seqs.into_iter().rev() {
            let vt = match rng.below(10) {
                0 | 1 => 1u8,
                2 | 3 => 2u8,
                _ => 0u8,
            };
            let val = if vt == 0 { format!("{}@{}", hex(k), s).into_bytes() } else { vec![] };
            out.push(Ent { key: k.clone(), seqno: s, vt, val });
        }
    }
    out
}


// ------------------------------------------------------------------------------------------------ last-gasp crash report
// Corrupted inputs can drive the code under test into SIGSEGV / SIGBUS / abort (unsafe block decoding). The instrument then
// still has to name the input: before each probe it renders the RESULT line it wants printed if the process dies.
static mut CRASH_BUF: [u8; 4096] = [0; 4096];
static CRASH_LEN: std::sync::atomic::AtomicUsize = std::sync::atomic::AtomicUsize::new(0);

pub fn crash_note(evaluations: u64, msg: &str) {
    let esc: String = msg.chars().filter(|c| *c != '"' && *c != '\\' && !c.is_control()).take(3000).collect();
    let line = format!("RESULT {{\"evaluations\":{evaluations},\"distinct_nontrivial\":1,\"counters\":{{}},\"samples\":[],\"disagreements\":[],\"oracle_failures\":[\"{esc}\"],\"known_findings\":[]}}\n");
    let b = line.as_bytes();
    let n = b.len().min(4096);
    CRASH_LEN.store(0, std::sync::atomic::Ordering::SeqCst);
    unsafe {
        let dst = std::ptr::addr_of_mut!(CRASH_BUF) as *mut u8;
        std::ptr::copy_nonoverlapping(b.as_ptr(), dst, n);
    }
    CRASH_LEN.store(n, std::sync::atomic::Ordering::SeqCst);
}

/// what the supervisor of the flip instrument reads when a worker dies: `CRASH idx=<probe> known=<0|1> <message>`
pub fn crash_line(idx: u64, known: bool, msg: &str) {
    let clean: String = msg.chars().filter(|c| !c.is_control()).take(3000).collect();
    let line = format!("CRASH idx={idx} known={} {clean}\n", u8::from(known));
    let b = line.as_bytes();
    let n = b.len().min(4096);
    CRASH_LEN.store(0, std::sync::atomic::Ordering::SeqCst);
    unsafe {
        let dst = std::ptr::addr_of_mut!(CRASH_BUF) as *mut u8;
        std::ptr::copy_nonoverlapping(b.as_ptr(), dst, n);
    }
    CRASH_LEN.store(n, std::sync::atomic::Ordering::SeqCst);
}

pub fn crash_note_clear() {
    CRASH_LEN.store(0, std::sync::atomic::Ordering::SeqCst);
}

extern "C" fn on_crash(sig: i32) {
    unsafe {
        let n = CRASH_LEN.load(std::sync::atomic::Ordering::SeqCst);
        if n > 0 {
            let src = std::ptr::addr_of!(CRASH_BUF) as *const u8;
            libc::write(1, src as *const libc::c_void, n);
            libc::_exit(0);
        }
        libc::_exit(128 + sig);
    }
}

pub fn install_crash_reporter() {
    unsafe {
        for s in [libc::SIGSEGV, libc::SIGBUS, libc::SIGABRT, libc::SIGILL, libc::SIGFPE] {
            libc::signal(s, on_crash as usize);
        }
    }
}
