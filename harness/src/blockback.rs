//! blockback — the real data block iterators (`DataBlock::iter` forwards / backwards / after the four seeks, `point_read`)
//! against the Lean model. Protocol (one request line -> one answer line):
//!   decback   bytes=<hex>                                   -> items=<ents>
//!   blockwalk bytes=<hex> pre=<..> key=<hex> word=<F|B>*    -> r=<-|0|1> items=<optent>|<optent>|...
//!   blockget  bytes=<hex> key=<hex> seq=<n>                 -> item=<optent>
//! A panic of the real code is the implementation answer `panic`.
use crate::util::*;
use lsm_tree::table::block::decoder::ParsedItem;
use lsm_tree::table::block::{BlockType, Header};
use lsm_tree::table::{Block, DataBlock};
use lsm_tree::Checksum;
use std::collections::BTreeSet;
use std::panic::{catch_unwind, AssertUnwindSafe};

const REPLAY_DIR: &str = "/tmp/prover_a/replays";
const REPLAY_FILE_CAP: u64 = 400;

fn clip(s: &str, n: usize) -> String {
    if s.len() <= n {
        s.to_string()
    } else {
        let mut m = n;
        while !s.is_char_boundary(m) {
            m -= 1;
        }
        format!("{}…[{} chars]", &s[..m], s.len())
    }
}

fn mismatch(st: &mut Stats, what: &str, ctx: &str, req: &str, detail: &str) {
    st.disagreements.push(format!("{what}: {ctx}: {detail}; request `{}`", clip(req, 3000)));
}

fn data_block_of(bytes: Vec<u8>) -> DataBlock {
    DataBlock::new(Block {
        header: Header { block_type: BlockType::Data, checksum: Checksum::from_raw(0), data_length: bytes.len() as u32, uncompressed_length: bytes.len() as u32 },
        data: bytes.into(),
    })
}

fn first_diff_pos(a: &str, b: &str) -> usize {
    a.bytes().zip(b.bytes()).position(|(x, y)| x != y).unwrap_or(a.len().min(b.len()))
}

// ------------------------------------------------------------------------------------------------ generators

fn gen_seq(rng: &mut Rng) -> u64 {
    match rng.below(12) {
        0..=4 => rng.below(16),
        5 | 6 => 120 + rng.below(1000),
        7 | 8 => 16_380 + rng.below(1 << 20),
        9 => rng.below(1 << 40),
        10 => u64::MAX / 2 - 2 + rng.below(5),
        _ => (1 << 21) - 2 + rng.below(4),
    }
}

fn gen_val(rng: &mut Rng, vt: u8) -> Vec<u8> {
    if vt == 1 || vt == 2 {
        return vec![];
    }
    let len = match rng.below(10) {
        0 => 0,
        1 => 127 + rng.below(3) as usize,
        _ => 1 + rng.below(12) as usize,
    };
    (0..len).map(|_| rng.next() as u8).collect()
}

fn gen_vt(rng: &mut Rng) -> u8 {
    match rng.below(10) {
        0 | 1 => 1,
        2 => 2,
        3 => 4,
        _ => 0,
    }
}

fn short_key(rng: &mut Rng, maxlen: u64) -> K {
    let len = 1 + rng.below(maxlen) as usize;
    (0..len).map(|_| *rng.pick(&ALPHA)).collect()
}

/// the item count: boundary-heavy around the restart interval
fn gen_count(rng: &mut Rng, ri: usize) -> usize {
    let n = match rng.below(24) {
        0 => 1,
        1 => 2,
        2 => ri.saturating_sub(1),
        3 => ri,
        4 => ri + 1,
        5 => 2 * ri,
        6 => 2 * ri + 1,
        7 => 100 + rng.below(501) as usize,
        _ => 1 + rng.below(40) as usize,
    };
    n.max(1)
}

/// `n` distinct (key, seqno) pairs in internal-key order; returns the family name too
fn gen_items(rng: &mut Rng, ri: usize, n: usize) -> (Vec<Ent>, &'static str) {
    let mut set: BTreeSet<(K, u64)> = BTreeSet::new();
    let family = match rng.below(3) {
        0 => "short",
        1 => "prefix",
        _ => "versions",
    };
    let mut guard = 0;
    match family {
        "short" => {
            let maxlen = if n > 150 { 4 } else if n > 30 { 3 } else { 2 };
            let mut pool: Vec<K> = vec![];
            while set.len() < n && guard < 100_000 {
                guard += 1;
                // re-use a key (another version) fairly often
                let k = if !pool.is_empty() && rng.chance(2, 5) { rng.pick(&pool).clone() } else { short_key(rng, maxlen) };
                pool.push(k.clone());
                set.insert((k, gen_seq(rng)));
            }
        }
        "prefix" => {
            let plen = 20 + rng.below(181) as usize;
            let prefix: K = (0..plen).map(|_| if rng.chance(1, 4) { *rng.pick(&ALPHA) } else { rng.next() as u8 }).collect();
            let mut pool: Vec<K> = vec![];
            while set.len() < n && guard < 100_000 {
                guard += 1;
                let k = if !pool.is_empty() && rng.chance(1, 4) {
                    rng.pick(&pool).clone()
                } else {
                    let mut k = prefix.clone();
                    match rng.below(12) {
                        0 => {} // the bare prefix: a proper prefix of its neighbours
                        1 => {
                            // a key that leaves the common prefix early
                            k.truncate(1 + rng.below(plen as u64) as usize);
                            k.push(rng.next() as u8);
                        }
                        _ => k.extend(short_key(rng, if n > 100 { 4 } else { 2 })),
                    }
                    k
                };
                pool.push(k.clone());
                set.insert((k, gen_seq(rng)));
            }
        }
        _ => {
            // many versions of ONE key (they straddle restart intervals) among a few other keys
            let cap = (3 * ri + 2).min(60);
            let m = if rng.chance(1, 2) { cap } else { 1 + rng.below(cap as u64) as usize };
            let hot = if rng.chance(1, 3) {
                let mut k: K = (0..30).map(|_| rng.next() as u8).collect();
                k.extend(short_key(rng, 2));
                k
            } else {
                short_key(rng, 3)
            };
            let dense = rng.chance(1, 2);
            let base = gen_seq(rng).min(u64::MAX / 2);
            while set.iter().filter(|(k, _)| *k == hot).count() < m && guard < 100_000 {
                guard += 1;
                let s = if dense { base + rng.below(2 * m as u64 + 2) } else { gen_seq(rng) };
                set.insert((hot.clone(), s));
            }
            while set.len() < n.max(m) && guard < 200_000 {
                guard += 1;
                let k = if rng.chance(1, 6) {
                    // neighbours of the hot key
                    let mut k = hot.clone();
                    if rng.chance(1, 2) {
                        k.push(*rng.pick(&ALPHA));
                    } else if k.len() > 1 {
                        k.pop();
                    }
                    k
                } else {
                    short_key(rng, 3)
                };
                set.insert((k, gen_seq(rng)));
            }
        }
    }
    let mut items: Vec<Ent> = set
        .into_iter()
        .map(|(key, seqno)| {
            let vt = gen_vt(rng);
            let val = gen_val(rng, vt);
            Ent { key, seqno, vt, val }
        })
        .collect();
    items.sort_by(ik_cmp);
    (items, family)
}

fn gen_word(rng: &mut Rng, n: usize) -> String {
    let len = match rng.below(10) {
        0 => rng.below(4) as usize,
        1 | 2 => rng.below(n as u64 + 3) as usize,
        3 => n,
        _ => n + 3,
    };
    match rng.below(6) {
        0 => "F".repeat(len),
        1 => "B".repeat(len),
        2 => (0..len).map(|i| if i % 2 == 0 { 'F' } else { 'B' }).collect(),
        3 => (0..len).map(|i| if i % 2 == 0 { 'B' } else { 'F' }).collect(),
        _ => {
            // random mix, with a random bias so that one side sometimes runs far ahead
            let bias = 1 + rng.below(9);
            (0..len).map(|_| if rng.below(10) < bias { 'F' } else { 'B' }).collect()
        }
    }
}

/// a needle and the name of its class
fn gen_needle(rng: &mut Rng, items: &[Ent], ri: usize, allow_empty: bool) -> (K, &'static str) {
    let first = &items[0].key;
    let last = &items[items.len() - 1].key;
    let (k, what): (K, &'static str) = match rng.below(12) {
        0 | 1 => (rng.pick(items).key.clone(), "block_key"),
        2 | 3 => {
            let heads = items.len().div_ceil(ri);
            let i = rng.below(heads as u64) as usize * ri;
            (items[i].key.clone(), "restart_head")
        }
        4 => {
            let mut k = first.clone();
            let l = k.len() - 1;
            if k[l] > 0 && rng.chance(2, 3) {
                k[l] -= 1;
            } else {
                k.pop(); // a proper prefix (possibly empty)
            }
            (k, "below_first")
        }
        5 => {
            let mut k = last.clone();
            k.push(0);
            (k, "above_last")
        }
        6 => ((if rng.chance(1, 2) { first } else { last }).clone(), "first_or_last_key"),
        7 | 8 => {
            let mut k = rng.pick(items).key.clone();
            match rng.below(3) {
                0 => k.push(0),
                1 => {
                    let l = k.len() - 1;
                    k[l] = k[l].wrapping_add(1);
                }
                _ => {
                    let l = k.len() - 1;
                    k[l] = k[l].wrapping_sub(1);
                }
            }
            (k, "between")
        }
        9 => {
            // a proper prefix of / an extension of a key of the block
            let mut k = rng.pick(items).key.clone();
            if k.len() > 1 && rng.chance(1, 2) {
                k.truncate(1 + rng.below(k.len() as u64 - 1) as usize);
            } else {
                k.push(*rng.pick(&ALPHA));
            }
            (k, "prefix_related")
        }
        _ => (short_key(rng, 3), "random"),
    };
    if k.is_empty() && !allow_empty {
        return (vec![0], "below_first");
    }
    (k, what)
}

// ------------------------------------------------------------------------------------------------ the real side

fn mat(db: &DataBlock, i: Option<lsm_tree::table::data_block::DataBlockParsedItem>) -> Option<Ent> {
    i.map(|i| Ent::of_internal(&i.materialize(db.as_slice())))
}

fn real_decback(db: &DataBlock) -> Option<Vec<Ent>> {
    catch_unwind(AssertUnwindSafe(|| db.iter().rev().map(|i| Ent::of_internal(&i.materialize(db.as_slice()))).collect::<Vec<_>>())).ok()
}

fn real_forward(db: &DataBlock) -> Option<Vec<Ent>> {
    catch_unwind(AssertUnwindSafe(|| db.iter().map(|i| Ent::of_internal(&i.materialize(db.as_slice()))).collect::<Vec<_>>())).ok()
}

fn real_walk(db: &DataBlock, pre: &str, key: &[u8], word: &str) -> String {
    catch_unwind(AssertUnwindSafe(|| {
        let mut it = db.iter();
        let r = match pre {
            "seek" => Some(it.seek(key)),
            "seekupper" => Some(it.seek_upper(key)),
            "seekx" => Some(it.seek_exclusive(key)),
            "seekupperx" => Some(it.seek_upper_exclusive(key)),
            _ => None,
        };
        let mut outs: Vec<String> = Vec::with_capacity(word.len());
        for c in word.chars() {
            let x = if c == 'F' { it.next() } else { it.next_back() };
            outs.push(show_opt_ent(&mat(db, x)));
        }
        let r = match r {
            None => "-",
            Some(true) => "1",
            Some(false) => "0",
        };
        format!("r={r} items={}", outs.join("|"))
    }))
    .unwrap_or_else(|_| "panic".into())
}

fn real_get(db: &DataBlock, key: &[u8], seq: u64) -> String {
    catch_unwind(AssertUnwindSafe(|| {
        let e = db.point_read(key, seq).map(|v| Ent::of_internal(&v));
        format!("item={}", show_opt_ent(&e))
    }))
    .unwrap_or_else(|_| "panic".into())
}

// ------------------------------------------------------------------------------------------------ the campaign

struct Cmp<'a> {
    seed: u64,
    case: u64,
    n: u64,
    ctx: &'a str,
    files: &'a mut u64,
}

impl Cmp<'_> {
    fn check(&mut self, st: &mut Stats, drv: &mut Drv, what: &str, req: &str, imp: &str) {
        let model = drv.ask(req);
        st.evaluations += 1;
        st.count("blockback.requests");
        st.nontrivial_case(req);
        if imp == "panic" {
            st.count("blockback.real_panics");
        }
        self.n += 1;
        if imp != model {
            let path = format!("{REPLAY_DIR}/{}_{}_{}.txt", self.seed, self.case, self.n);
            let saved = if *self.files < REPLAY_FILE_CAP && std::fs::create_dir_all(REPLAY_DIR).is_ok() && std::fs::write(&path, format!("{req}\n")).is_ok() {
                *self.files += 1;
                format!("full request line in {path}")
            } else {
                "full request line NOT saved (replay file cap reached or write error)".to_string()
            };
            let at = first_diff_pos(imp, &model);
            let from = at.saturating_sub(60);
            let tail = |s: &str| clip(s.get(from..).unwrap_or(s), 500);
            let head = |s: &str| clip(s, 800);
            mismatch(
                st,
                what,
                self.ctx,
                req,
                &format!("implementation `{}` model `{}`; first difference at byte {at}: implementation `…{}` model `…{}`; {saved}", head(imp), head(&model), tail(imp), tail(&model)),
            );
        }
    }
}

pub fn run(seed: u64, cases: u64, st: &mut Stats, drv: &mut Drv) {
    let mut rng = Rng::new(seed ^ 0xb10c_bac4);
    let mut files = 0u64;
    for case in 0..cases {
        let mut rng = rng.fork();
        st.count("blockback.cases");
        let ri = *rng.pick(&[1u8, 2, 3, 16, 255]);
        let hr = *rng.pick(&[0.0f32, 0.75, 8.0]);
        let riu = ri as usize;
        let big = rng.chance(1, 40);
        let n = if big { 24 + rng.below(17) as usize } else { gen_count(&mut rng, riu) };
        let (mut items, family) = gen_items(&mut rng, riu, n);
        if big {
            for e in items.iter_mut() {
                if !e.is_tomb() || rng.chance(3, 4) {
                    e.vt = if e.vt == 4 { 4 } else { 0 };
                    e.val = vec![(e.seqno % 251) as u8; 2900 + rng.below(300) as usize];
                }
            }
        }
        let n = items.len();
        st.count(&format!("blockback.ri.{ri}"));
        st.count(&format!("blockback.hr.{hr}"));
        st.count(&format!("blockback.family.{family}"));
        st.count(match n {
            1 => "blockback.n.1",
            2 => "blockback.n.2",
            3..=40 => "blockback.n.3_40",
            41..=99 => "blockback.n.41_99",
            _ => "blockback.n.100_plus",
        });
        if n == riu || n == riu + 1 || n + 1 == riu || n == 2 * riu || n == 2 * riu + 1 {
            st.count("blockback.n.at_restart_boundary");
        }
        // one key whose versions lie in more than one restart interval
        let mut straddle = false;
        let mut i = 0;
        while i < n {
            let mut j = i;
            while j + 1 < n && items[j + 1].key == items[i].key {
                j += 1;
            }
            if i / riu != j / riu {
                straddle = true;
            }
            i = j + 1;
        }
        if straddle {
            st.count("blockback.multi_version_straddle");
        }
        let ctx = format!("blockback seed={seed} case={case} ri={ri} hr={hr} n={n} family={family}{}", if big { " big" } else { "" });
        let iv: Vec<_> = items.iter().map(Ent::to_internal).collect();
        let bytes = match catch_unwind(AssertUnwindSafe(|| DataBlock::encode_into_vec(&iv, ri, hr))) {
            Ok(Ok(b)) => b,
            Ok(Err(e)) => {
                st.oracle_failures.push(format!("blockback: encode_into_vec failed: {ctx}: {e:?}; items `{}`", clip(&show_ents(&items), 1500)));
                continue;
            }
            Err(_) => {
                st.oracle_failures.push(format!("blockback: encode_into_vec panicked: {ctx}; items `{}`", clip(&show_ents(&items), 1500)));
                continue;
            }
        };
        if bytes.len() > 65_535 {
            st.count("blockback.u32_index");
        }
        let hexbytes = hex(&bytes);
        let db = data_block_of(bytes);
        if db.get_hash_index_reader().is_some() {
            st.count("blockback.hash_index");
        }
        let mut cmp = Cmp { seed, case, n: 0, ctx: &ctx, files: &mut files };

        // ---- oracle (real side only): forwards == items, backwards == items reversed
        let fwd = real_forward(&db);
        if fwd.as_deref() != Some(&items[..]) {
            st.oracle_failures.push(format!(
                "blockback: forward iteration differs from the encoded items: {ctx}: items `{}` iterated `{}`",
                clip(&show_ents(&items), 1500),
                fwd.as_ref().map_or("panic".to_string(), |g| clip(&show_ents(g), 1500))
            ));
        }
        let back = real_decback(&db);
        let mut rev = items.clone();
        rev.reverse();
        if back.as_deref() != Some(&rev[..]) {
            st.oracle_failures.push(format!(
                "blockback: reverse iteration differs from the reversed items: {ctx}: items `{}` iter().rev() `{}`",
                clip(&show_ents(&items), 1500),
                back.as_ref().map_or("panic".to_string(), |g| clip(&show_ents(g), 1500))
            ));
        }

        // ---- 1. decback
        {
            let req = format!("decback bytes={hexbytes}");
            let imp = back.as_ref().map_or("panic".to_string(), |g| format!("items={}", show_ents(g)));
            cmp.check(st, drv, "DataBlock::iter().rev()", &req, &imp);
        }

        // ---- 2. blockwalk: every pre variant once, plus one more
        let mut pres = vec!["none", "seek", "seekupper", "seekx", "seekupperx"];
        pres.push(*rng.pick(&["none", "seek", "seekupper", "seekx", "seekupperx"]));
        for pre in pres {
            let (key, needle) = if pre == "none" { (vec![], "none") } else { gen_needle(&mut rng, &items, riu, true) };
            let word = gen_word(&mut rng, n);
            st.count(&format!("blockback.pre.{pre}"));
            if pre != "none" {
                st.count(&format!("blockback.needle.{needle}"));
                if key.is_empty() {
                    st.count("blockback.needle.empty");
                }
            }
            if word.len() > n {
                st.count("blockback.word.beyond_exhaustion");
            }
            if word.contains('F') && word.contains('B') {
                st.count("blockback.word.mixed");
            }
            let req = format!("blockwalk bytes={hexbytes} pre={pre} key={} word={word}", hex(&key));
            let imp = real_walk(&db, pre, &key, &word);
            if imp.starts_with("r=0") {
                st.count("blockback.seek_false");
            } else if imp.starts_with("r=1") {
                st.count("blockback.seek_true");
            }
            cmp.check(st, drv, &format!("DataBlock::iter walk pre={pre}"), &req, &imp);
        }

        // ---- 3. blockget
        for _ in 0..4 {
            let (key, needle) = gen_needle(&mut rng, &items, riu, true);
            let versions: Vec<u64> = items.iter().filter(|e| e.key == key).map(|e| e.seqno).collect();
            let (seq, seqkind) = match rng.below(8) {
                0 => (0, "0"),
                1 => (1, "1"),
                2 => (u64::MAX, "max"),
                3 | 4 if !versions.is_empty() => (*rng.pick(&versions), "version"),
                5 | 6 if !versions.is_empty() => (rng.pick(&versions).saturating_add(1), "version_plus_1"),
                _ => (gen_seq(&mut rng), "random"),
            };
            st.count(&format!("blockback.get.needle.{needle}"));
            st.count(&format!("blockback.get.seq.{seqkind}"));
            let req = format!("blockget bytes={hexbytes} key={} seq={seq}", hex(&key));
            let imp = real_get(&db, &key, seq);
            if imp != "item=-" && imp != "panic" {
                st.count("blockback.get.hit");
            }
            // oracle: the first version (internal-key order) of the key with seqno < seq
            let want = items.iter().find(|e| e.key == key && e.seqno < seq).cloned();
            if imp != "panic" && imp != format!("item={}", show_opt_ent(&want)) {
                st.oracle_failures.push(format!(
                    "blockback: point_read differs from the first version below the read seqno: {ctx}: key={} seq={seq}: implementation `{}` expected `item={}`; items `{}`",
                    hex(&key),
                    clip(&imp, 600),
                    clip(&show_opt_ent(&want), 600),
                    clip(&show_ents(&items), 1500)
                ));
            }
            cmp.check(st, drv, "DataBlock::point_read", &req, &imp);
        }

        // ---- 4. blockseekcheck: the byte-level seek / seek_upper of the model against the ITEM-level block model
        //         (Blocks.blockSeekRi / seekUpperBound) on the real bytes; the expected answer is the constant `agree`
        for _ in 0..2 {
            let (key, needle) = gen_needle(&mut rng, &items, riu, false);
            st.count(&format!("blockback.seekcheck.needle.{needle}"));
            let req = format!("blockseekcheck bytes={hexbytes} key={}", hex(&key));
            cmp.check(st, drv, "byte-level seek vs item-level seek (model/model on real bytes)", &req, "agree");
        }
    }
    st.add("blockback.replay_files", files);
}
