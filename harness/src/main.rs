//! `lsmverif` — correspondence harness between fjall-rs/lsm-tree (the real crate, in-process) and the Lean model
//! (`lsmdrv`, line protocol). See /verif/DESIGN.md section 5.
mod ia;
mod ia2;
mod ia3;
mod ia4;
mod blockback;
mod ixb;
mod archive;
mod flip;
mod fs;
mod ib;
mod id;
mod util;

use util::{Drv, Stats};

/// scratch space for trees: tmpfs if available (removed per case)
pub fn scratch_root() -> std::path::PathBuf {
    let p = std::env::var("LSMVERIF_SCRATCH").map(std::path::PathBuf::from).unwrap_or_else(|_| {
        if std::path::Path::new("/dev/shm").is_dir() {
            "/dev/shm/lsmverif".into()
        } else {
            std::env::temp_dir().join("lsmverif")
        }
    });
    std::fs::create_dir_all(&p).unwrap();
    p
}

fn arg_u64(args: &[String], name: &str, default: u64) -> u64 {
    args.iter().position(|a| a == name).and_then(|i| args.get(i + 1)).and_then(|v| v.parse().ok()).unwrap_or(default)
}

static LAST_PANIC: std::sync::Mutex<String> = std::sync::Mutex::new(String::new());

fn main() {
    // panics of the code under test are caught per case and reported through the result line
    if std::env::var("LSMVERIF_PANIC_TRACE").is_err() {
        std::panic::set_hook(Box::new(|info| {
            // remembered for the last-resort report below (a panic no per-case guard caught)
            if let Ok(mut l) = LAST_PANIC.lock() {
                *l = format!("{info}").chars().take(600).collect();
            }
        }));
    }
    let args: Vec<String> = std::env::args().collect();
    let cmd = args.get(1).map(String::as_str).unwrap_or("");
    let seed = arg_u64(&args, "--seed", 1);
    let cases = arg_u64(&args, "--cases", 200);
    let mut st = Stats::default();
    if cmd == "fs" {
        fs::main(&args);
        return;
    }
    let outcome = std::panic::catch_unwind(std::panic::AssertUnwindSafe(|| run(cmd, &args, seed, cases, &mut st)));
    if outcome.is_err() {
        // every case runs under its own guard; a panic that reaches this point (e.g. in glue around the modelled core) is
        // still a failure of the real code on a generated input, reported instead of dying without a RESULT line
        let msg = LAST_PANIC.lock().map(|l| l.clone()).unwrap_or_default();
        st.oracle_failures.push(format!("PANIC outside any per-case guard while running `{}`: {msg}", args[1..].join(" ")));
    }
    println!("RESULT {}", st.to_json());
}

fn run(cmd: &str, args: &[String], seed: u64, cases: u64, st: &mut Stats) {
    let mut st = st;
    match cmd {
        "ia" => {
            let which = args.get(2).map(String::as_str).unwrap_or("all");
            let mut drv = Drv::spawn();
            let all = which == "all";
            if all || which == "cstream" {
                ia::cstream(seed, cases, &mut st, &mut drv);
            }
            if all || which == "mvcc" {
                ia::mvcc(seed, cases, &mut st, &mut drv);
            }
            if all || which == "merge" {
                ia::merge(seed, cases, &mut st, &mut drv);
            }
            if all || which == "runs" {
                ia::runs(seed, cases, &mut st, &mut drv);
            }
            if all || which == "supers" {
                ia::supers(seed, cases, &mut st, &mut drv);
            }
            if all || which == "small" {
                ia::small(seed, cases, &mut st, &mut drv);
            }
            if all || which == "tables" {
                ia2::tables(seed, cases, &mut st, &mut drv);
            }
            if all || which == "frames" {
                ia2::frames(seed, cases, &mut st, &mut drv);
            }
            if all || which == "filters" {
                ia2::filters(seed, cases, &mut st, &mut drv);
            }
            if which == "manifest-replay" {
                ia3::replay_log(&args[3], args.iter().any(|a| a == "--shrink"), &mut st);
            }
            if all || which == "manifest" {
                ia3::manifest(seed, cases, &mut st, &mut drv);
            }
            if which == "bigblob" {
                ia4::bigblob(seed, cases, st);
            }
            if all || which == "hwm" {
                ia4::hwm(seed, cases, &mut st, &mut drv);
            }
            if all || which == "blockback" {
                blockback::run(seed, cases, &mut st, &mut drv);
            }
            if all || which == "ixb" {
                ixb::run(seed, cases, &mut st, &mut drv);
            }
            if which == "archive" {
                // C10 file level: sfa archive layout (LsmModel.Fs.Archive); not part of `all` (~ 1400 driver requests per case)
                archive::run(&mut drv, &mut st, seed, cases);
            }
            st.add("driver.requests", drv.requests);
        }
        "id" => {
            let inflight = args.iter().any(|a| a == "--inflight");
            let blob = arg_u64(&args, "--blob", 0) == 1;
            if args.iter().any(|a| a == "--stress") {
                id::stress(seed, cases, blob, &mut st);
            } else {
                id::campaign(seed, cases, inflight, blob, args.iter().any(|a| a == "--deep"), &mut st);
            }
        }
        "flip" => {
            let thorough = args.iter().any(|a| a == "--thorough");
            if args.iter().any(|a| a == "--worker") {
                flip::run(seed, cases.max(1), thorough, &mut st, std::path::Path::new("/verif/work/replays"), true, arg_u64(&args, "--skip", 0));
            } else {
                flip::run_supervised(seed, cases.max(1), thorough, &mut st);
            }
        }
        "ib" => {
            let profile = ib::Profile::parse(args.get(2).map(String::as_str).unwrap_or("all"));
            let blob = arg_u64(&args, "--blob", 0) as u8;
            let max_ops = arg_u64(&args, "--ops", 50);
            let threads = arg_u64(&args, "--threads", std::thread::available_parallelism().map_or(8, |n| n.get() as u64)) as usize;
            let with_model = arg_u64(&args, "--model", 1) == 1;
            let replay_dir = args.iter().position(|a| a == "--replay-dir").and_then(|i| args.get(i + 1)).cloned().unwrap_or_else(|| "/verif/work/replays".into());
            if args.iter().any(|a| a == "--shared-cache") {
                ib::shared_cache_campaign(seed, cases, max_ops, 3, &mut st);
            } else if let Some(i) = args.iter().position(|a| a == "--replay") {
                ib::replay(&args[i + 1], with_model, &mut st);
            } else {
                ib::campaign(profile, blob, seed, cases, max_ops, threads, with_model, std::path::Path::new(&replay_dir), &mut st);
            }
        }
        _ => {
            eprintln!("usage: lsmverif ia <cstream|mvcc|merge|runs|supers|small|all> [--seed N] [--cases N]");
            std::process::exit(2);
        }
    }
}

