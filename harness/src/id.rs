//! Instrument I-D: controlled schedules (property C06).
//!
//! Feature-gated scheduling points sit outside the engine's lock-held regions. A cooperative controller lets exactly one
//! thread run from point to point, so a real concurrent execution becomes a reproducible sequence of segments, each
//! containing at most one critical section = one label of the Lean model. After every segment the controller (all
//! threads parked) diffs the tree state, infers the label that was committed, replays it through `lsmdrv` with step
//! validation, and evaluates the oracles: reads at published snapshots, no error / panic, all acknowledged writes present
//! at the end, reopen equals the flushed state.
//!
//! mode "atomic": the writer's seqno allocation + insert is one segment (every state is P2-quiescent), full model
//! validation. mode "inflight": the insert may be pre-empted after its seqno was drawn; readers then follow P2 (no
//! snapshot while a write below it is in flight) and only the oracles are evaluated.
use crate::ib::{canon_state_raw, digest_of, index_tree};
use crate::util::*;
use lsm_tree::verif_api as va;
use lsm_tree::{AbstractTree, AnyTree, Config, SeqNo, SequenceNumberCounter};
use std::cell::Cell;
use std::collections::{BTreeMap, BTreeSet};
use std::sync::atomic::{AtomicU64, Ordering};
use std::sync::{Arc, Condvar, Mutex};

#[derive(Default)]
struct SchedState {
    current: Option<usize>,
    waiting: Vec<Option<&'static str>>,
    done: Vec<bool>,
    trace: Vec<(usize, &'static str)>,
    skip_write_point: bool,
    /// OS thread ids (for /proc/self/task/<tid>/syscall)
    ostid: Vec<u64>,
    /// the thread did not reach its next point because it sleeps on an engine lock (futex) held by a parked thread
    blocked: Vec<bool>,
}
struct Sched {
    st: Mutex<SchedState>,
    cv: Condvar,
}
thread_local! { static TID: Cell<Option<usize>> = const { Cell::new(None) }; }
static SCHED: std::sync::OnceLock<Arc<Sched>> = std::sync::OnceLock::new();

fn point(name: &'static str) {
    let Some(tid) = TID.with(Cell::get) else { return }; // threads not under control run freely
    let s = SCHED.get().unwrap();
    let mut g = s.st.lock().unwrap();
    if g.skip_write_point && (name == "write") {
        return;
    }
    g.waiting[tid] = Some(name);
    g.blocked[tid] = false; // a thread that slept on an engine lock parks here as soon as it got the lock
    if g.current == Some(tid) {
        g.current = None;
    }
    s.cv.notify_all();
    while g.current != Some(tid) {
        g = s.cv.wait(g).unwrap();
    }
    g.waiting[tid] = None;
    g.trace.push((tid, name));
}

fn key_of(k: u8) -> Vec<u8> {
    if k >= 100 { vec![b'z', k, 0xff] } else { vec![b'k', k, 0xff] }
}

fn os_tid() -> u64 {
    std::fs::read_link("/proc/thread-self").ok().and_then(|p| p.file_name().and_then(|n| n.to_str().and_then(|n| n.parse().ok()))).unwrap_or(0)
}

/// is the thread sleeping in futex(2)? (std's RwLock / Mutex park there; file I/O shows another syscall number)
fn in_futex(tid: u64) -> bool {
    std::fs::read_to_string(format!("/proc/self/task/{tid}/syscall")).map(|s| s.starts_with("202 ")).unwrap_or(false)
}

#[derive(Clone)]
struct Snap {
    hist_latest: va::HistoryEntry,
    mem_entries: BTreeMap<u64, Vec<Ent>>,
}

fn snap(tree: &AnyTree) -> Snap {
    let t = index_tree(tree);
    let h = va::dump_history(t);
    let sv = va::latest_super_version(t);
    let mut mem_entries = BTreeMap::new();
    for m in va::sealed_memtables(&sv).iter().chain(std::iter::once(&sv.active_memtable)) {
        mem_entries.insert(m.id(), m.iter().map(|v| Ent::of_internal(&v)).collect());
    }
    Snap { hist_latest: h.last().unwrap().clone(), mem_entries }
}

fn cuts_for(tree: &AnyTree, ids: &[u64]) -> String {
    let v = index_tree(tree).current_version();
    ids.iter().map(|id| { let t = v.iter_tables().find(|t| t.id() == *id).unwrap(); format!("{}:{}", id, t.metadata.item_count) }).collect::<Vec<_>>().join(",")
}

/// what model label explains the difference between two quiescent states (at most one critical section apart)?
fn infer(before: &Snap, after: &Snap, tree: &AnyTree, wm: SeqNo, drop_hint: bool) -> Result<Option<String>, String> {
    let (b, a) = (&before.hist_latest, &after.hist_latest);
    // a write: some memtable gained entries
    for (id, ents) in &after.mem_entries {
        if let Some(old) = before.mem_entries.get(id) {
            if old.len() != ents.len() {
                let new: Vec<&Ent> = ents.iter().filter(|e| !old.contains(e)).collect();
                return Ok(Some(format!("write es={}", new.iter().map(|e| e.show()).collect::<Vec<_>>().join(","))));
            }
        }
    }
    if b == a {
        return Ok(None);
    }
    if b.version_id == a.version_id {
        // rotate: same version, new active memtable
        if a.active_memtable_id != b.active_memtable_id {
            return Ok(Some(format!("rotate mem={}", a.active_memtable_id)));
        }
        return Err(format!("history entry changed without a new version: {b:?} -> {a:?}"));
    }
    let bt: BTreeSet<u64> = b.table_ids.iter().flatten().flatten().copied().collect();
    let at: BTreeSet<u64> = a.table_ids.iter().flatten().flatten().copied().collect();
    let removed: Vec<u64> = bt.difference(&at).copied().collect();
    let added: Vec<u64> = a.table_ids.iter().flatten().flatten().copied().filter(|i| !bt.contains(i)).collect();
    let gone_sealed: Vec<u64> = b.sealed_memtable_ids.iter().copied().filter(|i| !a.sealed_memtable_ids.contains(i)).collect();
    let level_of = |l: &Vec<Vec<Vec<u64>>>, id: u64| l.iter().position(|lvl| lvl.iter().any(|r| r.contains(&id)));
    if !gone_sealed.is_empty() {
        return Ok(Some(format!("flushcommit ids={} wm={wm} cuts={}", show_ids(&gone_sealed), cuts_for(tree, &added))));
    }
    if !added.is_empty() {
        let dest = level_of(&a.table_ids, added[0]).unwrap();
        return Ok(Some(format!("merge ids={} dest={dest} wm={wm} filter=none cuts={}", show_ids(&removed), cuts_for(tree, &added))));
    }
    let moved: Vec<u64> = bt.intersection(&at).copied().filter(|i| level_of(&b.table_ids, *i) != level_of(&a.table_ids, *i)).collect();
    if !moved.is_empty() {
        let dest = level_of(&a.table_ids, moved[0]).unwrap();
        return Ok(Some(format!("move ids={} dest={dest} wm={wm}", show_ids(&moved))));
    }
    if !removed.is_empty() && drop_hint {
        return Ok(Some(format!("drop ids={} wm={wm}", show_ids(&removed))));
    }
    if !removed.is_empty() {
        // a merge whose whole output was dropped
        return Ok(Some(format!("merge ids={} dest=6 wm={wm} filter=none cuts=", show_ids(&removed))));
    }
    // new version with identical content (e.g. a flush of an all-dropped stream)
    Ok(Some(format!("drop ids= wm={wm}")))
}

/// replay one sequential step of the prelude through the model: the label is inferred from the state difference (or forced)
#[allow(clippy::too_many_arguments)]
fn sync_step(drv: &mut Option<Drv>, tree: &AnyTree, dir: &std::path::Path, ctr: u64, vis: u64, before: &mut Snap, forced: Option<&str>) -> Option<String> {
    let after = snap(tree);
    let req = match forced {
        Some(r) => Some(r.to_string()),
        None => match infer(before, &after, tree, 0, false) {
            Ok(r) => r,
            Err(e) => return Some(format!("prelude: {e}")),
        },
    };
    *before = after;
    if let (Some(d), Some(req)) = (drv.as_mut(), req) {
        let reply = d.ask(&req);
        let real = canon_state_raw(tree, dir, ctr, vis);
        let want = format!("digest={}", digest_of(&real));
        if !reply.starts_with(&want) || !reply.ends_with("inv=ok") {
            let dump = d.ask("dump");
            return Some(format!("prelude label `{}`: model reply `{}`\n   real : {real}\n   model: {dump}", &req[..req.len().min(200)], &reply[..reply.len().min(80)]));
        }
    }
    None
}

pub fn campaign(seed: u64, cases: u64, mode_inflight: bool, blob: bool, deep: bool, st: &mut Stats) {
    let sched = SCHED.get_or_init(|| Arc::new(Sched { st: Mutex::new(SchedState::default()), cv: Condvar::new() })).clone();
    let _ = va::SCHED_HOOK.set(Box::new(point));
    let mut drv = if mode_inflight { None } else { Some(Drv::spawn()) };
    let mut distinct = BTreeSet::new();
    for case in 0..cases {
        if std::env::var("LSMVERIF_PROGRESS").is_ok() { eprintln!("case {case}"); }
        let mut rng = Rng::new(seed.wrapping_mul(65_537).wrapping_add(case).wrapping_add(if mode_inflight { 1 << 40 } else { 0 }));
        let dir = tempfile::tempdir_in(crate::scratch_root()).unwrap();
        let (seqno, vis) = (SequenceNumberCounter::default(), SequenceNumberCounter::default());
        let mk = |seqno: &SequenceNumberCounter, vis: &SequenceNumberCounter| {
            let c = Config::new(dir.path(), seqno.clone(), vis.clone()).data_block_size_policy(lsm_tree::config::BlockSizePolicy::all(*[1u32, 64, 4096].get((case % 3) as usize).unwrap()));
            if blob {
                c.with_kv_separation(Some(lsm_tree::KvSeparationOptions::default().separation_threshold(8).file_target_size(64).compression(lsm_tree::CompressionType::None)))
            } else {
                c
            }
        };
        let mut tree = mk(&seqno, &vis).open().unwrap();
        if let Some(d) = drv.as_mut() {
            let req = if blob { "new levels=7 blob=8".to_string() } else { "new levels=7".to_string() };
            d.ask(&req);
        }
        // oracle log: (seqno, key idx, Some(value) | None=delete), appended BEFORE the insert; `acked` = highest seqno whose insert returned
        let log: Arc<Mutex<Vec<(SeqNo, u8, Option<Vec<u8>>)>>> = Arc::new(Mutex::new(vec![]));
        let nkeys = 3 + rng.below(4) as u8;
        let mut model_err: Option<String> = None;
        // prelude (half of the cases): the threads start on a REOPENED tree (recovered counters, table ids, memtable ids)
        if rng.chance(1, 2) {
            let mut before = snap(&tree);
            for _ in 0..(2 + rng.below(4)) {
                let k = rng.below(u64::from(nkeys)) as u8;
                let s = seqno.next();
                let v = format!("v{s}{}", ".".repeat((s % 3) as usize * 6)).into_bytes();
                log.lock().unwrap().push((s, k, Some(v.clone())));
                tree.insert(key_of(k), v, s);
                vis.fetch_max(s + 1);
                model_err = model_err.or(sync_step(&mut drv, &tree, dir.path(), seqno.get(), vis.get(), &mut before, None));
            }
            tree.rotate_memtable();
            model_err = model_err.or(sync_step(&mut drv, &tree, dir.path(), seqno.get(), vis.get(), &mut before, None));
            tree.flush_active_memtable(0).unwrap();
            model_err = model_err.or(sync_step(&mut drv, &tree, dir.path(), seqno.get(), vis.get(), &mut before, None));
            drop(tree);
            tree = mk(&seqno, &vis).open().unwrap();
            model_err = model_err.or(sync_step(&mut drv, &tree, dir.path(), seqno.get(), vis.get(), &mut before, Some("reopen")));
            st.count("id.cases_on_reopened_tree");
        }
        let tree = tree;
        let n_writes = if deep { 80 + rng.below(80) } else { 12 + rng.below(30) };
        let n_compactors = 1 + rng.below(3) as usize; // at most 3 (wms has 8 slots)
        let n_readers = 1 + rng.below(2) as usize;
        let nthreads = 4 + n_compactors + n_readers; // 0 writer, 1 flusher, compactors, readers, major / drop_range, last: rotator
        {
            let mut g = sched.st.lock().unwrap();
            *g = SchedState { current: None, waiting: vec![None; nthreads], done: vec![false; nthreads], trace: vec![], skip_write_point: !mode_inflight, ostid: vec![0; nthreads], blocked: vec![false; nthreads] };
        }
        let inflight: Arc<Mutex<Option<SeqNo>>> = Arc::new(Mutex::new(None));
        let errors: Arc<Mutex<Vec<String>>> = Arc::new(Mutex::new(vec![]));
        let live_snaps: Arc<Mutex<Vec<SeqNo>>> = Arc::new(Mutex::new(vec![]));
        let wms: Arc<Vec<AtomicU64>> = Arc::new((0..12).map(|_| AtomicU64::new(0)).collect());
        let reads_checked = Arc::new(AtomicU64::new(0));
        let drop_calls = Arc::new(AtomicU64::new(0));
        let major_op = Arc::new(AtomicU64::new(0));
        let mut blocked_seen = 0u64;
        let mut stalled = 0u32;
        let key = key_of;
        let mut hs = vec![];
        let spawn = |tid: usize, f: Box<dyn FnOnce() + Send>| {
            let sched = sched.clone();
            let errors = errors.clone();
            std::thread::spawn(move || {
                TID.with(|t| t.set(Some(tid)));
                sched.st.lock().unwrap().ostid[tid] = os_tid();
                point("start");
                if std::panic::catch_unwind(std::panic::AssertUnwindSafe(f)).is_err() {
                    errors.lock().unwrap().push(format!("C06 thread {tid} panicked"));
                }
                let mut g = sched.st.lock().unwrap();
                g.done[tid] = true;
                if g.current == Some(tid) {
                    g.current = None;
                }
                g.blocked[tid] = false;
                g.waiting[tid] = None;
                sched.cv.notify_all();
            })
        };
        let wm_now = {
            let (live_snaps, vis) = (live_snaps.clone(), vis.clone());
            move |sel: u64| -> SeqNo {
                let top = live_snaps.lock().unwrap().iter().copied().min().unwrap_or(vis.get()).min(vis.get());
                match sel % 3 {
                    0 => 0,
                    1 => top,
                    _ => top / 2,
                }
            }
        };
        {
            let (tree, seqno, vis, log, inflight) = (tree.clone(), seqno.clone(), vis.clone(), log.clone(), inflight.clone());
            let mut wrng = rng.fork_stream();
            hs.push(spawn(0, Box::new(move || {
                let mut zphase = false;
                for _ in 0..n_writes {
                    // keys k* are read back by the readers; keys z* (index 100+) are what drop_range removes
                    // written in phases, so that whole memtables (and the tables flushed from them) hold z keys only
                    if wrng.chance(1, 5) {
                        zphase = !zphase;
                    }
                    let k = if zphase { 100 + wrng.below(3) as u8 } else { wrng.below(u64::from(nkeys)) as u8 };
                    let s = seqno.next();
                    *inflight.lock().unwrap() = Some(s);
                    if wrng.chance(1, 5) {
                        log.lock().unwrap().push((s, k, None));
                        tree.remove(key_of(k), s);
                    } else {
                        let v = format!("v{s}{}", ".".repeat((s % 3) as usize * 6)).into_bytes();
                        log.lock().unwrap().push((s, k, Some(v.clone())));
                        tree.insert(key_of(k), v, s);
                    }
                    *inflight.lock().unwrap() = None;
                    vis.fetch_max(s + 1);
                    point("write_done");
                }
            })));
        }
        {
            let (tree, errors, wm_now, wms) = (tree.clone(), errors.clone(), wm_now.clone(), wms.clone());
            let n = if deep { 12 + rng.below(18) } else { 3 + rng.below(6) };
            let mut frng = rng.fork_stream();
            hs.push(spawn(1, Box::new(move || {
                for _ in 0..n {
                    let wm = wm_now(frng.next());
                    wms[1].store(wm, Ordering::SeqCst);
                    if let Err(e) = tree.flush_active_memtable(wm) {
                        errors.lock().unwrap().push(format!("C06 flush returned an error: {e:?}"));
                    }
                    point("flush_done");
                }
            })));
        }
        for c in 0..n_compactors {
            let (tree, errors, wm_now, wms) = (tree.clone(), errors.clone(), wm_now.clone(), wms.clone());
            let n = if deep { 15 + rng.below(25) } else { 4 + rng.below(10) };
            let mut crng = rng.fork_stream();
            hs.push(spawn(2 + c, Box::new(move || {
                for _ in 0..n {
                    let wm = wm_now(crng.next());
                    wms[2 + c].store(wm, Ordering::SeqCst);
                    let strat = lsm_tree::compaction::Leveled::default().with_l0_threshold(1 + (crng.below(2) as u8)).with_table_target_size(*crng.pick(if deep { &[64u64, 128, 256][..] } else { &[1u64, 64, 4096][..] }));
                    if let Err(e) = tree.compact(Arc::new(strat), wm) {
                        errors.lock().unwrap().push(format!("C06 compact returned an error: {e:?}"));
                    }
                    point("compact_done");
                }
            })));
        }
        for r in 0..n_readers {
            let (tree, log, errors, vis2, inflight, live_snaps, reads_checked) = (tree.clone(), log.clone(), errors.clone(), vis.clone(), inflight.clone(), live_snaps.clone(), reads_checked.clone());
            let n = if deep { 12 + rng.below(20) } else { 6 + rng.below(10) };
            let mut rrng = rng.fork_stream();
            hs.push(spawn(2 + n_compactors + r, Box::new(move || {
                for _ in 0..n {
                    // P2: a snapshot is the visible counter, read while no write below it is in flight
                    let s = vis2.get();
                    let in_flight: Option<SeqNo> = *inflight.lock().unwrap(); // copy out: never park while holding a harness lock
                    if let Some(f) = in_flight {
                        if f < s {
                            point("reader_skip");
                            continue;
                        }
                    }
                    if s == 0 {
                        point("reader_skip");
                        continue;
                    }
                    live_snaps.lock().unwrap().push(s);
                    let k = rrng.below(u64::from(nkeys)) as u8;
                    // several reads at the same snapshot, with scheduling points in between ("read" point inside get)
                    for _ in 0..2 {
                        let got = tree.get(vec![b'k', k, 0xff], s).map(|o| o.map(|v| v.to_vec()));
                        let mut want = None;
                        for (q, kk, v) in log.lock().unwrap().iter() {
                            if *q < s && *kk == k {
                                want = v.clone();
                            }
                        }
                        reads_checked.fetch_add(1, Ordering::SeqCst);
                        match got {
                            Ok(g) if g == want => {}
                            Ok(g) => errors.lock().unwrap().push(format!("C06 read of k{k} at published snapshot {s}: got {:?}, model value {:?}", g.map(|v| String::from_utf8_lossy(&v).to_string()), want.map(|v| String::from_utf8_lossy(&v).to_string()))),
                            Err(e) => errors.lock().unwrap().push(format!("C06 read returned an error: {e:?}")),
                        }
                    }
                    let mut ls = live_snaps.lock().unwrap();
                    if let Some(i) = ls.iter().position(|x| *x == s) {
                        ls.remove(i);
                    }
                }
            })));
        }
        {
            // major compaction / drop_range: both take the major-compaction lock exclusively, so they sleep on it while a
            // minor compaction is between its points (the controller sees the futex sleep and schedules the others)
            let (tree, errors, wm_now, wms, drop_calls, major_op) = (tree.clone(), errors.clone(), wm_now.clone(), wms.clone(), drop_calls.clone(), major_op.clone());
            let n = rng.below(4);
            let mut mrng = rng.fork_stream();
            let tid = nthreads - 2;
            hs.push(spawn(tid, Box::new(move || {
                for _ in 0..n {
                    // let the other threads build up some tables first
                    // ... and prefer the moments at which a minor compaction is between its choose and commit steps
                    let patience = mrng.below(120);
                    for i in 0..patience {
                        if i >= 10 && index_tree(&tree).is_compacting() && mrng.chance(1, 2) {
                            break;
                        }
                        point("idle");
                    }
                    let wm = wm_now(mrng.next());
                    wms[tid].store(wm, Ordering::SeqCst);
                    if mrng.chance(1, 3) {
                        major_op.store(1, Ordering::SeqCst);
                        if let Err(e) = tree.major_compact(*mrng.pick(&[1u64, 64, u64::MAX]), wm) {
                            errors.lock().unwrap().push(format!("C06 major_compact returned an error: {e:?}"));
                        }
                    } else {
                        major_op.store(2, Ordering::SeqCst);
                        drop_calls.fetch_add(1, Ordering::SeqCst);
                        match tree.drop_range(vec![b'z']..) {
                            Err(e) => errors.lock().unwrap().push(format!("C06 drop_range returned an error: {e:?}")),
                            Ok(()) => {
                                // same segment as the drop's commit: whatever the schedule, every table inside the range is gone
                                for t in index_tree(&tree).current_version().iter_tables() {
                                    if t.metadata.key_range.min().as_ref() >= b"z".as_slice() {
                                        errors.lock().unwrap().push(format!("C06 drop_range(z..) returned Ok but table {} [{}..{}], which lies inside the range, is still in the tree: the outcome depends on the schedule", t.id(), hex(t.metadata.key_range.min()), hex(t.metadata.key_range.max())));
                                    }
                                }
                            }
                        }
                    }
                    point("major_done");
                }
            })));
        }
        {
            // a thread that only rotates the memtable: lets a rotation land between a flush's snapshot and its commit
            let tree = tree.clone();
            let n = 1 + rng.below(5);
            hs.push(spawn(nthreads - 1, Box::new(move || {
                for _ in 0..n {
                    let _ = tree.rotate_memtable();
                    point("rotate_done");
                }
            })));
        }
        // ---- controller
        let mut steps = 0usize;
        let mut last_pick = 0usize;
        let mut before = snap(&tree);
        let mut prio: Vec<u64> = (0..nthreads).map(|_| rng.next()).collect(); // PCT-style priorities, changed now and then
        let pct = rng.chance(1, 2);
        loop {
            let mut g = sched.st.lock().unwrap();
            while let Some(cur) = g.current {
                let (g2, to) = sched.cv.wait_timeout(g, std::time::Duration::from_micros(300)).unwrap();
                g = g2;
                if to.timed_out() && g.current == Some(cur) && g.waiting[cur].is_none() && !g.done[cur] {
                    // not parked yet: running, in file I/O, or asleep on an engine lock that a parked thread holds
                    let tid = g.ostid[cur];
                    drop(g);
                    let mut asleep = true;
                    for _ in 0..8 {
                        if !in_futex(tid) {
                            asleep = false;
                            break;
                        }
                        std::thread::sleep(std::time::Duration::from_micros(250));
                    }
                    g = sched.st.lock().unwrap();
                    if asleep && g.current == Some(cur) && g.waiting[cur].is_none() && !g.done[cur] {
                        g.blocked[cur] = true;
                        g.current = None;
                        g.trace.push((cur, "BLOCKED"));
                        blocked_seen += 1;
                    }
                }
            }
            if g.done.iter().all(|d| *d) {
                break;
            }
            // quiescent = every live thread is parked at a point, or still asleep on its lock (a thread that was woken by
            // the last segment's unlock runs on to its next point, which precedes its critical section)
            let unsettled: Vec<u64> = (0..nthreads).filter(|t| !g.done[*t] && g.waiting[*t].is_none()).map(|t| if g.blocked[t] { g.ostid[t] } else { 0 }).collect();
            if !unsettled.is_empty() {
                drop(g);
                if unsettled.iter().any(|tid| *tid == 0 || !in_futex(*tid)) {
                    std::thread::sleep(std::time::Duration::from_micros(50));
                    continue;
                }
                g = sched.st.lock().unwrap();
                if (0..nthreads).any(|t| !g.done[t] && g.waiting[t].is_none() && !g.blocked[t]) {
                    continue;
                }
            }
            // all threads parked: quiescent. Validate the segment that just ran.
            if drv.is_some() && model_err.is_none() && steps > 0 {
                let after = snap(&tree);
                let wm = wms[last_pick].load(Ordering::SeqCst);
                let is_drop = last_pick == nthreads - 2 && major_op.load(Ordering::SeqCst) == 2;
                // drop_range passes watermark 0 to its version maintenance
                match infer(&before, &after, &tree, if is_drop { 0 } else { wm }, is_drop) {
                    Ok(Some(req)) => {
                        let d = drv.as_mut().unwrap();
                        let mut reply = d.ask(&req);
                        if reply.starts_with("reject") && req.starts_with("merge") {
                            // the destination of an all-dropped merge is not observable: try the other levels
                            for dest in (1..6).rev() {
                                let r2 = req.replacen("dest=6", &format!("dest={dest}"), 1);
                                reply = d.ask(&r2);
                                if !reply.starts_with("reject") {
                                    break;
                                }
                            }
                        }
                        let real = canon_state_raw(&tree, dir.path(), seqno.get(), vis.get());
                        let want = format!("digest={}", digest_of(&real));
                        if !reply.starts_with(&want) || !reply.ends_with("inv=ok") {
                            let dump = d.ask("dump");
                            model_err = Some(format!("after segment #{steps} label `{}`: model reply `{}`\n   real : {real}\n   model: {dump}", &req[..req.len().min(200)], &reply[..reply.len().min(80)]));
                        }
                        st.count(&format!("id.label.{}", req.split(' ').next().unwrap_or("")));
                        if req.starts_with("drop ids=") && !req.starts_with("drop ids= ") {
                            st.count("id.drop_range_dropped_tables");
                        }
                        if req.starts_with("merge") || req.starts_with("move") {
                            let ids = req.split(' ').find(|x| x.starts_with("ids=")).unwrap_or("ids=");
                            let dest = req.split(' ').find(|x| x.starts_with("dest=")).unwrap_or("dest=0");
                            // admissibility was checked by the model before applying? ask explicitly on the PRE state is not possible any more; counted only
                            let _ = (ids, dest);
                        }
                    }
                    Ok(None) => st.count("id.label.none"),
                    Err(e) => model_err = Some(format!("segment #{steps}: {e}")),
                }
                before = after;
            }
            let runnable: Vec<usize> = (0..nthreads).filter(|t| !g.done[*t] && g.waiting[*t].is_some()).collect();
            if runnable.is_empty() {
                // every live thread looks asleep on a lock: either a sampling artefact (a thread contending for a harness
                // mutex under load parks a moment later) or a genuine deadlock of the engine's locks
                drop(g);
                stalled += 1;
                if stalled > 5000 {
                    let g = sched.st.lock().unwrap();
                    let t: String = g.trace.iter().rev().take(40).rev().map(|(t, n)| format!("{t}:{n}")).collect::<Vec<_>>().join(" ");
                    st.oracle_failures.push(format!("C06 deadlock: threads {:?} sleep on engine locks and no other thread can run [schedule seed={seed} case={case} blob={blob} inflight={mode_inflight}; trace tail: {t}]", (0..nthreads).filter(|t| g.blocked[*t]).collect::<Vec<_>>()));
                    println!("RESULT {}", st.to_json());
                    std::process::exit(0);
                }
                std::thread::sleep(std::time::Duration::from_millis(1));
                continue;
            }
            stalled = 0;
            let pick = if pct {
                if rng.chance(1, 12) {
                    let i = rng.below(nthreads as u64) as usize;
                    prio[i] = rng.next();
                }
                *runnable.iter().max_by_key(|t| prio[**t]).unwrap()
            } else {
                runnable[rng.below(runnable.len() as u64) as usize]
            };
            g.current = Some(pick);
            last_pick = pick;
            steps += 1;
            sched.cv.notify_all();
        }
        for h in hs {
            let _ = h.join();
        }
        // ---- final checks on the real tree
        let mut errs = errors.lock().unwrap().clone();
        if let Some(e) = model_err {
            st.disagreements.push(format!("schedule seed={seed} case={case} blob={blob}: {e}"));
        }
        let s = vis.get();
        let mut want: BTreeMap<u8, Option<Vec<u8>>> = BTreeMap::new();
        for (_, k, v) in log.lock().unwrap().iter() {
            want.insert(*k, v.clone());
        }
        if drop_calls.load(Ordering::SeqCst) > 0 {
            want.retain(|k, _| *k < 100); // what a drop_range leaves of the z keys depends on table boundaries
        }
        st.add("id.threads_seen_asleep_on_engine_lock", blocked_seen);
        st.add("id.drop_range_calls", drop_calls.load(Ordering::SeqCst));
        for (k, v) in &want {
            match tree.get(key(*k), s) {
                Ok(got) => {
                    if got.map(|x| x.to_vec()) != *v {
                        errs.push(format!("C06 acknowledged write lost: final read of k{k} differs from the last write"));
                    }
                }
                Err(e) => errs.push(format!("C06 final read error {e:?}")),
            }
        }
        if index_tree(&tree).is_compacting() {
            errs.push("C06 tables left hidden after all threads finished".into());
        }
        // reopen equals the flushed state
        if tree.flush_active_memtable(0).is_err() {
            errs.push("C06 final flush failed".into());
        }
        drop(tree);
        match mk(&seqno, &vis).open() {
            Ok(t2) => {
                for (k, v) in &want {
                    if t2.get(key(*k), SeqNo::MAX).ok().flatten().map(|x| x.to_vec()) != *v {
                        errs.push(format!("C06 after reopen k{k} differs from the last acknowledged write"));
                    }
                }
            }
            Err(e) => errs.push(format!("C06 reopen failed: {e:?}")),
        }
        let trace: Vec<(usize, &'static str)> = sched.st.lock().unwrap().trace.clone();
        let sig: String = trace.iter().map(|(t, n)| format!("{t}{}", &n[..1])).collect();
        distinct.insert(fnv(sig.as_bytes()));
        st.evaluations += 1;
        st.add("id.segments", steps as u64);
        st.add("id.reads_at_published_snapshots", reads_checked.load(Ordering::SeqCst));
        if drv.is_some() {
            st.count("ib.histories_validated");
        }
        if !errs.is_empty() {
            let t: String = trace.iter().map(|(t, n)| format!("{t}:{n}")).collect::<Vec<_>>().join(" ");
            for e in errs.iter().take(3) {
                st.oracle_failures.push(format!("{e} [schedule seed={seed} case={case} blob={blob} inflight={mode_inflight}; trace: {}]", &t[..t.len().min(600)]));
            }
        } else if case < 2 {
            let t: String = trace.iter().take(40).map(|(t, n)| format!("{t}:{n}")).collect::<Vec<_>>().join(" ");
            st.sample(format!("schedule case {case}: {nthreads} threads, {steps} segments: {t} …"));
        }
        if st.oracle_failures.len() >= 6 {
            break;
        }
    }
    for d in &distinct {
        st.nontrivial.insert(*d);
    }
    st.add("id.distinct_schedules", distinct.len() as u64);
}

/// Free-running stress (no scheduler, no model): the OS picks the interleaving, INSIDE critical sections too, which the
/// cooperative scheduler cannot do. Many writer threads (CPUs oversubscribed, so threads are descheduled at arbitrary
/// instructions) overwrite private keys while one thread keeps rotating + flushing and now and then compacts. Every
/// insert that returned is an acknowledged write: the writer reads it back at once (nobody else writes that key), it
/// must be there when all threads have finished, and after a reopen. `cases` = seconds to run. A failure is a real
/// execution of the real code; its absence proves nothing (sampling of schedules).
pub fn stress(seed: u64, secs: u64, blob: bool, st: &mut Stats) {
    use std::sync::atomic::AtomicBool;
    let cpus = std::thread::available_parallelism().map_or(4, |n| n.get());
    let writers = (cpus * 3).clamp(8, 96);
    let dir = tempfile::tempdir_in(crate::scratch_root()).unwrap();
    let (seqno, vis) = (SequenceNumberCounter::default(), SequenceNumberCounter::default());
    let mk = |seqno: &SequenceNumberCounter, vis: &SequenceNumberCounter| {
        let c = Config::new(dir.path(), seqno.clone(), vis.clone());
        if blob {
            c.with_kv_separation(Some(lsm_tree::KvSeparationOptions::default().separation_threshold(8).file_target_size(4096).compression(lsm_tree::CompressionType::None)))
        } else {
            c
        }
    };
    let tree = mk(&seqno, &vis).open().unwrap();
    let stop = Arc::new(AtomicBool::new(false));
    let fails: Arc<Mutex<Vec<String>>> = Arc::new(Mutex::new(vec![]));
    let writes = Arc::new(AtomicU64::new(0));
    let flushes = Arc::new(AtomicU64::new(0));
    let mut hs = vec![];
    {
        let (tree, stop, fails, flushes) = (tree.clone(), stop.clone(), fails.clone(), flushes.clone());
        hs.push(std::thread::spawn(move || {
            let mut n = 0u64;
            while !stop.load(Ordering::SeqCst) {
                if let Err(e) = tree.flush_active_memtable(0) {
                    fails.lock().unwrap().push(format!("C06 stress: flush returned an error: {e:?}"));
                    break;
                }
                n += 1;
                if n % 48 == 0 {
                    if let Err(e) = tree.major_compact(u64::MAX, 0) {
                        fails.lock().unwrap().push(format!("C06 stress: major_compact returned an error: {e:?}"));
                        break;
                    }
                }
                flushes.fetch_add(1, Ordering::SeqCst);
            }
        }));
    }
    let last: Arc<Vec<Mutex<BTreeMap<u64, u64>>>> = Arc::new((0..writers).map(|_| Mutex::new(BTreeMap::new())).collect());
    for w in 0..writers {
        let (tree, stop, fails, writes, seqno, vis, last) = (tree.clone(), stop.clone(), fails.clone(), writes.clone(), seqno.clone(), vis.clone(), last.clone());
        let mut rng = Rng::new(seed.wrapping_mul(1_000_003).wrapping_add(w as u64));
        hs.push(std::thread::spawn(move || {
            while !stop.load(Ordering::SeqCst) {
                let k = rng.below(24);
                let key = format!("w{w:03}k{k:02}").into_bytes();
                let s = seqno.next();
                let val = format!("value-{s:012}").into_bytes();
                tree.insert(key.clone(), val.clone(), s);
                vis.fetch_max(s + 1);
                last[w].lock().unwrap().insert(k, s);
                writes.fetch_add(1, Ordering::Relaxed);
                match tree.get(&key, SeqNo::MAX) {
                    Ok(Some(v)) if *v == *val => {}
                    Ok(got) => {
                        fails.lock().unwrap().push(format!("C06 stress: writer {w} wrote {} @ {s} (acknowledged) and reads back {:?} right afterwards", String::from_utf8_lossy(&key), got.map(|v| String::from_utf8_lossy(&v).to_string())));
                        stop.store(true, Ordering::SeqCst);
                    }
                    Err(e) => {
                        fails.lock().unwrap().push(format!("C06 stress: read returned an error: {e:?}"));
                        stop.store(true, Ordering::SeqCst);
                    }
                }
                if rng.chance(1, 64) {
                    std::thread::yield_now();
                }
            }
        }));
    }
    let t0 = std::time::Instant::now();
    while t0.elapsed().as_secs() < secs && !stop.load(Ordering::SeqCst) {
        std::thread::sleep(std::time::Duration::from_millis(50));
    }
    stop.store(true, Ordering::SeqCst);
    for h in hs {
        if h.join().is_err() {
            fails.lock().unwrap().push("C06 stress: a thread panicked".into());
        }
    }
    let mut errs = fails.lock().unwrap().clone();
    let check = |t: &AnyTree, when: &str, errs: &mut Vec<String>| {
        for w in 0..writers {
            for (k, s) in last[w].lock().unwrap().iter() {
                let key = format!("w{w:03}k{k:02}").into_bytes();
                let want = format!("value-{s:012}").into_bytes();
                match t.get(&key, SeqNo::MAX) {
                    Ok(Some(v)) if *v == *want => {}
                    Ok(got) => {
                        if errs.len() < 4 {
                            errs.push(format!("C06 stress: acknowledged write lost {when}: {} @ {s} reads {:?}", String::from_utf8_lossy(&key), got.map(|v| String::from_utf8_lossy(&v).to_string())));
                        }
                    }
                    Err(e) => errs.push(format!("C06 stress: read error {when}: {e:?}")),
                }
            }
        }
    };
    check(&tree, "after all threads finished", &mut errs);
    if tree.flush_active_memtable(0).is_err() {
        errs.push("C06 stress: final flush failed".into());
    }
    drop(tree);
    match mk(&seqno, &vis).open() {
        Ok(t2) => check(&t2, "after reopen", &mut errs),
        Err(e) => errs.push(format!("C06 stress: reopen failed: {e:?}")),
    }
    st.evaluations += writes.load(Ordering::SeqCst);
    st.add("stress.writes_read_back", writes.load(Ordering::SeqCst));
    st.add("stress.flushes", flushes.load(Ordering::SeqCst));
    st.add("stress.writer_threads", writers as u64);
    st.add("stress.seconds", t0.elapsed().as_secs());
    st.nontrivial.insert(flushes.load(Ordering::SeqCst));
    st.sample(format!("stress: {writers} writers, {} acknowledged writes read back, {} rotate+flush rounds in {} s", writes.load(Ordering::SeqCst), flushes.load(Ordering::SeqCst), t0.elapsed().as_secs()));
    for e in errs.into_iter().take(4) {
        st.oracle_failures.push(e);
    }
}
