//! Instrument I-A, part 2: ONE table file and its parts — the real writer / readers / codecs of the crate against
//! `LsmModel.Table.{Blocks,Codec,Frame,Bloom,HashIndex}` (through `lsmdrv`, see `Driver/TableDrv.lean` for the protocol).
//!
//!   `ia tables`   C12  table::Writer -> Table::recover -> scan / get / range / metadata; data block codec
//!   `ia frames`   C10  Block::write_into / from_reader / load_block on intact and mutated frames; blob frames
//!   `ia filters`  C11  standard Bloom filter; data block hash index (builder/reader and the block encoder's registrations)
//!
//! Every random choice derives from the seeded `Rng`. Hash VALUES the model needs as data (xxh3) are always obtained
//! from the real code (`Block::write_into`, `Header::encode_into`, `standard_bloom::Builder::get_hash`).
use crate::util::*;
use lsm_tree::coding::Encode;
use lsm_tree::table::block::decoder::ParsedItem;
use lsm_tree::table::block::{hash_index, BlockType, Header};
use lsm_tree::table::filter::standard_bloom::{Builder as BloomBuilder, StandardBloomFilterReader};
use lsm_tree::table::filter::BloomConstructionPolicy;
use lsm_tree::table::{Block, BlockHandle, BlockOffset, DataBlock, Writer};
use lsm_tree::{Cache, Checksum, CompressionType, DescriptorTable, Table, UserKey};
use std::collections::BTreeSet;
use std::ops::Bound;
use std::panic::{catch_unwind, AssertUnwindSafe};
use std::sync::Arc;

fn clip(s: &str, n: usize) -> String {
    if s.len() <= n {
        s.to_string()
    } else {
        format!("{}…[{} chars]", &s[..n], s.len())
    }
}

/// first differing `key=value` field of two answer lines (for `q=` the first differing query)
fn first_diff(imp: &str, model: &str, queries: &[String]) -> String {
    let a: Vec<&str> = imp.split(' ').collect();
    let b: Vec<&str> = model.split(' ').collect();
    for i in 0..a.len().max(b.len()) {
        let x = a.get(i).copied().unwrap_or("<missing>");
        let y = b.get(i).copied().unwrap_or("<missing>");
        if x != y {
            if x.starts_with("q=") && y.starts_with("q=") {
                let xs: Vec<&str> = x[2..].split('/').collect();
                let ys: Vec<&str> = y[2..].split('/').collect();
                for j in 0..xs.len().max(ys.len()) {
                    let p = xs.get(j).copied().unwrap_or("<missing>");
                    let q = ys.get(j).copied().unwrap_or("<missing>");
                    if p != q {
                        return format!("query #{j} `{}`: implementation `{}` model `{}`", queries.get(j).map_or("?", |s| s.as_str()), clip(p, 600), clip(q, 600));
                    }
                }
            }
            return format!("field #{i}: implementation `{}` model `{}`", clip(x, 600), clip(y, 600));
        }
    }
    "identical".into()
}

fn mismatch(st: &mut Stats, what: &str, ctx: &str, req: &str, detail: &str) {
    st.disagreements.push(format!("{what}: {ctx}: {detail}; request `{}`", clip(req, 3000)));
}

fn panic_text(e: Box<dyn std::any::Any + Send>) -> String {
    e.downcast_ref::<String>().cloned().or_else(|| e.downcast_ref::<&str>().map(|s| s.to_string())).unwrap_or_else(|| "?".into())
}

fn gen_word(rng: &mut Rng, n: usize) -> String {
    match rng.below(5) {
        0 => "F".repeat(n),
        1 => "B".repeat(n),
        2 => (0..n).map(|i| if i % 2 == 0 { 'F' } else { 'B' }).collect(),
        _ => (0..n).map(|_| if rng.chance(1, 2) { 'F' } else { 'B' }).collect(),
    }
}

fn shuffle<T>(rng: &mut Rng, v: &mut [T]) {
    for i in (1..v.len()).rev() {
        let j = rng.below(i as u64 + 1) as usize;
        v.swap(i, j);
    }
}

// ================================================================================================ tables (C12)

#[derive(Clone, Debug)]
struct TableCfg {
    bs: u32,
    ri: u8,
    hr: f32,
    part_index: bool,
    part_filter: bool,
    bloom: u8, // 0 bpk 10, 1 fpr 0.01, 2 none (bpk 0)
    gseq: u64,
    meta_part: Option<u32>,
    pin_filter: bool,
    pin_index: bool,
}
impl TableCfg {
    fn gen(rng: &mut Rng) -> TableCfg {
        TableCfg {
            bs: *rng.pick(&[1u32, 16, 64, 256, 4096]),
            ri: *rng.pick(&[1u8, 2, 16]),
            hr: *rng.pick(&[0.0f32, 0.75, 8.0]),
            part_index: rng.chance(1, 2),
            part_filter: rng.chance(1, 2),
            bloom: rng.below(3) as u8,
            gseq: *rng.pick(&[0u64, 7]),
            meta_part: *rng.pick(&[None, Some(8u32), Some(24), Some(200)]),
            pin_filter: rng.chance(1, 2),
            pin_index: rng.chance(1, 2),
        }
    }
    fn policy(&self) -> BloomConstructionPolicy {
        match self.bloom {
            0 => BloomConstructionPolicy::BitsPerKey(10.0),
            1 => BloomConstructionPolicy::FalsePositiveRate(0.01),
            _ => BloomConstructionPolicy::BitsPerKey(0.0),
        }
    }
    fn show(&self) -> String {
        format!(
            "bs={} ri={} hr={} part_index={} part_filter={} bloom={} gseq={} meta_part={:?} pin_filter={} pin_index={}",
            self.bs,
            self.ri,
            self.hr,
            self.part_index,
            self.part_filter,
            ["bpk10", "fpr0.01", "none"][self.bloom as usize],
            self.gseq,
            self.meta_part,
            self.pin_filter,
            self.pin_index
        )
    }
}

fn gen_value(rng: &mut Rng, bs: u32) -> Vec<u8> {
    let len = match rng.below(20) {
        0 | 1 => 0,
        2..=12 => 1 + rng.below(8),
        13..=16 => {
            let b = u64::from(bs.min(300));
            b / 2 + rng.below(b + 2)
        }
        17 | 18 => {
            // larger than a block
            if bs <= 256 {
                u64::from(bs) + 1 + rng.below(300)
            } else if rng.chance(1, 3) {
                u64::from(bs) + 1 + rng.below(900)
            } else {
                1 + rng.below(40)
            }
        }
        _ => {
            if rng.chance(1, 40) {
                // at and beyond the u16 boundary of a length field
                *rng.pick(&[65_535u64, 65_536, 65_537, 70_000, 131_073])
            } else {
                100 + rng.below(200)
            }
        }
    } as usize;
    let fill = *rng.pick(&ALPHA);
    (0..len).map(|i| if i < 4 { rng.below(256) as u8 } else { fill }).collect()
}

/// a sorted (user key ascending, seqno descending) multi-version stream
fn gen_table_items(rng: &mut Rng, bs: u32, allow_seqno_max: bool, st: &mut Stats) -> Vec<Ent> {
    let shape = rng.below(12);
    let nkeys = match shape {
        0 => 1,
        1 | 2 => 1 + rng.below(3) as usize,
        _ => 2 + rng.below(24) as usize,
    };
    let mut keys = gen_keyset(rng, nkeys);
    if rng.chance(1, 4) {
        // long shared prefix
        let l = 8 + rng.below(40) as usize;
        let prefix: Vec<u8> = (0..l).map(|_| *rng.pick(&ALPHA)).collect();
        for k in &mut keys {
            let mut p = prefix.clone();
            p.extend_from_slice(k);
            *k = p;
        }
        st.count("tables.long_shared_prefix");
    }
    if rng.chance(1, 8) {
        // one key larger than small blocks
        let i = rng.below(keys.len() as u64) as usize;
        let l = 70 + rng.below(250) as usize;
        let b = *rng.pick(&ALPHA);
        keys[i].extend(std::iter::repeat(b).take(l));
        st.count("tables.long_key");
    }
    keys.sort();
    keys.dedup();
    let base: u64 = *rng.pick(&[0u64, 0, 0, 1000, 1 << 32, 1 << 56]);
    let seq_hi = 6 + rng.below(40);
    let single = shape == 0 && rng.chance(1, 2);
    // outside the assumption of the range theorem (Blocks R2): an item with seqno u64::MAX
    let with_max = allow_seqno_max && rng.chance(1, 20);
    let mut out = vec![];
    for k in &keys {
        let nver = if single {
            1
        } else {
            match rng.below(20) {
                0..=8 => 1,
                9..=15 => 2 + rng.below(3),
                _ => 5 + rng.below(10),
            }
        };
        let mut seqs = BTreeSet::new();
        for _ in 0..nver {
            seqs.insert(base + rng.below(seq_hi));
        }
        if with_max && rng.chance(1, 3) {
            seqs.insert(u64::MAX);
        }
        for s in seqs.into_iter().rev() {
            let vt = match rng.below(20) {
                0..=3 => 1u8,
                4..=7 => 2,
                8 => 4,
                _ => 0,
            };
            let val = match vt {
                1 | 2 => vec![],
                4 => (0..(4 + rng.below(12))).map(|_| rng.below(256) as u8).collect(),
                _ => gen_value(rng, bs),
            };
            out.push(Ent { key: k.clone(), seqno: s, vt, val });
        }
    }
    out
}

fn absent_keys(rng: &mut Rng, present: &[K]) -> Vec<K> {
    let set: BTreeSet<&K> = present.iter().collect();
    let mut c: Vec<K> = vec![];
    for k in present {
        let mut a = k.clone();
        a.push(0x00);
        c.push(a);
        let mut b = k.clone();
        b.pop();
        c.push(b);
        let mut d = k.clone();
        if let Some(l) = d.last_mut() {
            *l = l.wrapping_add(1);
        }
        c.push(d);
        let mut e = k.clone();
        if let Some(l) = e.last_mut() {
            *l = l.wrapping_sub(1);
        }
        c.push(e);
        let mut f = k.clone();
        f.push(0xff);
        c.push(f);
    }
    for _ in 0..6 {
        c.push(gen_key(rng));
    }
    c.push(vec![]);
    c.push(vec![0x00]);
    c.push(vec![0xff, 0xff, 0xff, 0xff, 0xff]);
    c.retain(|k| !set.contains(k));
    c.sort();
    c.dedup();
    shuffle(rng, &mut c);
    c
}

fn to_bound(rng: &mut Rng, k: &K) -> (Bound<UserKey>, String) {
    match rng.below(2) {
        0 => (Bound::Included(k.as_slice().into()), format!("I{}", hex(k))),
        _ => (Bound::Excluded(k.as_slice().into()), format!("E{}", hex(k))),
    }
}

fn in_lo(b: &Bound<UserKey>, k: &[u8]) -> bool {
    match b {
        Bound::Included(x) => k >= &**x,
        Bound::Excluded(x) => k > &**x,
        Bound::Unbounded => true,
    }
}
fn in_hi(b: &Bound<UserKey>, k: &[u8]) -> bool {
    match b {
        Bound::Included(x) => k <= &**x,
        Bound::Excluded(x) => k < &**x,
        Bound::Unbounded => true,
    }
}

enum Query {
    Get(K, u64),
    Range(Bound<UserKey>, Bound<UserKey>, String),
}

fn data_block_of(bytes: Vec<u8>) -> DataBlock {
    DataBlock::new(Block {
        header: Header { block_type: BlockType::Data, checksum: Checksum::from_raw(0), data_length: bytes.len() as u32, uncompressed_length: bytes.len() as u32 },
        data: bytes.into(),
    })
}
fn block_items(db: &DataBlock) -> Vec<Ent> {
    db.iter().map(|i| Ent::of_internal(&i.materialize(db.as_slice()))).collect()
}

pub fn tables(seed: u64, cases: u64, st: &mut Stats, drv: &mut Drv) {
    let mut rng = Rng::new(seed ^ 0x7ab1e5);
    let dir = tempfile::tempdir_in(crate::scratch_root()).unwrap();
    let cache = Arc::new(Cache::with_capacity_bytes(4_000_000));
    let fds = Arc::new(DescriptorTable::new(16));
    {
        // W6: no item written -> `finish` deletes the file and returns None
        let path = dir.path().join("empty");
        let none = Writer::new(path.clone(), u64::MAX, 0).unwrap().finish().unwrap().is_none() && !path.exists();
        let req = "wtable bs=16 gseq=0 items= q=";
        let model = drv.ask(req);
        st.evaluations += 1;
        if model != if none { "empty" } else { "non-empty" } {
            mismatch(st, "table", "empty stream", req, &format!("implementation finish()==None: {none}, model `{model}`"));
        }
    }
    {
        // directed: blocks ending in (key, seqno u64::MAX) — the corner `Blocks` R2 / `example_seqno_max` describes
        let e = |k: &[u8], s: u64, vt: u8| Ent { key: k.to_vec(), seqno: s, vt, val: if vt == 0 { vec![s as u8] } else { vec![] } };
        let items = vec![e(b"a", 4, 0), e(b"b", u64::MAX, 0), e(b"b", 5, 0), e(b"b", 2, 1), e(b"c", u64::MAX, 2), e(b"d", 1, 0)];
        for (i, bs) in [1u32, 3, 4096].into_iter().enumerate() {
            let cfg = TableCfg { bs, ri: 2, hr: 0.0, part_index: i == 1, part_filter: false, bloom: 0, gseq: 0, meta_part: None, pin_filter: true, pin_index: true };
            let ctx = format!("directed seqno-MAX case [{}]", cfg.show());
            table_case(&mut rng.fork(), &cfg, &items, &[(b"b", u64::MAX), (b"c", u64::MAX), (b"b", 6), (b"c", 0)], u64::MAX - 10 + i as u64, dir.path(), &cache, &fds, &ctx, st, drv);
        }
    }
    for case in 0..cases {
        let cfg = TableCfg::gen(&mut rng);
        let items = gen_table_items(&mut rng, cfg.bs, cfg.gseq == 0, st);
        let ctx = format!("case {case} [{}] {} items", cfg.show(), items.len());
        st.count("tables.cases");
        st.count(&format!("tables.cfg.bs={}", cfg.bs));
        st.count(&format!("tables.cfg.ri={}", cfg.ri));
        st.count(&format!("tables.cfg.hash_ratio={}", cfg.hr));
        st.count(&format!("tables.cfg.bloom={}", ["bpk10", "fpr0.01", "none"][cfg.bloom as usize]));
        if cfg.part_index {
            st.count("tables.cfg.partitioned_index");
        }
        if cfg.part_filter {
            st.count("tables.cfg.partitioned_filter");
        }
        if cfg.gseq > 0 {
            st.count("tables.cfg.global_seqno=7");
        }
        if cfg.meta_part.is_some() {
            st.count("tables.cfg.small_meta_partitions");
        }
        let r = catch_unwind(AssertUnwindSafe(|| table_case(&mut rng.fork(), &cfg, &items, &[], case, dir.path(), &cache, &fds, &ctx, st, drv)));
        if let Err(e) = r {
            st.oracle_failures.push(format!("C12 panic in the table writer/readers: {}: {ctx}: items `{}`", panic_text(e), clip(&show_ents(&items), 2000)));
        }
        let r = catch_unwind(AssertUnwindSafe(|| block_codec_case(&mut rng, &items, &ctx, st, drv)));
        if let Err(e) = r {
            st.oracle_failures.push(format!("C12 panic in the data block encoder / decoder: {}: {ctx}: items `{}`", panic_text(e), clip(&show_ents(&items), 2000)));
        }
    }
}

#[allow(clippy::too_many_arguments)]
fn table_case(rng: &mut Rng, cfg: &TableCfg, items: &[Ent], extra: &[(&[u8], u64)], case: u64, dir: &std::path::Path, cache: &Arc<Cache>, fds: &Arc<DescriptorTable>, ctx: &str, st: &mut Stats, drv: &mut Drv) {
    let g = cfg.gseq;
    let path = dir.join(format!("t{case}"));
    // ---- the real writer
    let mut w = Writer::new(path.clone(), case, 0)
        .unwrap()
        .use_data_block_size(cfg.bs)
        .use_data_block_restart_interval(cfg.ri)
        .use_data_block_hash_ratio(cfg.hr)
        .use_bloom_policy(cfg.policy());
    if cfg.part_index {
        w = w.use_partitioned_index();
    }
    if cfg.part_filter {
        w = w.use_partitioned_filter();
    }
    if let Some(p) = cfg.meta_part {
        w = w.use_meta_partition_size(p);
    }
    for e in items {
        w.write(e.to_internal()).unwrap();
    }
    let (_, checksum) = w.finish().unwrap().expect("non-empty table");
    let table = Table::recover(path.clone(), checksum, g, 0, cache.clone(), if rng.chance(1, 2) { Some(fds.clone()) } else { None }, cfg.pin_filter, cfg.pin_index).unwrap();

    // ---- queries
    let mut present: Vec<K> = items.iter().map(|e| e.key.clone()).collect();
    present.dedup();
    let absent = absent_keys(rng, &present);
    let mut cand: Vec<(K, u64)> = vec![];
    for e in items {
        for d in 0..3u64 {
            cand.push((e.key.clone(), (e.seqno + g + d).saturating_sub(1)));
        }
    }
    for k in absent.iter().take(12) {
        cand.push((k.clone(), u64::MAX));
        cand.push((k.clone(), g + rng.below(60)));
    }
    for k in &present {
        cand.push((k.clone(), *rng.pick(&[0u64, 1, g, g + 1, u64::MAX - 1])));
    }
    shuffle(rng, &mut cand);
    cand.truncate(30 + rng.below(25) as usize);
    let top = items.iter().map(|e| e.seqno).max().unwrap_or(0) + g + 3;
    while cand.len() < 30 {
        let k = if rng.chance(2, 3) { rng.pick(&present).clone() } else { rng.pick(&absent).clone() };
        cand.push((k, rng.below(top)));
    }
    // "no written key is rejected": every written key at seqno MAX
    for k in &present {
        cand.push((k.clone(), u64::MAX));
    }
    let mut queries: Vec<Query> = cand.into_iter().map(|(k, s)| Query::Get(k, s)).collect();
    let n = items.len();
    queries.push(Query::Range(Bound::Unbounded, Bound::Unbounded, "F".repeat(n + 1)));
    queries.push(Query::Range(Bound::Unbounded, Bound::Unbounded, "B".repeat(n + 1)));
    queries.push(Query::Range(Bound::Unbounded, Bound::Unbounded, gen_word(rng, n + 2)));
    for (k, s) in extra {
        // directed: lower / upper bounds on the given keys, point reads at the given seqnos
        let b = |incl: bool| if incl { Bound::Included(UserKey::from(*k)) } else { Bound::Excluded(UserKey::from(*k)) };
        queries.push(Query::Get(k.to_vec(), *s));
        for incl in [true, false] {
            queries.push(Query::Range(b(incl), Bound::Unbounded, "F".repeat(n + 1)));
            queries.push(Query::Range(b(incl), Bound::Unbounded, "B".repeat(n + 1)));
            queries.push(Query::Range(Bound::Unbounded, b(incl), "FB".repeat(n / 2 + 1)));
            queries.push(Query::Range(b(true), b(incl), "BF".repeat(2)));
        }
    }
    let nranges = 8 + rng.below(5);
    let mut pool: Vec<K> = present.clone();
    pool.extend(absent.iter().take(8).cloned());
    for _ in 0..nranges {
        let pick_b = |rng: &mut Rng| -> (Bound<UserKey>, String) {
            if rng.chance(1, 6) {
                (Bound::Unbounded, "U".into())
            } else {
                let k = rng.pick(&pool).clone();
                to_bound(rng, &k)
            }
        };
        let lo = pick_b(rng);
        let hi = pick_b(rng);
        let wl = rng.below(n as u64 + 3) as usize;
        queries.push(Query::Range(lo.0, hi.0, gen_word(rng, wl)));
    }
    let qtexts: Vec<String> = queries
        .iter()
        .map(|q| match q {
            Query::Get(k, s) => format!("G:{}:{s}", hex(k)),
            Query::Range(lo, hi, w) => {
                let sb = |b: &Bound<UserKey>| match b {
                    Bound::Included(k) => format!("I{}", hex(k)),
                    Bound::Excluded(k) => format!("E{}", hex(k)),
                    Bound::Unbounded => "U".into(),
                };
                format!("R:{}:{}:{w}", sb(lo), sb(hi))
            }
        })
        .collect();

    // ---- the real readers
    let shifted: Vec<Ent> = items.iter().map(|e| Ent { seqno: e.seqno + g, ..e.clone() }).collect();
    let scan: Vec<Ent> = table.scan().unwrap().map(|x| Ent::of_internal(&x.unwrap())).collect();
    if scan != shifted {
        st.oracle_failures.push(format!("C12 scan differs from the written stream: {ctx}: written `{}` scanned `{}`", clip(&show_ents(&shifted), 1500), clip(&show_ents(&scan), 1500)));
    }
    let m = &table.metadata;
    let meta = format!(
        "{};{};{};{};{};{};{};{}",
        m.item_count,
        m.tombstone_count,
        m.weak_tombstone_count,
        m.weak_tombstone_reclaimable,
        hex(m.key_range.min()),
        hex(m.key_range.max()),
        m.data_block_count,
        table.get_highest_seqno()
    );
    // metadata oracle (independent of the model)
    {
        let reclaim = items.windows(2).filter(|w| w[0].vt == 2 && w[1].vt == 0 && w[0].key == w[1].key).count();
        let want = format!(
            "{};{};{};{};{};{}",
            items.len(),
            items.iter().filter(|e| e.is_tomb()).count(),
            items.iter().filter(|e| e.vt == 2).count(),
            reclaim,
            hex(&items[0].key),
            hex(&items[items.len() - 1].key)
        );
        let hi = items.iter().map(|e| e.seqno).max().unwrap() + g;
        if !meta.starts_with(&format!("{want};")) || table.get_highest_seqno() != hi {
            st.oracle_failures.push(format!("C12 metadata differs from the written stream: {ctx}: got `{meta}` want `{want};<blocks>;{hi}`"));
        }
        if reclaim > 0 {
            st.count("tables.weak_tombstone_reclaimable>0");
        }
    }
    // the data blocks as they are in the file (frames from offset 0 on)
    let file = std::fs::read(&path).unwrap();
    let mut rd = &file[..];
    let mut blocks: Vec<Vec<Ent>> = vec![];
    let mut payloads: Vec<String> = vec![];
    for _ in 0..m.data_block_count {
        let b = Block::from_reader(&mut rd, CompressionType::None).unwrap();
        assert!(b.header.block_type == BlockType::Data);
        let db = DataBlock::new(b);
        payloads.push(hex(db.as_slice()));
        blocks.push(block_items(&db));
    }
    // ---- the META block (LsmModel.Table.Meta): the frames after the data blocks are index / filter blocks, then the meta block
    {
        // located through the sfa table of contents (section "meta"; a raw "table_version" section precedes it)
        let meta_items: Option<Vec<Ent>> = sfa::Reader::new(&path).ok().and_then(|r| {
            let sec = r.toc().section(b"meta")?;
            let (pos, len) = (sec.pos() as usize, sec.len() as usize);
            let mut slice = file.get(pos..pos + len)?;
            let b = Block::from_reader(&mut slice, CompressionType::None).ok()?;
            if b.header.block_type == BlockType::Meta { Some(block_items(&DataBlock::new(b))) } else { None }
        });
        match meta_items {
            None => st.count("tables.meta.block_not_found"),
            Some(mi) => {
                st.count("tables.meta.blocks");
                let field = |name: &str| mi.iter().find(|e| e.key == name.as_bytes()).map(|e| e.val.clone()).unwrap_or_default();
                let u64f = |name: &str| { let v = field(name); if v.len() >= 8 { u64::from_le_bytes(v[..8].try_into().unwrap()) } else { u64::MAX } };
                // (a) model parse of the REAL items == the fields the implementation recovered
                let req = format!("metaparse items={}", show_ents(&mi));
                let model = drv.ask(&req);
                st.evaluations += 1;
                let created = { let v = field("created_at"); if v.len() >= 16 { u128::from_le_bytes(v[..16].try_into().unwrap()) } else { 0 } };
                let smax_real = table.get_highest_seqno() - g;
                let imp_prefix = format!(
                    "ok id={} created={} dbc={} ibc={} kmin={} kmax={} smin=",
                    m.id, created, m.data_block_count, m.index_block_count, hex(m.key_range.min()), hex(m.key_range.max())
                );
                let imp_suffix = format!(
                    " smax={} fs={} ic={} tc={} wtc={} wr={} dc={} ixc={}",
                    smax_real, m.file_size, m.item_count, m.tombstone_count, m.weak_tombstone_count, m.weak_tombstone_reclaimable,
                    if m.data_block_compression == CompressionType::None { 0 } else { 1 },
                    if m.index_block_compression == CompressionType::None { 0 } else { 1 }
                );
                if !(model.starts_with(&imp_prefix) && model.ends_with(&imp_suffix)) {
                    mismatch(st, "ParsedMeta::load_with_handle", ctx, &req, &format!("implementation `{imp_prefix}?{imp_suffix}` model `{}`", clip(&model, 800)));
                }
                // (b) the model's item list, built from what the harness KNOWS about the written stream (+ the observed physical facts
                //     created_at / file_size / index and filter block counts / crate version), == the real items one by one
                let mut keys: Vec<&K> = items.iter().map(|e| &e.key).collect();
                keys.dedup();
                let reclaim = items.windows(2).filter(|w| w[0].vt == 2 && w[1].vt == 0 && w[0].key == w[1].key).count();
                let req = format!(
                    "metaitems dbc={} fbc={} ibc={} dc=0 ixc=0 crate={} created={} ratio={} fs={} lvl=0 ic={} kmax={} kmin={} kc={} rid={} rii=1 smax={} smin={} id={} tc={} uds={} wtc={} wr={}",
                    blocks.len(), u64f("block_count#filter"), u64f("block_count#index"), hex(&field("crate_version")), created,
                    hex(&cfg.hr.to_le_bytes()), u64f("file_size"), items.len(), hex(&items[items.len() - 1].key), hex(&items[0].key), keys.len(), cfg.ri,
                    items.iter().map(|e| e.seqno).max().unwrap(), items.iter().map(|e| e.seqno).min().unwrap(), case,
                    items.iter().filter(|e| e.is_tomb()).count(), u64f("user_data_size"), items.iter().filter(|e| e.vt == 2).count(), reclaim
                );
                let model = drv.ask(&req);
                st.evaluations += 1;
                let imp = format!("items={} sorted=1 block=", show_ents(&mi));
                if !model.starts_with(&imp) {
                    mismatch(st, "Writer::finish (meta items)", ctx, &req, &format!("implementation `{}` model `{}`", clip(&imp, 1500), clip(&model, 1500)));
                }
                if u64f("file_size") != m.file_size || mi.len() != 29 {
                    st.oracle_failures.push(format!("C12 meta block: file_size item {} vs recovered {} / {} items: {ctx}", u64f("file_size"), m.file_size, mi.len()));
                }
            }
        }
    }
    let blocks_s = show_ids(&blocks.iter().map(Vec::len).collect::<Vec<_>>());
    let index_s = blocks.iter().map(|b| b.last().map_or("?".into(), |e| format!("{}:{}", hex(&e.key), e.seqno))).collect::<Vec<_>>().join(",");
    if blocks.concat() != items {
        st.oracle_failures.push(format!("C12 the data blocks of the file do not concatenate to the written stream: {ctx}"));
    }

    let has_seqno_max = items.iter().any(|e| e.seqno == u64::MAX);
    if has_seqno_max {
        st.count("tables.with_seqno_max(outside the range theorem's assumption)");
    }
    let mut answers = vec![];
    for q in &queries {
        match q {
            Query::Get(k, s) => {
                let got = table.get(k, *s, BloomBuilder::get_hash(k)).unwrap().map(|v| Ent::of_internal(&v));
                // oracle: first item with that key and seqno < S - global seqno, shifted
                let s2 = s.saturating_sub(g);
                let want = items.iter().find(|e| &e.key == k && e.seqno < s2).map(|e| Ent { seqno: e.seqno + g, ..e.clone() });
                if got != want {
                    let tag = if *s == u64::MAX && want.is_some() && got.is_none() { "C12 a written key is rejected" } else { "C12 point read" };
                    st.oracle_failures.push(format!("{tag}: get({}, {s}) = {} but the written stream says {}: {ctx}: items `{}`", hex(k), show_opt_ent(&got), show_opt_ent(&want), clip(&show_ents(items), 2000)));
                }
                if got.is_some() {
                    st.count("tables.probe.hit");
                } else if present.binary_search(k).is_ok() {
                    st.count("tables.probe.miss_present_key");
                } else {
                    st.count("tables.probe.miss_absent_key");
                }
                answers.push(show_opt_ent(&got));
            }
            Query::Range(lo, hi, w) => {
                let mut it = table.range((lo.clone(), hi.clone()));
                let mut got = vec![];
                for c in w.chars() {
                    let x = if c == 'F' { it.next() } else { it.next_back() };
                    got.push(x.map(|r| Ent::of_internal(&r.unwrap())));
                }
                // oracle: the filtered list consumed from both ends
                let mut dq: std::collections::VecDeque<Ent> = shifted.iter().filter(|e| in_lo(lo, &e.key) && in_hi(hi, &e.key)).cloned().collect();
                let flen = dq.len();
                let want: Vec<Option<Ent>> = w.chars().map(|c| if c == 'F' { dq.pop_front() } else { dq.pop_back() }).collect();
                if got != want && has_seqno_max {
                    // outside the assumption `seqno < u64::MAX` of the range theorem (Blocks R2, Props.C12 example_seqno_max):
                    // not an oracle failure; the comparison with the model below still applies
                    st.count("tables.seqno_max.ranged_scan_skips_items(outside C12's assumption)");
                } else if got != want {
                    st.oracle_failures.push(format!(
                        "C12 ranged scan: range({}) gives `{}` but the written stream says `{}`: {ctx}: items `{}`",
                        qtexts[answers.len()],
                        got.iter().map(show_opt_ent).collect::<Vec<_>>().join("|"),
                        want.iter().map(show_opt_ent).collect::<Vec<_>>().join("|"),
                        clip(&show_ents(items), 2000)
                    ));
                }
                st.count("tables.range.scans");
                if flen == 0 {
                    st.count("tables.range.empty_result");
                }
                if let (Bound::Included(a) | Bound::Excluded(a), Bound::Included(b) | Bound::Excluded(b)) = (lo, hi) {
                    if a > b {
                        st.count("tables.range.inverted_bounds");
                    }
                }
                if w.contains('F') && w.contains('B') && w.len() > flen {
                    st.count("tables.range.both_ends_until_exhausted");
                }
                answers.push(got.iter().map(show_opt_ent).collect::<Vec<_>>().join("|"));
            }
        }
    }
    let _ = std::fs::remove_file(&path);

    // ---- the model
    let with_enc = cfg.hr == 0.0;
    let req = format!("wtable bs={} gseq={g} ri={} enc={} items={} q={}", cfg.bs, cfg.ri, u8::from(with_enc), show_ents(items), qtexts.join("/"));
    let imp = format!(
        "scan={} meta={meta} blocks={blocks_s} index={index_s}{} q={}",
        show_ents(&scan),
        if with_enc { format!(" enc={}", payloads.join("|")) } else { String::new() },
        answers.join("/")
    );
    let model = drv.ask(&req);
    st.evaluations += 1;
    st.add("tables.point_probes", queries.iter().filter(|q| matches!(q, Query::Get(..))).count() as u64);
    if imp != model {
        mismatch(st, "table", ctx, &req, &first_diff(&imp, &model, &qtexts));
    } else if case < 1 {
        st.sample(format!("[{}] {} -> {}", cfg.show(), clip(&req, 400), clip(&imp, 400)));
    }

    // ---- input distribution
    st.add("tables.items_total", items.len() as u64);
    st.add("tables.blocks_total", blocks.len() as u64);
    if items.len() == 1 {
        st.count("tables.single_entry");
    }
    if blocks.len() > 1 {
        st.count("tables.multi_block");
        st.nontrivial_case(&req);
    }
    if m.index_block_count > 1 {
        st.count("tables.multi_index_partition");
    }
    let mut straddling = 0;
    for w in blocks.windows(2) {
        if w[0].last().map(|e| &e.key) == w[1].first().map(|e| &e.key) {
            straddling += 1;
        }
    }
    if straddling > 0 {
        st.count("tables.with_slab_straddling_a_block_boundary");
        st.add("tables.block_boundaries_inside_a_slab", straddling);
    }
    if items.iter().any(|e| e.key.len() + e.val.len() > cfg.bs as usize && cfg.bs > 1) {
        st.count("tables.with_entry_larger_than_a_block");
    }
    if items.iter().any(|e| e.vt == 1) {
        st.count("tables.with_tombstone");
    }
    if items.iter().any(|e| e.vt == 2) {
        st.count("tables.with_weak_tombstone");
    }
    if items.windows(2).any(|w| w[0].key == w[1].key) {
        st.count("tables.with_multi_version_key");
    }
}

/// `DataBlock::encode_into_vec` / forward iteration against `Codec.encodeBlock` / `Codec.decodeBlock`
fn block_codec_case(rng: &mut Rng, items: &[Ent], ctx: &str, st: &mut Stats, drv: &mut Drv) {
    let n = 1 + rng.below(items.len().min(40) as u64) as usize;
    let start = rng.below((items.len() - n) as u64 + 1) as usize;
    let big: Vec<Ent>;
    let chunk = if rng.chance(1, 30) {
        // a block beyond 64 KiB: the binary index switches to 4-byte offsets
        big = (0..24u64).map(|i| Ent { key: format!("big{i:03}").into_bytes(), seqno: i, vt: 0, val: vec![(i % 251) as u8; 2900 + rng.below(300) as usize] }).collect();
        &big[..]
    } else {
        &items[start..start + n]
    };
    let iv: Vec<_> = chunk.iter().map(Ent::to_internal).collect();
    let ri = *rng.pick(&[1u8, 2, 3, 16, 255]);
    let real = DataBlock::encode_into_vec(&iv, ri, 0.0).unwrap();
    let req = format!("encblock ri={ri} items={}", show_ents(chunk));
    let imp = format!("bytes={}", hex(&real));
    let model = drv.ask(&req);
    st.evaluations += 1;
    st.count("blocks.encoded");
    if real.len() > 65_535 + 40 {
        st.count("blocks.encoded_4_byte_binary_index");
    }
    if imp != model {
        mismatch(st, "DataBlock::encode_into_vec", ctx, &req, &format!("implementation `{}` model `{}`", clip(&imp, 800), clip(&model, 800)));
    }
    // decoding: the bytes of the real encoder (any hash ratio: the hash index sits behind the trailer marker)
    let hr = *rng.pick(&[0.0f32, 0.75, 8.0]);
    let bytes = if hr == 0.0 { real } else { DataBlock::encode_into_vec(&iv, ri, hr).unwrap() };
    let req = format!("decblock bytes={}", hex(&bytes));
    let db = data_block_of(bytes);
    let got = block_items(&db);
    let imp = format!("items={}", show_ents(&got));
    let model = drv.ask(&req);
    st.evaluations += 1;
    if hr > 0.0 && db.get_hash_index_reader().is_some() {
        st.count("blocks.decoded_with_hash_index");
    }
    if got != chunk {
        st.oracle_failures.push(format!("C12 data block does not round-trip: {ctx}: ri={ri} hr={hr} items `{}` decoded `{}`", clip(&show_ents(chunk), 1500), clip(&show_ents(&got), 1500)));
    }
    if imp != model {
        mismatch(st, "DataBlock::iter", ctx, &req, &format!("implementation `{}` model `{}`", clip(&imp, 800), clip(&model, 800)));
    }
}

// ================================================================================================ frames (C10)

const MAGIC: [u8; 4] = [b'L', b'S', b'M', 3];

fn bt(n: u8) -> BlockType {
    BlockType::try_from(n).unwrap()
}

fn real_frame(payload: &[u8], ty: u8) -> Vec<u8> {
    let mut v = vec![];
    Block::write_into(&mut v, payload, bt(ty), CompressionType::None).unwrap();
    v
}

/// xxh3-128 of `data` as its 16 little-endian bytes — cut out of a header produced by the real block writer
fn real_h128(data: &[u8]) -> Vec<u8> {
    real_frame(data, 3)[5..21].to_vec()
}

/// the 4-byte header checksum the real `Header::encode_into` computes for the first 29 bytes of `bytes`;
/// `None` when those bytes are not a header the real code would hash completely (short / wrong magic / invalid type)
fn real_header_hash(bytes: &[u8]) -> Option<Vec<u8>> {
    if bytes.len() < 29 || bytes[0..4] != MAGIC || bytes[4] > 3 {
        return None;
    }
    let h = Header {
        block_type: bt(bytes[4]),
        checksum: Checksum::from_raw(u128::from_le_bytes(bytes[5..21].try_into().unwrap())),
        data_length: u32::from_le_bytes(bytes[21..25].try_into().unwrap()),
        uncompressed_length: u32::from_le_bytes(bytes[25..29].try_into().unwrap()),
    };
    let enc = h.encode_into_vec();
    assert_eq!(&enc[..29], &bytes[..29], "harness: header re-encoding differs");
    Some(enc[29..33].to_vec())
}

fn err_class(e: &lsm_tree::Error) -> String {
    match e {
        lsm_tree::Error::Io(e) if e.kind() == std::io::ErrorKind::UnexpectedEof => "Io(UnexpectedEof)".into(),
        lsm_tree::Error::Io(e) => format!("Io({:?})", e.kind()),
        lsm_tree::Error::InvalidHeader(_) => "InvalidHeader".into(),
        lsm_tree::Error::InvalidTag(_) => "InvalidTag".into(),
        lsm_tree::Error::ChecksumMismatch { .. } => "ChecksumMismatch".into(),
        other => format!("{other:?}").split(['(', ' ', '{']).next().unwrap_or("?").to_string(),
    }
}

fn show_block_result(r: std::thread::Result<lsm_tree::Result<Block>>) -> (String, Option<(u8, Vec<u8>)>) {
    match r {
        Ok(Ok(b)) => {
            let t = u8::from(b.header.block_type);
            (format!("ok {t} p={}", hex(&b.data)), Some((t, b.data.to_vec())))
        }
        Ok(Err(e)) => (format!("err {}", err_class(&e)), None),
        Err(_) => ("err panic".into(), None),
    }
}

/// `err <class> <model error>` -> (`err <class>`, model error)
fn split_model_err(model: &str) -> (String, String) {
    if model.starts_with("err ") {
        let t: Vec<&str> = model.split(' ').collect();
        (t[..t.len().min(2)].join(" "), t.get(2).copied().unwrap_or("").to_string())
    } else {
        (model.to_string(), "ok".into())
    }
}

struct Mutated {
    bytes: Vec<u8>,
    kind: &'static str,
    /// re-framed consistently with the real hash functions: decodes to something else by design (no corruption)
    forged: bool,
}

fn fix_header_hash(b: &mut [u8]) {
    if let Some(h) = real_header_hash(b) {
        b[29..33].copy_from_slice(&h);
    }
}

fn mutate_frame(rng: &mut Rng, orig: &[u8], ty: u8, payload: &[u8]) -> Mutated {
    let mut b = orig.to_vec();
    let other_valid = |rng: &mut Rng| (ty + 1 + rng.below(3) as u8) % 4;
    match rng.below(17) {
        0 => {
            let i = rng.below(b.len() as u64) as usize;
            b[i] ^= 1 + rng.below(255) as u8;
            Mutated { bytes: b, kind: "flip_byte_anywhere", forged: false }
        }
        1 => {
            let i = rng.below(33) as usize;
            b[i] ^= 1 << rng.below(8);
            Mutated { bytes: b, kind: "flip_bit_in_header", forged: false }
        }
        2 => {
            if payload.is_empty() {
                b[5 + rng.below(16) as usize] ^= 0x40;
                Mutated { bytes: b, kind: "flip_bit_in_payload_checksum", forged: false }
            } else {
                let i = 33 + rng.below(payload.len() as u64) as usize;
                b[i] ^= 1 << rng.below(8);
                Mutated { bytes: b, kind: "flip_bit_in_payload", forged: false }
            }
        }
        3 => {
            let n = if rng.chance(1, 2) { rng.below(34.min(b.len() as u64)) } else { rng.below(b.len() as u64) } as usize;
            b.truncate(n);
            Mutated { bytes: b, kind: if n < 33 { "truncate_in_header" } else { "truncate_in_payload" }, forged: false }
        }
        4 => {
            for _ in 0..1 + rng.below(40) {
                b.push(rng.below(256) as u8);
            }
            Mutated { bytes: b, kind: "append_garbage", forged: false }
        }
        5 => {
            b[4] = match rng.below(6) {
                0 | 1 | 2 => other_valid(rng),
                3 => 4, // first invalid tag
                4 => 255,
                _ => 4 + rng.below(252) as u8,
            };
            let kind = if b[4] > 3 { "type_byte_invalid" } else { "type_byte_other_valid" };
            Mutated { bytes: b, kind, forged: false }
        }
        6 => {
            b[21..25].fill(0);
            Mutated { bytes: b, kind: "zero_data_length", forged: false }
        }
        7 => {
            b[25..29].fill(0);
            Mutated { bytes: b, kind: "zero_uncompressed_length", forged: false }
        }
        8 => {
            b[25..29].fill(0);
            fix_header_hash(&mut b);
            Mutated { bytes: b, kind: "zero_uncompressed_length+header_hash", forged: false }
        }
        9 => {
            b[21..25].fill(0);
            fix_header_hash(&mut b);
            Mutated { bytes: b, kind: "zero_data_length+header_hash", forged: false }
        }
        10 => {
            let l = payload.len() as u32;
            let nl = match rng.below(4) {
                0 => l.saturating_sub(1 + rng.below(3) as u32),
                1 => l + 1 + rng.below(3) as u32,
                2 => l + 1000 + rng.below(100_000) as u32,
                _ => rng.below(u64::from(l) + 1) as u32,
            };
            b[21..25].copy_from_slice(&nl.to_le_bytes());
            fix_header_hash(&mut b);
            Mutated { bytes: b, kind: "data_length_changed+header_hash", forged: false }
        }
        11 => {
            b[4] = other_valid(rng);
            fix_header_hash(&mut b);
            Mutated { bytes: b, kind: "type_changed+header_hash", forged: true }
        }
        12 => {
            // payload changed, payload checksum, lengths and header hash rewritten by the real writer
            let mut p = payload.to_vec();
            match rng.below(3) {
                0 if !p.is_empty() => {
                    let i = rng.below(p.len() as u64) as usize;
                    p[i] ^= 1 + rng.below(255) as u8;
                }
                1 if !p.is_empty() => p.truncate(rng.below(p.len() as u64) as usize),
                _ => p.push(rng.below(256) as u8),
            }
            Mutated { bytes: real_frame(&p, ty), kind: "payload+checksum+lengths+header_hash", forged: true }
        }
        13 => {
            // payload changed and payload checksum rewritten, header hash stale
            let mut p = payload.to_vec();
            if p.is_empty() {
                p.push(7);
            } else {
                let i = rng.below(p.len() as u64) as usize;
                p[i] ^= 1 + rng.below(255) as u8;
            }
            let f = real_frame(&p, ty);
            b[5..21].copy_from_slice(&f[5..21]);
            b.truncate(33);
            b.extend_from_slice(&p);
            Mutated { bytes: b, kind: "payload+checksum_stale_header_hash", forged: false }
        }
        14 => {
            let m: [u8; 4] = *rng.pick(&[*b"BLOB", [b'L', b'S', b'M', 2], [0, 0, 0, 0], [b'L', b'S', b'M', 4]]);
            b[0..4].copy_from_slice(&m);
            Mutated { bytes: b, kind: "magic_replaced", forged: false }
        }
        15 => Mutated { bytes: vec![], kind: "empty_input", forged: false },
        _ => Mutated { bytes: b, kind: "identity", forged: false },
    }
}

fn gen_payload(rng: &mut Rng) -> Vec<u8> {
    let len = match rng.below(20) {
        0 => 0,
        1 => 1,
        2..=10 => 1 + rng.below(64),
        11..=17 => 64 + rng.below(2000),
        18 => 29, // as long as the hashed header prefix
        _ => 66_000 + rng.below(3000),
    } as usize;
    match rng.below(3) {
        0 => (0..len).map(|_| rng.below(256) as u8).collect(),
        1 => vec![*rng.pick(&[0u8, 0xff, b'L']); len],
        _ => {
            // frame-looking content
            let mut v = real_frame(&[1, 2, 3], 0);
            v.resize(len, 0xab);
            v
        }
    }
}

pub fn frames(seed: u64, cases: u64, st: &mut Stats, drv: &mut Drv) {
    let mut rng = Rng::new(seed ^ 0xf4a3e5);
    let dir = tempfile::tempdir_in(crate::scratch_root()).unwrap();
    let cache = Cache::with_capacity_bytes(0);
    let mut file_id = 0u64;
    for case in 0..cases {
        let payload = gen_payload(&mut rng);
        let ty = rng.below(4) as u8;
        let orig = real_frame(&payload, ty);
        st.count("frames.cases");
        if payload.len() > 65_535 {
            st.count("frames.payload>64KiB");
        }
        if payload.is_empty() {
            st.count("frames.payload_empty");
        }
        // ---- (1) round trip: byte layout of `Block::write_into`
        let hp = real_h128(&payload);
        let hh = real_header_hash(&orig).unwrap();
        let req = format!("frame type={ty} payload={} hh={} hp={}", hex(&payload), hex(&hh), hex(&hp));
        let imp = format!("bytes={}", hex(&orig));
        let model = drv.ask(&req);
        st.evaluations += 1;
        if imp != model {
            mismatch(st, "Block::write_into", &format!("case {case}"), &req, &format!("implementation `{}` model `{}`", clip(&imp, 400), clip(&model, 400)));
        } else if case < 1 {
            st.sample(format!("{} -> {}", clip(&req, 300), clip(&imp, 300)));
        }
        // ---- (2) intact and mutated frames through the real decoders
        for round in 0..4 {
            let mu = if round == 0 { Mutated { bytes: orig.clone(), kind: "identity", forged: false } } else { mutate_frame(&mut rng, &orig, ty, &payload) };
            st.count(&format!("frames.mutation.{}", mu.kind));
            let file_mode = rng.chance(1, 2);
            let (req, imp, decoded, view_differs, type_expected) = if !file_mode {
                st.count("frames.mode.from_reader");
                let b = &mu.bytes;
                let hh = real_header_hash(b).unwrap_or_else(|| vec![0; 4]);
                let hp = if b.len() >= 33 {
                    let dl = u32::from_le_bytes(b[21..25].try_into().unwrap()) as usize;
                    if b.len() - 33 >= dl {
                        real_h128(&b[33..33 + dl])
                    } else {
                        vec![0; 16]
                    }
                } else {
                    vec![0; 16]
                };
                let req = format!("unframe mode=reader exp=- bytes={} hh={} hp={}", hex(b), hex(&hh), hex(&hp));
                let (imp, dec) = show_block_result(catch_unwind(AssertUnwindSafe(|| Block::from_reader(&mut &b[..], CompressionType::None))));
                (req, imp, dec, *b != orig, true)
            } else {
                st.count("frames.mode.load_block");
                let b = &mu.bytes;
                let pre: Vec<u8> = (0..rng.below(9)).map(|_| rng.below(256) as u8).collect();
                let size = match rng.below(20) {
                    0..=13 => b.len(),
                    14..=16 => b.len().saturating_sub(1 + rng.below(5) as usize),
                    _ => b.len() + 1 + rng.below(5) as usize,
                };
                let exp = if rng.chance(4, 5) { ty } else { (ty + 1 + rng.below(3) as u8) % 4 };
                if exp != ty {
                    st.count("frames.load_block.other_expected_type");
                }
                if size != b.len() {
                    st.count(if size < b.len() { "frames.load_block.handle_shorter" } else { "frames.load_block.handle_beyond_eof" });
                }
                let buf = &b[..size.min(b.len())];
                let hh = real_header_hash(buf).unwrap_or_else(|| vec![0; 4]);
                let hp = if size <= b.len() && buf.len() >= 33 { real_h128(&buf[33..]) } else { vec![0; 16] };
                let req = format!("unframe mode=file exp={exp} size={size} bytes={} hh={} hp={}", hex(b), hex(&hh), hex(&hp));
                file_id += 1;
                let path = dir.path().join(format!("f{file_id}"));
                let mut content = pre.clone();
                content.extend_from_slice(b);
                std::fs::write(&path, &content).unwrap();
                let fd = Arc::new(std::fs::File::open(&path).unwrap());
                let acc = lsm_tree::file_accessor::FileAccessor::File(fd);
                let handle = BlockHandle::new(BlockOffset(pre.len() as u64), size as u32);
                let r = catch_unwind(AssertUnwindSafe(|| lsm_tree::table::util::load_block((0u64, file_id).into(), &path, &acc, &cache, &handle, bt(exp), CompressionType::None)));
                let _ = std::fs::remove_file(&path);
                let (imp, dec) = show_block_result(r);
                (req, imp, dec, buf != &orig[..] || size > b.len(), exp == ty)
            };
            let model = drv.ask(&req);
            st.evaluations += 1;
            let (model_cmp, fine) = split_model_err(&model);
            st.count(&format!("frames.result.{fine}"));
            if imp != model_cmp {
                mismatch(st, if file_mode { "load_block" } else { "Block::from_reader" }, &format!("case {case} mutation {}", mu.kind), &req, &format!("implementation `{}` model `{}`", clip(&imp, 400), clip(&model, 400)));
            } else if mu.kind != "identity" {
                st.nontrivial_case(&req);
            }
            // ---- oracle: corruption is detected or harmless
            if !mu.forged {
                match &decoded {
                    Some((t, p)) => {
                        if *t != ty || *p != payload || !type_expected {
                            st.oracle_failures.push(format!("C10 a corrupted frame ({}) decodes to something else than what was written: {} -> {}", mu.kind, clip(&req, 1500), clip(&imp, 400)));
                        } else if view_differs {
                            st.count("frames.mutated_but_decodes_to_the_original");
                        }
                    }
                    None => {
                        if !view_differs && type_expected {
                            st.oracle_failures.push(format!("C10 an intact frame is rejected: {} -> {imp}", clip(&req, 1500)));
                        }
                    }
                }
            } else if decoded.is_some() {
                st.count("frames.forged_frame_accepted");
            }
        }
    }
    blob_frames(&mut rng, cases, st, drv);
}

// ------------------------------------------------------------------------------------------------ blob frames

fn varint(mut n: u64, out: &mut Vec<u8>) {
    while n >= 0x80 {
        out.push((n as u8 & 0x7f) | 0x80);
        n >>= 7;
    }
    out.push(n as u8);
}

/// blob frames through the real `vlog::blob_file::reader::Reader::get`, reached via `verif_api::resolve_indirection`
/// on a real blob tree whose blob file is rewritten on disk
fn blob_frames(rng: &mut Rng, cases: u64, st: &mut Stats, drv: &mut Drv) {
    use lsm_tree::verif_api as va;
    use lsm_tree::{AbstractTree, AnyTree, Config, SequenceNumberCounter};
    let dir = tempfile::tempdir_in(crate::scratch_root()).unwrap();
    let tree = Config::new(dir.path(), SequenceNumberCounter::default(), SequenceNumberCounter::default())
        .with_kv_separation(Some(lsm_tree::KvSeparationOptions::default().separation_threshold(1).file_target_size(u64::MAX).compression(CompressionType::None)))
        .open()
        .unwrap();
    let keys = gen_keyset(rng, 24);
    for (i, k) in keys.iter().enumerate() {
        let len = match rng.below(6) {
            0 => 1,
            1 => 300 + rng.below(300),
            _ => 2 + rng.below(60),
        } as usize;
        let v: Vec<u8> = (0..len).map(|_| rng.below(256) as u8).collect();
        tree.insert(k.clone(), v, i as u64);
    }
    tree.flush_active_memtable(0).unwrap();
    let index = match &tree {
        AnyTree::Standard(t) => t,
        AnyTree::Blob(b) => &b.index,
    };
    let v = va::version_of(&va::latest_super_version(index));
    let blobs_folder = dir.path().join("blobs");
    // (key, file id, offset, on-disk size, size)
    let mut ents: Vec<(K, u64, u64, u32, u32)> = vec![];
    for t in v.iter_tables() {
        for x in t.iter() {
            let e = Ent::of_internal(&x.unwrap());
            if e.vt == 4 {
                let (fid, off, ods, size) = va::decode_indirection(&e.val).unwrap();
                // the hand-made pointer encoding must be the real one
                let mut mine = vec![];
                varint(off, &mut mine);
                varint(fid, &mut mine);
                varint(u64::from(ods), &mut mine);
                varint(u64::from(size), &mut mine);
                assert_eq!(mine, e.val, "harness: indirection encoding");
                // round trip: the frame the real blob writer produced against `Frame.encodeBlob`
                let file = std::fs::read(blobs_folder.join(fid.to_string())).unwrap();
                let (o, kl) = (off as usize, e.key.len());
                let frame = &file[o..o + 38 + kl + ods as usize];
                let value = &frame[38 + kl..];
                let seqno = u64::from_le_bytes(frame[20..28].try_into().unwrap());
                let mut kv = e.key.clone();
                kv.extend_from_slice(value);
                let req = format!("blobframe key={} seqno={seqno} value={} hv={}", hex(&e.key), hex(value), hex(&real_h128(&kv)));
                let imp = format!("bytes={}", hex(frame));
                let model = drv.ask(&req);
                st.evaluations += 1;
                st.count("frames.blob.round_trips");
                if imp != model {
                    mismatch(st, "blob writer", "round trip", &req, &format!("implementation `{}` model `{}`", clip(&imp, 400), clip(&model, 400)));
                }
                ents.push((e.key, fid, off, ods, size));
            }
        }
    }
    if ents.is_empty() {
        st.count("frames.blob.unreachable");
        return;
    }
    for case in 0..cases {
        let (key, fid, off, ods, size) = rng.pick(&ents).clone();
        let path = blobs_folder.join(fid.to_string());
        let orig_file = std::fs::read(&path).unwrap();
        let flen = 38 + key.len() + ods as usize;
        let o = off as usize;
        let orig_value = orig_file[o + 38 + key.len()..o + flen].to_vec();
        let mut file = orig_file.clone();
        let mut key_arg = key.clone();
        let (mut h_off, mut h_ods) = (off, ods);
        let mut file_mutation = true;
        let kind: &'static str = match if case == 0 { 0 } else { rng.below(15) } {
            0 => "identity",
            1 => {
                file[o + rng.below(4) as usize] ^= 1 << rng.below(8);
                "flip_bit_in_magic"
            }
            2 => {
                file[o + 4 + rng.below(16) as usize] ^= 1 << rng.below(8);
                "flip_bit_in_checksum"
            }
            3 => {
                file[o + 20 + rng.below(8) as usize] ^= 1 << rng.below(8);
                "flip_bit_in_seqno"
            }
            4 => {
                file[o + 28 + rng.below(2) as usize] ^= 1 << rng.below(8);
                "flip_bit_in_key_len"
            }
            5 => {
                file[o + 30 + rng.below(4) as usize] ^= 1 << rng.below(8);
                "flip_bit_in_real_val_len"
            }
            6 => {
                file[o + 34 + rng.below(4) as usize] ^= 1 << rng.below(8);
                "flip_bit_in_on_disk_val_len"
            }
            7 => {
                file[o + 38 + rng.below(key.len() as u64) as usize] ^= 1 << rng.below(8);
                "flip_bit_in_key"
            }
            8 | 9 => {
                file[o + 38 + key.len() + rng.below(u64::from(ods)) as usize] ^= 1 << rng.below(8);
                "flip_bit_in_value"
            }
            10 => {
                file.truncate(o + rng.below(flen as u64) as usize);
                "truncate_file_inside_frame"
            }
            11 => {
                file_mutation = false;
                let i = rng.below(key_arg.len() as u64) as usize;
                key_arg[i] ^= 0x10;
                "key_argument_other_bytes"
            }
            12 => {
                file_mutation = false;
                if rng.chance(1, 2) && key_arg.len() > 1 {
                    key_arg.pop();
                } else {
                    key_arg.push(0x61);
                }
                "key_argument_other_length"
            }
            13 => {
                file_mutation = false;
                h_ods = if rng.chance(1, 2) { ods.saturating_sub(1 + rng.below(3) as u32) } else { ods + 1 + rng.below(3) as u32 };
                "handle_on_disk_size_changed"
            }
            _ => {
                file_mutation = false;
                h_off = match rng.below(3) {
                    0 => off + 1 + rng.below(5),
                    1 => rng.pick(&ents).2,
                    _ => orig_file.len() as u64 + rng.below(4),
                };
                "handle_offset_changed"
            }
        };
        st.count(&format!("frames.blob.mutation.{kind}"));
        let mut ind = vec![];
        varint(h_off, &mut ind);
        varint(fid, &mut ind);
        varint(u64::from(h_ods), &mut ind);
        varint(u64::from(size), &mut ind);
        assert_eq!(va::decode_indirection(&ind).unwrap(), (fid, h_off, h_ods, size));
        std::fs::write(&path, &file).unwrap();
        let r = catch_unwind(AssertUnwindSafe(|| va::resolve_indirection(&v, &blobs_folder, &key_arg, &ind)));
        std::fs::write(&path, &orig_file).unwrap();
        let (imp, decoded) = match r {
            Ok(Ok(Some(val))) => (format!("ok v={}", hex(&val)), Some(val)),
            Ok(Ok(None)) => ("dangling".to_string(), None),
            Ok(Err(e)) => (format!("err {}", err_class(&e)), None),
            Err(_) => ("err panic".to_string(), None),
        };
        let tail = if (h_off as usize) < file.len() { &file[h_off as usize..] } else { &[][..] };
        let base = format!("keylen={} ods={h_ods} bytes={}", key_arg.len(), hex(tail));
        let input = drv.ask(&format!("blobinput {base}"));
        let input = unhex(input.strip_prefix("input=").unwrap_or(""));
        let req = format!("unblob {base} hv={}", hex(&real_h128(&input)));
        let model = drv.ask(&req);
        st.evaluations += 1;
        let (model_cmp, fine) = split_model_err(&model);
        st.count(&format!("frames.blob.result.{fine}"));
        if imp != model_cmp {
            mismatch(st, "blob Reader::get", &format!("blob case {case} mutation {kind}"), &req, &format!("implementation `{}` model `{}`", clip(&imp, 400), clip(&model, 400)));
        } else {
            st.nontrivial_case(&req);
            if case < 1 {
                st.sample(format!("{} -> {}", clip(&req, 300), clip(&imp, 200)));
            }
        }
        if file_mutation {
            let differs = file.len() < o + flen || file[o..o + flen] != orig_file[o..o + flen];
            match &decoded {
                Some(val) if *val != orig_value => st.oracle_failures.push(format!("C10 a corrupted blob frame ({kind}) yields another value than the one written: {} -> {}", clip(&req, 1500), clip(&imp, 300))),
                Some(_) if differs => st.count("frames.blob.mutated_but_yields_the_original_value"),
                None if !differs => st.oracle_failures.push(format!("C10 an intact blob frame is rejected: {} -> {imp}", clip(&req, 1500))),
                _ => {}
            }
        }
    }
}

// ================================================================================================ filters (C11)

const ADV_HASHES: [u64; 6] = [0, 1, (1 << 32) - 1, 1 << 32, 1 << 63, u64::MAX];

fn numbered_keys(rng: &mut Rng, n: usize) -> Vec<K> {
    let mut ks: BTreeSet<K> = gen_keyset(rng, n.min(40)).into_iter().collect();
    let mut i = 0u64;
    while ks.len() < n {
        ks.insert(format!("k{:04}", i * 7 + rng.below(7)).into_bytes());
        i += 1;
    }
    ks.into_iter().collect()
}

pub fn filters(seed: u64, cases: u64, st: &mut Stats, drv: &mut Drv) {
    let mut rng = Rng::new(seed ^ 0xb100f);
    for case in 0..cases {
        bloom_case(&mut rng, case, st, drv);
        hash_index_case(&mut rng, case, st, drv);
        hash_enc_case(&mut rng, case, st, drv);
    }
}

fn bloom_case(rng: &mut Rng, case: u64, st: &mut Stats, drv: &mut Drv) {
    let nkeys = match rng.below(10) {
        0 => 1,
        1..=6 => 1 + rng.below(30),
        _ => 30 + rng.below(170),
    } as usize;
    let keys = numbered_keys(rng, nkeys);
    let mut hashes: Vec<u64> = keys.iter().map(|k| BloomBuilder::get_hash(k)).collect();
    for a in ADV_HASHES {
        if rng.chance(1, 3) {
            hashes.insert(rng.below(hashes.len() as u64 + 1) as usize, a);
        }
    }
    let n_decl = match rng.below(4) {
        0 => hashes.len(),
        1 => (hashes.len() / 2).max(1),
        2 => hashes.len() * 2,
        _ => 1 + rng.below(300) as usize,
    };
    let (mut b, how) = if rng.chance(1, 2) {
        let bpk = *rng.pick(&[10.0f32, 1.0, 3.0, 5.5, 20.0, 50.0]);
        (BloomBuilder::with_bpk(n_decl, bpk), format!("with_bpk({n_decl}, {bpk})"))
    } else {
        let fpr = *rng.pick(&[0.01f32, 0.1, 0.0001, 0.5, 0.9, 1e-9]);
        (BloomBuilder::with_fp_rate(n_decl, fpr), format!("with_fp_rate({n_decl}, {fpr})"))
    };
    // header of `Builder::build`: magic(4) filter type(1) hash type(1) m(u64 LE) k(u64 LE) bit array
    let probe_bytes = b.build();
    let m = u64::from_le_bytes(probe_bytes[6..14].try_into().unwrap());
    let k = u64::from_le_bytes(probe_bytes[14..22].try_into().unwrap());
    // keep the model's list-based bit array affordable
    let budget = 6_000_000 / (m.max(1) * k.max(1));
    hashes.truncate((budget.max(1) as usize).min(hashes.len()));
    for h in &hashes {
        b.set_with_hash(*h);
    }
    let bytes = b.build();
    let ok_header = bytes[0..4] == MAGIC && bytes[4] == 0 && bytes[5] == 0 && bytes.len() as u64 == 22 + m / 8 && m % 8 == 0;
    if !ok_header {
        st.disagreements.push(format!("bloom: unexpected serialized header for {how}: {}", hex(&bytes[..22.min(bytes.len())])));
        return;
    }
    let reader = StandardBloomFilterReader::new(&bytes).unwrap();
    let inserted: BTreeSet<u64> = hashes.iter().copied().collect();
    let mut probes: Vec<u64> = vec![];
    let mut ins_sample = hashes.clone();
    shuffle(rng, &mut ins_sample);
    probes.extend(ins_sample.into_iter().take(40));
    for k in absent_keys(rng, &keys).iter().take(40) {
        probes.push(BloomBuilder::get_hash(k));
    }
    for _ in 0..20 {
        probes.push(rng.next());
    }
    probes.extend(ADV_HASHES);
    shuffle(rng, &mut probes);
    let answers: String = probes.iter().map(|h| if reader.contains_hash(*h) { '1' } else { '0' }).collect();
    let req = format!("bloom m={m} k={k} ins={} probe={}", show_ids(&hashes), show_ids(&probes));
    let imp = format!("bits={} probe={answers}", hex(&bytes[22..]));
    let model = drv.ask(&req);
    st.evaluations += 1;
    st.count("filters.bloom.cases");
    st.count(&format!("filters.bloom.k={k}"));
    st.add("filters.bloom.bits_total", m);
    st.add("filters.bloom.hashes_inserted", hashes.len() as u64);
    for (h, a) in probes.iter().zip(answers.chars()) {
        match (inserted.contains(h), a) {
            (true, _) => st.count("filters.bloom.probe.inserted"),
            (false, '0') => st.count("filters.bloom.probe.true_negative"),
            (false, _) => st.count("filters.bloom.probe.false_positive"),
        }
    }
    for h in &hashes {
        if !reader.contains_hash(*h) {
            st.oracle_failures.push(format!("C11 Bloom filter false negative: {how} inserted hash {h} is reported absent; request `{}`", clip(&req, 1500)));
        }
    }
    if imp != model {
        mismatch(st, "standard_bloom", &format!("case {case} {how}"), &req, &first_diff(&imp, &model, &[]));
    } else {
        st.nontrivial_case(&req);
        if case < 1 {
            st.sample(format!("{how}: {} -> {}", clip(&req, 300), clip(&imp, 200)));
        }
    }
}

fn hash_index_case(rng: &mut Rng, case: u64, st: &mut Stats, drv: &mut Drv) {
    let n = match rng.below(6) {
        0 => 1,
        1 => 2,
        2 | 3 => 1 + rng.below(16),
        _ => 1 + rng.below(300),
    } as u32;
    let nk = 1 + rng.below(40) as usize;
    let keys = gen_keyset(rng, nk);
    // like the block encoder, a key mostly registers one position (its "home" restart interval), sometimes another
    let home: Vec<u8> = keys
        .iter()
        .map(|_| match rng.below(10) {
            0..=5 => rng.below(4),
            6..=8 => rng.below(254),
            _ => 253,
        } as u8)
        .collect();
    let few = rng.chance(1, 2);
    let nreg = 1 + rng.below(if few { 12 } else { 60 });
    let mut regs: Vec<(K, u8)> = (0..nreg)
        .map(|_| {
            let i = rng.below(keys.len() as u64) as usize;
            let pos = if rng.chance(4, 5) { home[i] } else { rng.below(254) as u8 };
            (keys[i].clone(), pos)
        })
        .collect();
    if rng.chance(1, 25) {
        // release builds have no guard against the marker values (the only caller guards with restart_idx < 254)
        let i = rng.below(regs.len() as u64) as usize;
        regs[i].1 = *rng.pick(&[254u8, 255]);
        st.count("filters.hashidx.with_marker_valued_position");
    }
    let mut b = hash_index::Builder::with_bucket_count(n);
    for (k, p) in &regs {
        let _ = b.set(k, *p);
    }
    let bytes = b.into_inner();
    let reader = hash_index::Reader::new(&bytes, 0, n);
    let mut gets: Vec<K> = keys.clone();
    gets.extend(absent_keys(rng, &keys).into_iter().take(10));
    let got: Vec<u8> = gets.iter().map(|k| reader.get(k)).collect();
    // the hash `Builder::set` applies is crate::hash::hash64 = standard_bloom::Builder::get_hash (public);
    // cross-check: the bucket of a key alone in a fresh index of the same size
    let hash = |k: &K| BloomBuilder::get_hash(k);
    let lone_bucket = |k: &K| -> u64 {
        let mut b = hash_index::Builder::with_bucket_count(n);
        let _ = b.set(k, 0);
        b.into_inner().iter().position(|x| *x != 254).unwrap() as u64
    };
    for k in &gets {
        if lone_bucket(k) != hash(k) % u64::from(n) {
            st.disagreements.push(format!("hash index: bucket of key {} in {n} buckets is {} but get_hash % n = {}", hex(k), lone_bucket(k), hash(k) % u64::from(n)));
            return;
        }
    }
    let imp = format!("buckets={} get={}", hex(&bytes), show_ids(&got));
    for by_bucket in [false, true] {
        let f = |k: &K| if by_bucket { lone_bucket(k) } else { hash(k) };
        let req = format!(
            "hashidx n={n} set={} get={}",
            regs.iter().map(|(k, p)| format!("{}:{p}", f(k))).collect::<Vec<_>>().join(","),
            show_ids(&gets.iter().map(f).collect::<Vec<_>>())
        );
        let model = drv.ask(&req);
        st.evaluations += 1;
        if imp != model {
            mismatch(st, if by_bucket { "hash_index (by bucket)" } else { "hash_index" }, &format!("case {case}"), &req, &first_diff(&imp, &model, &[]));
        } else {
            st.nontrivial_case(&req);
            if case < 1 && !by_bucket {
                st.sample(format!("{} -> {}", clip(&req, 300), clip(&imp, 200)));
            }
        }
    }
    st.count("filters.hashidx.cases");
    st.add("filters.hashidx.buckets_total", u64::from(n));
    st.add("filters.hashidx.buckets_conflicted", bytes.iter().filter(|b| **b == 255).count() as u64);
    st.add("filters.hashidx.buckets_free", bytes.iter().filter(|b| **b == 254).count() as u64);
    let registered: BTreeSet<&K> = regs.iter().map(|r| &r.0).collect();
    for (k, g) in gets.iter().zip(&got) {
        st.count(match (registered.contains(k), *g) {
            (_, 255) => "filters.hashidx.probe.conflict",
            (true, _) => "filters.hashidx.probe.registered_key_position",
            (false, 254) => "filters.hashidx.probe.true_negative",
            (false, _) => "filters.hashidx.probe.unregistered_key_aliases_a_position",
        });
    }
    for (k, p) in &regs {
        if *p > 253 {
            continue;
        }
        let g = reader.get(k);
        if g != *p && g != 255 {
            st.oracle_failures.push(format!("C11 hash index: registered ({}, {p}) reads back as {g} (n={n}, registrations {:?})", hex(k), regs.iter().map(|(k, p)| format!("{}:{p}", hex(k))).collect::<Vec<_>>()));
        }
    }
}

/// the registrations the data block encoder makes (`Encoder::write`, `Trailer::write`) and the point read through them
fn hash_enc_case(rng: &mut Rng, case: u64, st: &mut Stats, drv: &mut Drv) {
    let big = rng.chance(1, 12);
    let nk = if big { 120 + rng.below(100) as usize } else { 1 + rng.below(20) as usize };
    let keys = numbered_keys(rng, nk);
    let mut items: Vec<Ent> = gen_source(rng, &keys, 30, if big { 3 } else { 5 }, 90);
    let mut ri = *rng.pick(&[1u8, 2, 16]);
    if rng.chance(1, 6) {
        // boundary of the hash index marker space: exactly 253 .. 257 restart intervals (254 = FREE, 255 = CONFLICT)
        ri = *rng.pick(&[1u8, 1, 2]);
        let intervals = 253 + rng.below(5) as usize;
        let n = intervals * ri as usize - rng.below(u64::from(ri)) as usize;
        let ks = numbered_keys(rng, n);
        items = ks.into_iter().map(|k| Ent { key: k, seqno: rng.below(50), vt: 0, val: vec![b'v'] }).collect();
        st.count(&format!("filters.hashenc.boundary_{intervals}_intervals"));
    }
    if items.is_empty() {
        return;
    }
    let ratio = *rng.pick(&[0.1f32, 0.75, 1.33, 8.0]);
    let iv: Vec<_> = items.iter().map(Ent::to_internal).collect();
    let bytes = DataBlock::encode_into_vec(&iv, ri, ratio).unwrap();
    // trailer (31 bytes): restart interval u8, step u8, binary index len u32, offset u32, hash index len u32, offset u32, …
    let t = &bytes[bytes.len() - 31..];
    let u = |i: usize| u32::from_le_bytes(t[i..i + 4].try_into().unwrap());
    let (binlen, hlen, hoff) = (u(2), u(10), u(14));
    let written = hlen > 0;
    // `Builder::with_hash_ratio`: the bucket count is a parameter of the model
    let n = if written { hlen } else { ((items.len() as f32 * ratio) as u32).max(1) };
    let buckets = if written { bytes[hoff as usize..(hoff + hlen) as usize].to_vec() } else { vec![] };
    let db = data_block_of(bytes);
    let mut gets: Vec<K> = items.iter().map(|e| e.key.clone()).collect();
    gets.dedup();
    let present = gets.clone();
    gets.extend(absent_keys(rng, &present).into_iter().take(8));
    let plan: Vec<String> = gets
        .iter()
        .map(|k| match db.get_hash_index_reader() {
            None => "B".to_string(),
            Some(r) => match r.get(k) {
                254 => "A".into(),
                255 => "B".into(),
                i => format!("S{i}"),
            },
        })
        .collect();
    let h = |k: &K| BloomBuilder::get_hash(k);
    let req = format!("hashenc n={n} ri={ri} hashes={} get={}", show_ids(&items.iter().map(|e| h(&e.key)).collect::<Vec<_>>()), show_ids(&gets.iter().map(h).collect::<Vec<_>>()));
    let model = drv.ask(&req);
    st.evaluations += 1;
    // the real block holds no bucket bytes when the index was not written
    let model_cmp = if written { model.clone() } else { model.split(' ').filter(|f| !f.starts_with("buckets=")).collect::<Vec<_>>().join(" ") };
    let imp = format!("written={} restarts={binlen}{} plan={}", u8::from(written), if written { format!(" buckets={}", hex(&buckets)) } else { String::new() }, plan.join(","));
    st.count("filters.hashenc.blocks");
    st.count(if written { "filters.hashenc.index_written" } else { "filters.hashenc.index_not_written(>254 restart intervals)" });
    st.add("filters.hashenc.buckets_conflicted", buckets.iter().filter(|b| **b == 255).count() as u64);
    st.add("filters.hashenc.buckets_total", buckets.len() as u64);
    for p in &plan {
        st.count(match p.as_bytes()[0] {
            b'A' => "filters.hashenc.plan.absent",
            b'B' => "filters.hashenc.plan.binary_search",
            _ => "filters.hashenc.plan.scan_from_restart",
        });
    }
    if imp != model_cmp {
        mismatch(st, "data block hash index", &format!("case {case} ri={ri} ratio={ratio} items={}", items.len()), &req, &first_diff(&imp, &model_cmp, &[]));
    } else {
        st.nontrivial_case(&req);
    }
    // oracle: the hash index never hides an item
    for e in &items {
        let got = db.point_read(&e.key, e.seqno + 1).map(|v| Ent::of_internal(&v));
        if got.as_ref() != Some(e) {
            st.oracle_failures.push(format!("C11 data block point read through the hash index: point_read({}, {}) = {} (ri={ri} ratio={ratio}; items `{}`)", hex(&e.key), e.seqno + 1, show_opt_ent(&got), clip(&show_ents(&items), 1500)));
        }
    }
    for k in gets.iter().skip(present.len()) {
        if db.point_read(k, u64::MAX).is_some() {
            st.oracle_failures.push(format!("C11 data block point read returns an item for the absent key {}", hex(k)));
        }
    }
}
