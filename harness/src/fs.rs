//! Instrument I-C, in-process side: a fixed workload executed with op markers (for strace), per-op backups (so a crash
//! image can be assembled from ONE execution), a logical dump, and the failure-atomicity self-check used under
//! syscall fault injection. The out-of-process side is /verif/fsinst.py.
use lsm_tree::{AbstractTree, AnyTree, Config, KvSeparationOptions, SeqNo, SequenceNumberCounter};
use std::collections::BTreeMap;
use std::path::{Path, PathBuf};
use std::sync::Arc;

fn marker(i: usize, name: &str, phase: &str) {
    // a statx on a non-existent path: visible in the trace, no effect
    let _ = std::fs::metadata(format!("/lsmverif/op/{i}/{name}/{phase}"));
}

#[derive(Clone, Debug)]
pub enum FsOp {
    Create,
    Put(&'static str, &'static str),
    Del(&'static str),
    Flush,
    Major,
    Leveled,
    DropRange(&'static str, &'static str),
    Clear,
    Ingest(&'static [(&'static str, &'static str)]),
    Reopen,
}
impl FsOp {
    fn name(&self) -> &'static str {
        match self {
            FsOp::Create => "create",
            FsOp::Put(..) => "put",
            FsOp::Del(..) => "del",
            FsOp::Flush => "flush",
            FsOp::Major => "major",
            FsOp::Leveled => "leveled",
            FsOp::DropRange(..) => "drop_range",
            FsOp::Clear => "clear",
            FsOp::Ingest(..) => "ingest",
            FsOp::Reopen => "reopen",
        }
    }
    fn touches_fs(&self) -> bool {
        !matches!(self, FsOp::Put(..) | FsOp::Del(..))
    }
}

pub fn workload(name: &str) -> Vec<FsOp> {
    use FsOp::*;
    match name {
        // a blob file that is fully dead but still listed (dropped by the NEXT compaction), then more version changes
        "gc" => vec![
            Create,
            Put("a", "one-1"), Put("b", "one-2"), Flush,
            Put("a", "two-1"), Put("b", "two-2"), Flush,
            Major,
            Put("c", "three"), Flush,
            Major,
            Put("d", "four"), Put("a", "four-1"), Flush,
            Leveled,
            DropRange("c", "c"),
            Reopen,
            Put("e", "five"), Flush,
            Major,
        ],
        "short" => vec![Create, Put("a", "one"), Put("b", "one"), Flush, Put("b", "two"), Del("a"), Flush, Major, Reopen, Put("c", "three"), Flush],
        _ => vec![
            Create,
            Put("a", "one"), Put("b", "one"), Put("c", "one"), Flush,
            Put("b", "two"), Put("d", "two"), Del("a"), Flush,
            Major,
            Put("e", "three"), Flush,
            Leveled,
            Put("f", "four"), Put("a", "four"), Flush,
            DropRange("e", "f"),
            Reopen,
            Put("g", "five"), Flush,
            Ingest(&[("h", "six"), ("i", "six")]),
            Clear,
            Put("j", "seven"), Flush,
            Reopen,
            Put("k", "eight"), Flush,
            Major,
        ],
    }
}

fn cfg(dir: &Path, blob: bool, seqno: &SequenceNumberCounter, vis: &SequenceNumberCounter) -> Config {
    let c = Config::new(dir, seqno.clone(), vis.clone());
    if blob {
        c.with_kv_separation(Some(KvSeparationOptions::default().separation_threshold(1).file_target_size(64).compression(lsm_tree::CompressionType::None)))
    } else {
        c
    }
}

/// logical content: per key the newest stored entry (seqno, value) if it is not a tombstone; from a full scan plus the
/// persisted entries (so that sequence numbers are part of the comparison)
pub fn logical_dump(t: &AnyTree) -> Result<String, String> {
    use lsm_tree::Guard;
    let mut out = vec![];
    for g in t.iter(SeqNo::MAX, None) {
        let (k, v) = g.into_inner().map_err(|e| format!("scan:{e:?}"))?;
        out.push(format!("{}={}", String::from_utf8_lossy(&k), String::from_utf8_lossy(&v)));
    }
    // every key must also be readable by point lookup with the same value
    for kv in &out {
        let (k, v) = kv.split_once('=').unwrap();
        let got = t.get(k, SeqNo::MAX).map_err(|e| format!("get:{e:?}"))?;
        if got.as_deref() != Some(v.as_bytes()) {
            return Err(format!("point/scan mismatch on {k}"));
        }
    }
    Ok(format!("{} hp={:?}", out.join(","), t.get_highest_persisted_seqno()))
}

fn copy_dir(src: &Path, dst: &Path) {
    let _ = std::fs::create_dir_all(dst);
    if let Ok(rd) = std::fs::read_dir(src) {
        for e in rd.flatten() {
            let p = e.path();
            let d = dst.join(e.file_name());
            if p.is_dir() {
                copy_dir(&p, &d);
            } else {
                let _ = std::fs::copy(&p, &d);
            }
        }
    }
}

struct W {
    dir: PathBuf,
    blob: bool,
    seqno: SequenceNumberCounter,
    vis: SequenceNumberCounter,
    tree: Option<AnyTree>,
    /// what the durable + volatile logical content should be (oracle)
    expect: BTreeMap<String, String>,
    /// content that is only in memtables (lost by reopen)
    unflushed: bool,
    /// writes since the last successful flush (a reopen loses them: the crate has no WAL)
    dirty: bool,
}

impl W {
    fn tree(&self) -> &AnyTree {
        self.tree.as_ref().unwrap()
    }
    fn do_op(&mut self, op: &FsOp) -> Result<(), String> {
        let e = |e: lsm_tree::Error| format!("{e:?}");
        match op {
            FsOp::Create | FsOp::Reopen => {
                self.tree = None;
                self.tree = Some(cfg(&self.dir, self.blob, &self.seqno, &self.vis).open().map_err(e)?);
            }
            FsOp::Put(k, v) => {
                let s = self.seqno.next();
                self.tree().insert(*k, *v, s);
                self.vis.fetch_max(s + 1);
            }
            FsOp::Del(k) => {
                let s = self.seqno.next();
                self.tree().remove(*k, s);
                self.vis.fetch_max(s + 1);
            }
            FsOp::Flush => self.tree().flush_active_memtable(0).map_err(e)?,
            FsOp::Major => self.tree().major_compact(u64::MAX, self.vis.get()).map_err(e)?,
            FsOp::Leveled => self.tree().compact(Arc::new(lsm_tree::compaction::Leveled::default().with_l0_threshold(1)), self.vis.get()).map_err(e)?,
            FsOp::DropRange(a, b) => self.tree().drop_range::<&str, _>(*a..=*b).map_err(e)?,
            FsOp::Clear => self.tree().clear().map_err(e)?,
            FsOp::Ingest(items) => {
                let mut ing = self.tree().ingestion().map_err(e)?;
                for (k, v) in items.iter() {
                    ing.write(*k, *v).map_err(e)?;
                }
                ing.finish().map_err(e)?;
            }
        }
        Ok(())
    }
    /// oracle update for a SUCCESSFUL op; `drop_range` is re-synchronised from the tree (the property says nothing inside R)
    fn oracle(&mut self, op: &FsOp) {
        match op {
            FsOp::Put(k, v) => {
                self.expect.insert((*k).into(), (*v).into());
            }
            FsOp::Del(k) => {
                self.expect.remove(*k);
            }
            FsOp::Clear => self.expect.clear(),
            FsOp::Ingest(items) => {
                for (k, v) in items.iter() {
                    self.expect.insert((*k).into(), (*v).into());
                }
            }
            FsOp::DropRange(a, b) => {
                let keys: Vec<String> = self.expect.keys().filter(|k| k.as_str() >= *a && k.as_str() <= *b).cloned().collect();
                for k in keys {
                    match self.tree().get(&k, SeqNo::MAX) {
                        Ok(Some(v)) => {
                            self.expect.insert(k, String::from_utf8_lossy(&v).to_string());
                        }
                        _ => {
                            self.expect.remove(&k);
                        }
                    }
                }
            }
            _ => {}
        }
    }
    fn reads(&self) -> Result<BTreeMap<String, String>, String> {
        use lsm_tree::Guard;
        let mut m = BTreeMap::new();
        for g in self.tree().iter(SeqNo::MAX, None) {
            let (k, v) = g.into_inner().map_err(|e| format!("{e:?}"))?;
            m.insert(String::from_utf8_lossy(&k).to_string(), String::from_utf8_lossy(&v).to_string());
        }
        Ok(m)
    }
}

pub fn main(args: &[String]) {
    let mode = args.get(2).map(String::as_str).unwrap_or("");
    let dir = PathBuf::from(args.get(3).cloned().unwrap_or_default());
    let blob = args.iter().any(|a| a == "--blob");
    let wl = args.iter().position(|a| a == "--workload").and_then(|i| args.get(i + 1)).cloned().unwrap_or_else(|| "std".into());
    match mode {
        "dump" => {
            let r = std::panic::catch_unwind(|| -> Result<String, String> {
                let t = cfg(&dir, blob, &SequenceNumberCounter::new(100_000), &SequenceNumberCounter::new(100_000)).open().map_err(|e| format!("open:{e:?}"))?;
                let d = logical_dump(&t)?;
                // C20: "always after a reopen the directory contains no table, blob or version file other than those
                // the current version names" (and every named file exists)
                let hist = lsm_tree::verif_api::dump_history(crate::ib::index_tree(&t));
                let mut named: Vec<std::collections::BTreeSet<String>> = vec![Default::default(), Default::default(), Default::default()];
                for h in &hist {
                    named[0].extend(h.table_ids.iter().flatten().flatten().map(|x| x.to_string()));
                    named[1].extend(h.blob_file_ids.iter().map(|x| x.to_string()));
                    named[2].insert(format!("v{}", h.version_id));
                }
                let list = |sub: &str| -> std::collections::BTreeSet<String> {
                    std::fs::read_dir(dir.join(sub)).map(|rd| rd.flatten().filter(|e| e.path().is_file()).map(|e| e.file_name().to_string_lossy().to_string()).collect()).unwrap_or_default()
                };
                let disk = [list("tables"), list("blobs"), list("").into_iter().filter(|n| n.starts_with('v') && n[1..].parse::<u64>().is_ok()).collect()];
                for (i, what) in ["table", "blob file", "version file"].iter().enumerate() {
                    if let Some(x) = named[i].difference(&disk[i]).next() {
                        return Err(format!("C20 after reopen: {what} {x} is named by the recovered version but is not on disk"));
                    }
                    if let Some(x) = disk[i].difference(&named[i]).next() {
                        return Err(format!("C20 after reopen: {what} {x} is on disk but the recovered version does not name it (not reclaimed)"));
                    }
                }
                Ok(d)
            });
            match r {
                Ok(Ok(s)) => println!("OK {s}"),
                Ok(Err(e)) => println!("ERR {e}"),
                Err(_) => println!("PANIC"),
            }
        }
        "run" | "fault" => {
            let fault = mode == "fault";
            let backups = !args.iter().any(|a| a == "--no-backup");
            let no_retry = args.iter().any(|a| a == "--no-retry");
            let skip_failed = args.iter().any(|a| a == "--skip-failed");
            let ops = workload(&wl);
            let mut w = W { dir: dir.clone(), blob, seqno: SequenceNumberCounter::default(), vis: SequenceNumberCounter::default(), tree: None, expect: BTreeMap::new(), unflushed: false, dirty: false };
            let bak = PathBuf::from(format!("{}.bak", dir.display()));
            let mut failures = 0;
            for (i, op) in ops.iter().enumerate() {
                if op.touches_fs() {
                    if backups {
                        copy_dir(&dir, &bak.join(i.to_string()));
                    }
                    marker(i, op.name(), "begin");
                }
                if skip_failed && w.dirty && matches!(op, FsOp::Reopen) && w.tree.is_some() {
                    // a skipped failed flush left writes in the memtables: the application flushes before it closes the tree
                    // (without a WAL, closing would lose them legitimately)
                    if w.do_op(&FsOp::Flush).is_ok() {
                        w.dirty = false;
                    }
                }
                let before = if fault && w.tree.is_some() && !matches!(op, FsOp::Reopen | FsOp::Create) { w.reads().ok() } else { None };
                let r = std::panic::catch_unwind(std::panic::AssertUnwindSafe(|| w.do_op(op)));
                if op.touches_fs() {
                    marker(i, op.name(), "end");
                }
                match r {
                    Ok(Ok(())) => {
                        w.oracle(op);
                        match op {
                            FsOp::Put(..) | FsOp::Del(..) => w.dirty = true,
                            FsOp::Flush | FsOp::Ingest(..) | FsOp::Clear => w.dirty = false,
                            _ => {}
                        }
                    }
                    Ok(Err(e)) if fault => {
                        failures += 1;
                        // C16: nothing changed, tree usable, retry succeeds
                        let mut line = format!("FAULT op={i} name={} result=err:{}", op.name(), e.replace(' ', "_").chars().take(60).collect::<String>());
                        if w.tree.is_some() {
                            let after = w.reads();
                            let unchanged = match (&before, &after) {
                                (Some(b), Ok(a)) => b == a,
                                (None, _) => true,
                                _ => false,
                            };
                            let hidden_empty = match w.tree() {
                                AnyTree::Standard(t) => !t.is_compacting(),
                                AnyTree::Blob(b) => !b.index.is_compacting(),
                            };
                            line.push_str(&format!(" reads_unchanged={} hidden_empty={}", u8::from(unchanged), u8::from(hidden_empty)));
                        }
                        // only for calls without a logical effect (flush, compactions); a failed drop_range / clear / ingest may
                        // durably have taken effect ("before or after"), which the immediate-reopen variant below judges
                        if skip_failed && w.tree.is_some() && matches!(op, FsOp::Flush | FsOp::Major | FsOp::Leveled) {
                            // no retry, no reopen: the failed call is simply not repeated; the workload goes on
                            line.push_str(" skipped");
                            println!("{line}");
                            continue;
                        }
                        if (no_retry || skip_failed) && w.tree.is_some() {
                            // C16: "reopening at any time afterwards yields the state from before or after the failed call":
                            // no retry; drop the handle right away and reopen
                            let before_reads = before.clone();
                            w.tree = None;
                            match cfg(&w.dir, w.blob, &w.seqno, &w.vis).open() {
                                Ok(t) => {
                                    w.tree = Some(t);
                                    // memtable content is lost by a reopen (no WAL): compare only if nothing was unflushed
                                    let after = w.reads().ok();
                                    let same = before_reads.is_some() && before_reads == after;
                                    // "after" state of the failed op is also acceptable
                                    #[allow(unused_mut)]
                                    let mut probe = W { dir: w.dir.clone(), blob: w.blob, seqno: w.seqno.clone(), vis: w.vis.clone(), tree: None, expect: w.expect.clone(), unflushed: false, dirty: false };
                                    let is_after = match (op, &after) {
                                        // inside a dropped range the property allows either outcome per key
                                        (FsOp::DropRange(a, b), Some(af)) => {
                                            w.expect.iter().all(|(k, v)| (k.as_str() >= *a && k.as_str() <= *b) || af.get(k) == Some(v))
                                                && af.iter().all(|(k, v)| w.expect.get(k) == Some(v))
                                        }
                                        _ => {
                                            probe.oracle(op);
                                            after.as_ref() == Some(&probe.expect)
                                        }
                                    };
                                    line.push_str(&format!(" reopen_after_failure={}", if same || is_after || w.dirty { "ok" } else { "mismatch" }));
                                    if !same && is_after {
                                        if let (FsOp::DropRange(..), Some(af)) = (op, &after) {
                                            w.expect = af.clone();
                                        } else {
                                            w.oracle(op);
                                        }
                                    }
                                    if w.dirty {
                                        // unflushed writes were lost legitimately: re-synchronise the oracle
                                        if let Some(a) = after { w.expect = a; }
                                        w.dirty = false;
                                    }
                                }
                                Err(e) => {
                                    line.push_str(&format!(" reopen_after_failure=err:{}", format!("{e:?}").replace(' ', "_")));
                                    println!("{line}");
                                    println!("FINAL failures={failures} reopen=err-after-failed-op");
                                    return;
                                }
                            }
                            println!("{line}");
                            continue;
                        }
                        let retry = std::panic::catch_unwind(std::panic::AssertUnwindSafe(|| w.do_op(op)));
                        match retry {
                            Ok(Ok(())) => {
                                w.oracle(op);
                                line.push_str(" retry=ok");
                            }
                            Ok(Err(e2)) => line.push_str(&format!(" retry=err:{}", e2.replace(' ', "_").chars().take(40).collect::<String>())),
                            Err(_) => line.push_str(" retry=panic"),
                        }
                        println!("{line}");
                    }
                    Ok(Err(e)) => {
                        println!("OPERR {i} {} {e}", op.name());
                        std::process::exit(3);
                    }
                    Err(_) => {
                        println!("FAULT op={i} name={} result=panic", op.name());
                        if !fault {
                            std::process::exit(3);
                        }
                        failures += 1;
                        // after a panic inside the engine the handle may be unusable: reopen and go on
                        w.tree = None;
                        match cfg(&w.dir, w.blob, &w.seqno, &w.vis).open() {
                            Ok(t) => w.tree = Some(t),
                            Err(e) => {
                                println!("FINAL reopen-after-panic=err:{e:?}");
                                return;
                            }
                        }
                    }
                }
                if op.touches_fs() && w.tree.is_some() {
                    let idx = match w.tree() {
                        AnyTree::Standard(t) => t.clone(),
                        AnyTree::Blob(b) => b.index.clone(),
                    };
                    if let Some(h) = lsm_tree::verif_api::dump_history(&idx).last() {
                        let mut tabs: Vec<u64> = h.table_ids.iter().flatten().flatten().copied().collect();
                        tabs.sort_unstable();
                        let mut blobs = h.blob_file_ids.clone();
                        blobs.sort_unstable();
                        println!("VER {i} {} id={} tables={} blobs={}", op.name(), h.version_id, tabs.iter().map(|x| x.to_string()).collect::<Vec<_>>().join(","), blobs.iter().map(|x| x.to_string()).collect::<Vec<_>>().join(","));
                    }
                    match logical_dump(w.tree()) {
                        Ok(d) => println!("STATE {i} {} {d}", op.name()),
                        Err(e) => println!("STATE {i} {} ERR:{e}", op.name()),
                    }
                    if skip_failed && failures > 0 {
                        // what is on disk NOW must be recoverable (a copy is opened, the live handle stays): a later version
                        // change may have met what a skipped failed call left behind (orphan version file, half-written table)
                        let probe_dir = PathBuf::from(format!("{}.probe", dir.display()));
                        let _ = std::fs::remove_dir_all(&probe_dir);
                        copy_dir(&dir, &probe_dir);
                        let r = std::panic::catch_unwind(|| {
                            cfg(&probe_dir, blob, &SequenceNumberCounter::new(100_000), &SequenceNumberCounter::new(100_000)).open().map_err(|e| format!("{e:?}")).and_then(|t| logical_dump(&t))
                        });
                        match r {
                            Ok(Ok(_)) => {}
                            Ok(Err(e)) => println!("MISMATCH after op {i} {}: a copy of the directory does not recover: {e}", op.name()),
                            Err(_) => println!("MISMATCH after op {i} {}: recovering a copy of the directory panics", op.name()),
                        }
                        let _ = std::fs::remove_dir_all(&probe_dir);
                    }
                    if fault {
                        // reads must equal the oracle at every quiescent point
                        let ok = w.reads().map(|m| m == w.expect).unwrap_or(false);
                        if !ok {
                            println!("MISMATCH after op {i} {}: reads {:?} oracle {:?}", op.name(), w.reads(), w.expect);
                        }
                    }
                }
            }
            if fault {
                // final: flush, reopen, compare with the oracle
                let _ = w.tree().flush_active_memtable(0);
                w.tree = None;
                match cfg(&w.dir, w.blob, &w.seqno, &w.vis).open() {
                    Ok(t) => {
                        w.tree = Some(t);
                        let ok = w.reads().map(|m| m == w.expect).unwrap_or(false);
                        println!("FINAL failures={failures} reopen={}", if ok { "ok" } else { "mismatch" });
                    }
                    Err(e) => println!("FINAL failures={failures} reopen=err:{e:?}"),
                }
            }
            let _ = w.unflushed;
        }
        _ => {
            eprintln!("usage: lsmverif fs <run|fault|dump> <dir> [--blob] [--workload std|short] [--no-backup]");
            std::process::exit(2);
        }
    }
}
