//! Instrument I-A: function-level differential tests — the real functions of the crate and the model's
//! executable definitions (through `lsmdrv`) on the same generated inputs.
use crate::util::*;
use lsm_tree::verif_api as va;
use lsm_tree::{InternalValue, KeyRange};
use std::ops::Bound;

fn mismatch(st: &mut Stats, what: &str, req: &str, imp: &str, model: &str) {
    st.disagreements.push(format!("{what}: request `{req}` implementation `{imp}` model `{model}`"));
}

// ---------------------------------------------------------------------------------------------- cstream

struct Cb(Vec<Ent>);
impl va::DroppedKvCallback for Cb {
    fn on_dropped(&mut self, kv: &InternalValue) {
        self.0.push(Ent::of_internal(kv));
    }
}
struct SeededFilter(Option<u64>, u64 /* tombstones shown */);
impl va::StreamFilter for SeededFilter {
    fn filter_item(&mut self, item: &InternalValue) -> lsm_tree::Result<va::StreamFilterVerdict> {
        if item.key.value_type.is_tombstone() {
            self.1 += 1;
        }
        let Some(seed) = self.0 else { return Ok(va::StreamFilterVerdict::Keep) };
        Ok(match verdict_code(seed, &item.key.user_key, &item.value) {
            3 => {
                let mut v = item.value.to_vec();
                v.extend(std::iter::repeat(0x52).take(12));
                va::StreamFilterVerdict::Replace((lsm_tree::ValueType::Value, v.into()))
            }
            4 => {
                let mut v = item.value.to_vec();
                v.push(0x52);
                va::StreamFilterVerdict::Replace((lsm_tree::ValueType::Value, v.into()))
            }
            5 => va::StreamFilterVerdict::Replace((lsm_tree::ValueType::Tombstone, vec![].into())),
            6 => va::StreamFilterVerdict::Replace((lsm_tree::ValueType::WeakTombstone, vec![].into())),
            7 => va::StreamFilterVerdict::Drop,
            _ => va::StreamFilterVerdict::Keep,
        })
    }
}

pub fn real_cstream(input: &[Ent], wm: u64, evict: bool, filter: Option<u64>) -> (Vec<Ent>, Vec<Ent>, u64) {
    let mut cb = Cb(vec![]);
    let mut shown_tombs = 0;
    let out: Vec<Ent> = {
        let iter = input.iter().map(|e| Ok(e.to_internal()));
        let mut f = SeededFilter(filter, 0);
        let s = va::CompactionStream::new(iter, wm)
            .evict_tombstones(evict)
            .with_filter(FilterRef(&mut f))
            .with_drop_callback(&mut cb);
        let out = s.map(|x| Ent::of_internal(&x.unwrap())).collect();
        shown_tombs = f.1.max(shown_tombs);
        out
    };
    (out, cb.0, shown_tombs)
}
struct FilterRef<'a>(&'a mut SeededFilter);
impl va::StreamFilter for FilterRef<'_> {
    fn filter_item(&mut self, item: &InternalValue) -> lsm_tree::Result<va::StreamFilterVerdict> {
        self.0.filter_item(item)
    }
}

/// merged multi-source input as the stream sees it: sorted by internal key, distinct (key, seqno)
pub fn gen_merged(rng: &mut Rng, keys: &[K], seq_hi: u64) -> Vec<Ent> {
    let mut v = gen_source(rng, keys, seq_hi, 5, 70);
    v.sort_by(ik_cmp);
    v.dedup_by(|a, b| a.key == b.key && a.seqno == b.seqno);
    v
}

pub fn cstream(seed: u64, cases: u64, st: &mut Stats, drv: &mut Drv) {
    let mut rng = Rng::new(seed ^ 0xc57e);
    for case in 0..cases {
        let nkeys = 1 + rng.below(5) as usize;
        let keys = gen_keyset(&mut rng, nkeys);
        let seq_hi = 4 + rng.below(20);
        let input = gen_merged(&mut rng, &keys, seq_hi);
        let wm = match rng.below(4) {
            0 => 0,
            1 => seq_hi + 1,
            _ => rng.below(seq_hi + 1),
        };
        let evict = rng.chance(1, 3);
        let filter = if rng.chance(1, 3) { Some(rng.below(1000)) } else { None };
        let req = format!(
            "cstream wm={wm} evict={} filter={} in={}",
            u8::from(evict),
            filter.map_or("none".to_string(), |s| s.to_string()),
            show_ents(&input)
        );
        let (out, dropped, shown_tombs) = real_cstream(&input, wm, evict, filter);
        let imp = format!("out={} dropped={}", show_ents(&out), show_ents(&dropped));
        let model = drv.ask(&req);
        st.evaluations += 1;
        if shown_tombs > 0 {
            st.oracle_failures.push(format!("C17 filter was shown {shown_tombs} tombstone(s): {req}"));
        }
        // branch accounting (input distribution)
        let multi = input.windows(2).any(|w| w[0].key == w[1].key);
        let has_weak = input.iter().any(|e| e.vt == 2);
        if multi {
            st.count("cstream.multi_version_key");
            st.nontrivial_case(&req);
        }
        if has_weak {
            st.count("cstream.has_weak_tombstone");
        }
        if !dropped.is_empty() {
            st.count("cstream.dropped_nonempty");
        }
        if evict {
            st.count("cstream.evict");
        }
        if filter.is_some() {
            st.count("cstream.filtered");
        }
        if imp != model {
            let legacy = drv.ask(&req.replacen("cstream", "cstreamlegacy", 1));
            let tag = if legacy == imp { "cstream[implementation agrees with the LEGACY stream model: finding F5 signature]" } else { "cstream" };
            mismatch(st, tag, &req, &imp, &model);
        } else if case < 2 {
            st.sample(format!("{req} -> {imp}"));
        }
    }
}

// ---------------------------------------------------------------------------------------------- mvcc / merge

fn gen_word(rng: &mut Rng, n: usize) -> String {
    (0..n).map(|_| if rng.chance(1, 2) { 'F' } else { 'B' }).collect()
}

pub fn mvcc(seed: u64, cases: u64, st: &mut Stats, drv: &mut Drv) {
    let mut rng = Rng::new(seed ^ 0x3cc);
    for case in 0..cases {
        let nkeys = 1 + rng.below(5) as usize;
        let keys = gen_keyset(&mut rng, nkeys);
        let input = gen_merged(&mut rng, &keys, 12);
        let word = gen_word(&mut rng, input.len() + 2);
        let req = format!("mvcc in={} word={word}", show_ents(&input));
        let mut it = lsm_tree::mvcc_stream::MvccStream::new(input.iter().map(|e| Ok(e.to_internal())));
        let mut items = vec![];
        for c in word.chars() {
            let x = if c == 'F' { it.next() } else { it.next_back() };
            items.push(show_opt_ent(&x.map(|r| Ent::of_internal(&r.unwrap()))));
        }
        let imp = format!("items={}", items.join("|"));
        let model = drv.ask(&req);
        st.evaluations += 1;
        if input.windows(2).any(|w| w[0].key == w[1].key) && word.contains('F') && word.contains('B') {
            st.count("mvcc.multi_version_both_ends");
            st.nontrivial_case(&req);
        }
        if imp != model {
            mismatch(st, "mvcc", &req, &imp, &model);
        } else if case < 1 {
            st.sample(format!("{req} -> {imp}"));
        }
    }
}

pub fn merge(seed: u64, cases: u64, st: &mut Stats, drv: &mut Drv) {
    let mut rng = Rng::new(seed ^ 0x3e6);
    for case in 0..cases {
        let nkeys = 1 + rng.below(5) as usize;
        let keys = gen_keyset(&mut rng, nkeys);
        let nsrc = 1 + rng.below(4) as usize;
        // distinct (key, seqno) across sources: draw one pool, deal it out
        let mut pool = gen_merged(&mut rng, &keys, 16);
        let mut srcs: Vec<Vec<Ent>> = vec![vec![]; nsrc];
        for e in pool.drain(..) {
            let i = rng.below(nsrc as u64) as usize;
            srcs[i].push(e);
        }
        let total: usize = srcs.iter().map(Vec::len).sum();
        let word = gen_word(&mut rng, total + 2);
        let req = format!("kmerge srcs={} word={word}", srcs.iter().map(|s| show_ents(s)).collect::<Vec<_>>().join("|"));
        let iters: Vec<_> = srcs.iter().map(|s| s.iter().map(|e| Ok(e.to_internal())).collect::<Vec<_>>().into_iter()).collect();
        let mut it = lsm_tree::merge::Merger::new(iters);
        let mut items = vec![];
        for c in word.chars() {
            let x = if c == 'F' { it.next() } else { it.next_back() };
            items.push(show_opt_ent(&x.map(|r| Ent::of_internal(&r.unwrap()))));
        }
        let imp = format!("items={}", items.join("|"));
        let model = drv.ask(&req);
        st.evaluations += 1;
        if nsrc >= 2 && total >= 3 && word.contains('F') && word.contains('B') {
            st.count("merge.multi_source_both_ends");
            st.nontrivial_case(&req);
        }
        if imp != model {
            mismatch(st, "merge", &req, &imp, &model);
        } else if case < 1 {
            st.sample(format!("{req} -> {imp}"));
        }
    }
}

// ---------------------------------------------------------------------------------------------- runs

#[derive(Clone, Debug)]
pub struct FakeTable {
    pub id: u64,
    pub kr: KeyRange,
}
impl va::Ranged for FakeTable {
    fn key_range(&self) -> &KeyRange {
        &self.kr
    }
}
fn ft(id: u64, lo: &[u8], hi: &[u8]) -> FakeTable {
    FakeTable { id, kr: KeyRange::new((lo.into(), hi.into())) }
}
fn show_ft(t: &FakeTable) -> String {
    format!("{}:{}:{}", t.id, hex(t.kr.min()), hex(t.kr.max()))
}
fn show_run(r: &[FakeTable]) -> String {
    r.iter().map(show_ft).collect::<Vec<_>>().join(",")
}
/// a well-formed run: disjoint ascending tables over the sorted key list
fn gen_run(rng: &mut Rng, keys: &[K], next_id: &mut u64) -> Vec<FakeTable> {
    let mut out = vec![];
    let mut i = 0;
    while i < keys.len() {
        if rng.chance(1, 4) {
            i += 1;
            continue;
        }
        let span = rng.below(3) as usize;
        let j = (i + span).min(keys.len() - 1);
        out.push(ft(*next_id, &keys[i], &keys[j]));
        *next_id += 1;
        i = j + 1;
    }
    out
}
fn gen_bound(rng: &mut Rng, keys: &[K]) -> (Bound<K>, String) {
    let k = if rng.chance(4, 5) { rng.pick(keys).clone() } else { gen_key(rng) };
    match rng.below(3) {
        0 => (Bound::Included(k.clone()), format!("I{}", hex(&k))),
        1 => (Bound::Excluded(k.clone()), format!("E{}", hex(&k))),
        _ => (Bound::Unbounded, "U".into()),
    }
}

pub fn runs(seed: u64, cases: u64, st: &mut Stats, drv: &mut Drv) {
    let mut rng = Rng::new(seed ^ 0x2a5);
    for case in 0..cases {
        let nkeys = 2 + rng.below(8) as usize;
        let keys = gen_keyset(&mut rng, nkeys);
        let mut next_id = 0;
        // --- optimize_runs on several well-formed runs
        let nruns = rng.below(5) as usize;
        let runs: Vec<Vec<FakeTable>> = (0..nruns).map(|_| gen_run(&mut rng, &keys, &mut next_id)).filter(|r| !r.is_empty()).collect();
        let req = format!("optimize runs={}", runs.iter().map(|r| show_run(r)).collect::<Vec<_>>().join("|"));
        let real = va::optimize_runs(runs.iter().map(|r| va::Run::new(r.clone()).unwrap()).collect());
        let imp = format!("runs={}", real.iter().map(|r| show_ids(&r.iter().map(|t| t.id).collect::<Vec<_>>())).collect::<Vec<_>>().join("|"));
        let model = drv.ask(&req);
        st.evaluations += 1;
        if runs.len() >= 2 {
            st.count("optimize.multi_run");
            st.nontrivial_case(&req);
        }
        // property-level audit of the real output (C07: runs disjoint & ascending; overlapping tables keep their order)
        for r in &real {
            for w in r.windows(2) {
                if !(w[0].kr.max() < w[1].kr.min()) {
                    st.oracle_failures.push(format!("C07 optimize_runs produced a non-disjoint/unsorted run: {req} -> {imp}"));
                }
            }
        }
        if imp != model {
            mismatch(st, "optimize_runs", &req, &imp, &model);
        } else if case < 1 {
            st.sample(format!("{req} -> {imp}"));
        }

        // --- run lookups
        let run = gen_run(&mut rng, &keys, &mut next_id);
        if run.is_empty() {
            continue;
        }
        let rr = va::Run::new(run.clone()).unwrap();
        let rs = show_run(&run);
        for _ in 0..4 {
            let k = if rng.chance(3, 4) { rng.pick(&keys).clone() } else { gen_key(&mut rng) };
            let req = format!("getforkey run={rs} key={}", hex(&k));
            let imp = rr.get_for_key(&k).map_or("-".to_string(), |t| t.id.to_string());
            let model = drv.ask(&req);
            st.evaluations += 1;
            if imp != model {
                mismatch(st, "get_for_key", &req, &imp, &model);
            }
            // oracle: the unique table containing k
            let want = run.iter().find(|t| t.kr.contains_key(&k)).map_or("-".to_string(), |t| t.id.to_string());
            if imp != want {
                st.oracle_failures.push(format!("C01 get_for_key misses the table containing the key: {req} -> {imp}, want {want}"));
            }
        }
        for _ in 0..4 {
            let (lo, los) = gen_bound(&mut rng, &keys);
            let (hi, his) = gen_bound(&mut rng, &keys);
            let req = format!("overlap run={rs} lo={los} hi={his}");
            let b: (Bound<K>, Bound<K>) = (lo.clone(), hi.clone());
            let imp = rr.range_overlap_indexes::<K, _>(&b).map_or("-".to_string(), |(a, b)| format!("{a},{b}"));
            let model = drv.ask(&req);
            st.evaluations += 1;
            st.nontrivial_case(&req);
            if imp != model {
                mismatch(st, "range_overlap_indexes", &req, &imp, &model);
            }
        }
        for _ in 0..3 {
            let a = rng.pick(&keys).clone();
            let b = rng.pick(&keys).clone();
            let (lo, hi) = if a <= b { (a, b) } else { (b, a) };
            let kr = KeyRange::new((lo.clone().into(), hi.clone().into()));
            let req = format!("contained run={rs} lo={} hi={}", hex(&lo), hex(&hi));
            let imp = format!("ids={}", show_ids(&rr.get_contained(&kr).iter().map(|t| t.id).collect::<Vec<_>>()));
            let model = drv.ask(&req);
            st.evaluations += 1;
            if imp != model {
                mismatch(st, "get_contained", &req, &imp, &model);
            }
            let req = format!("overlapping run={rs} lo={} hi={}", hex(&lo), hex(&hi));
            let imp = format!("ids={}", show_ids(&rr.get_overlapping(&kr).iter().map(|t| t.id).collect::<Vec<_>>()));
            let model = drv.ask(&req);
            st.evaluations += 1;
            if imp != model {
                mismatch(st, "get_overlapping", &req, &imp, &model);
            }
        }
    }
}

// ---------------------------------------------------------------------------------------------- super versions

pub fn supers(seed: u64, cases: u64, st: &mut Stats, drv: &mut Drv) {
    let mut rng = Rng::new(seed ^ 0x50e7);
    let dir = tempfile::tempdir_in(crate::scratch_root()).unwrap();
    for case in 0..cases {
        // history with non-decreasing seqnos (equal seqnos occur: rotate keeps the seqno … appended ones are increasing)
        let n = 1 + rng.below(6) as usize;
        let mut s = rng.below(3);
        let mut hist = vec![];
        for i in 0..n {
            hist.push((s, i as u64));
            s += rng.below(4);
        }
        let hs = hist.iter().map(|(s, v)| format!("{s}:{v}")).collect::<Vec<_>>().join(",");
        let top = s + 2;
        // resolve
        for _ in 0..3 {
            let q = rng.below(top + 1);
            let h = va::make_history(&hist).unwrap();
            let req = format!("resolve hist={hs} S={q}");
            let imp = std::panic::catch_unwind(std::panic::AssertUnwindSafe(|| {
                let sv = h.get_version_for_snapshot(q);
                format!("{}:{}", va::seqno_of(&sv), va::version_of(&sv).id())
            }))
            .unwrap_or_else(|_| "panic".into());
            let model = drv.ask(&req);
            st.evaluations += 1;
            if imp != model {
                mismatch(st, "get_version_for_snapshot", &req, &imp, &model);
            }
            // oracle (C02): the newest entry with seqno < S
            if q > 0 {
                let want = hist.iter().rev().find(|(s, _)| *s < q).map_or("panic".to_string(), |(s, v)| format!("{s}:{v}"));
                if imp != want {
                    st.oracle_failures.push(format!("C02 snapshot resolves to the wrong super version: {req} -> {imp}, want {want}"));
                }
            }
        }
        // maintenance
        let wm = rng.below(top + 1);
        let mut h = va::make_history(&hist).unwrap();
        for (_, v) in &hist {
            std::fs::write(dir.path().join(format!("v{v}")), b"x").unwrap();
        }
        h.maintenance(dir.path(), wm).unwrap();
        let after = va::history_pairs(&h);
        let unlinked: Vec<u64> = hist.iter().map(|(_, v)| *v).filter(|v| !dir.path().join(format!("v{v}")).exists()).collect();
        for (_, v) in &hist {
            let _ = std::fs::remove_file(dir.path().join(format!("v{v}")));
        }
        let req = format!("maint hist={hs} wm={wm}");
        let imp = format!("hist={} unlinked={}", after.iter().map(|(s, v)| format!("{s}:{v}")).collect::<Vec<_>>().join(","), show_ids(&unlinked));
        let model = drv.ask(&req);
        st.evaluations += 1;
        if after.len() < hist.len() {
            st.count("maintenance.removed_some");
            st.nontrivial_case(&req);
        }
        if imp != model {
            mismatch(st, "maintenance", &req, &imp, &model);
        } else if case < 1 {
            st.sample(format!("{req} -> {imp}"));
        }
        // oracle (C02): every snapshot S ≥ wm still resolves to the entry it resolved to before
        for q in wm.max(1)..=top {
            let before = hist.iter().rev().find(|(s, _)| *s < q);
            let aft = after.iter().rev().find(|(s, _)| *s < q);
            if before != aft {
                st.oracle_failures.push(format!("C02 maintenance(wm={wm}) changed what snapshot {q} resolves to: {hs}"));
            }
        }
    }
}

// ---------------------------------------------------------------------------------------------- small pure functions

pub fn small(seed: u64, cases: u64, st: &mut Stats, drv: &mut Drv) {
    // ValueType <-> u8: exhaustive
    for b in 0u16..256 {
        let req = format!("vt b={b}");
        let imp = match lsm_tree::ValueType::try_from(b as u8) {
            Ok(t) => format!("{} {}", Ent { key: vec![], seqno: 0, vt: u8::from(t), val: vec![] }.vt_char(), u8::from(t)),
            Err(()) => "invalid".into(),
        };
        let model = drv.ask(&req);
        st.evaluations += 1;
        if imp != model {
            mismatch(st, "ValueType", &req, &imp, &model);
        }
    }
    st.count("vt.exhaustive_256");
    // prefix_to_range: exhaustive over all prefixes of length ≤ 3 over {00,01,fe,ff}, plus random ones
    let al = [0x00u8, 0x01, 0xfe, 0xff];
    let mut prefixes: Vec<Vec<u8>> = vec![vec![]];
    for a in al {
        prefixes.push(vec![a]);
        for b in al {
            prefixes.push(vec![a, b]);
            for c in al {
                prefixes.push(vec![a, b, c]);
            }
        }
    }
    let mut rng = Rng::new(seed ^ 0x9f1);
    for _ in 0..cases {
        let len = rng.below(5) as usize;
        prefixes.push((0..len).map(|_| if rng.chance(1, 2) { 0xff } else { rng.below(256) as u8 }).collect());
    }
    let show_b = |b: &Bound<lsm_tree::UserKey>| match b {
        Bound::Included(k) => format!("I{}", hex(k)),
        Bound::Excluded(k) => format!("E{}", hex(k)),
        Bound::Unbounded => "U".into(),
    };
    let probes: Vec<K> = {
        let mut v = vec![];
        for a in al {
            v.push(vec![a]);
            for b in al {
                v.push(vec![a, b]);
                for c in al {
                    v.push(vec![a, b, c]);
                    v.push(vec![a, b, c, 0x00]);
                    v.push(vec![a, b, c, 0xff]);
                }
            }
        }
        v
    };
    for p in &prefixes {
        let req = format!("prefix p={}", hex(p));
        let (lo, hi) = lsm_tree::range::prefix_to_range(p);
        let imp = format!("{} {}", show_b(&lo), show_b(&hi));
        let model = drv.ask(&req);
        st.evaluations += 1;
        st.nontrivial_case(&req);
        if imp != model {
            mismatch(st, "prefix_to_range", &req, &imp, &model);
        }
        // oracle (C03): membership in the range == starts_with, on a probe set
        for k in &probes {
            let inside = (match &lo {
                Bound::Included(x) => k.as_slice() >= &**x,
                Bound::Excluded(x) => k.as_slice() > &**x,
                Bound::Unbounded => true,
            }) && (match &hi {
                Bound::Included(x) => k.as_slice() <= &**x,
                Bound::Excluded(x) => k.as_slice() < &**x,
                Bound::Unbounded => true,
            });
            if inside != k.starts_with(p) {
                st.oracle_failures.push(format!("C03 prefix_to_range({}) {} key {}", hex(p), if inside { "includes non-prefixed" } else { "excludes prefixed" }, hex(k)));
            }
        }
    }
    // memtable insert/get
    for case in 0..cases {
        let nkeys = 1 + rng.below(4) as usize;
        let keys = gen_keyset(&mut rng, nkeys);
        let n = rng.below(10) as usize;
        let mut ins = vec![];
        for _ in 0..n {
            let k = rng.pick(&keys).clone();
            let s = rng.below(8);
            let vt = *rng.pick(&[0u8, 0, 0, 1, 2]);
            let val = if vt == 0 { vec![rng.below(256) as u8] } else { vec![] };
            ins.push(Ent { key: k, seqno: s, vt, val });
        }
        let m = lsm_tree::Memtable::new(0);
        for e in &ins {
            let _ = m.insert(e.to_internal());
        }
        let k = rng.pick(&keys).clone();
        let s = rng.below(10);
        let req = format!("memtable ins={} key={} S={s}", show_ents(&ins), hex(&k));
        let got = m.get(&k, s).map(|v| Ent::of_internal(&v));
        let items: Vec<Ent> = m.iter().map(|v| Ent::of_internal(&v)).collect();
        let imp = format!("get={} items={} hi={}", show_opt_ent(&got), show_ents(&items), m.get_highest_seqno().map_or("-".to_string(), |x| x.to_string()));
        let model = drv.ask(&req);
        st.evaluations += 1;
        if n >= 3 {
            st.nontrivial_case(&req);
        }
        if imp != model {
            mismatch(st, "memtable", &req, &imp, &model);
        } else if case < 1 {
            st.sample(format!("{req} -> {imp}"));
        }
    }
}
