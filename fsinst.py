#!/usr/bin/env python3
"""
Instrument I-C (out-of-process side): syscall-level observation of the real engine with strace.

  fsinst.py crash  --workload std|short [--blob] [--stride N] [--seed S]   crash images at syscall boundaries (C05, C20)
  fsinst.py fault  --workload std|short [--blob] [--stride N]              one failed FS syscall at a time (C16)
  fsinst.py proto  --workload std|short [--blob]                           install-protocol conformance vs the Lean automaton (C05)

Prints one line `RESULT {json}` in the same format as the Rust harness.
Every byte used to assemble a crash image comes from ONE traced execution (the killed one): the workload process itself
copies the tree directory to <dir>.bak/<op> at each op begin, and those copies are what unsynced directory operations are
undone from.
"""
import json, os, re, shutil, subprocess, sys, hashlib, random

BIN = os.environ.get("LSMVERIF_BIN", "/verif/harness/target/release/lsmverif")
DRV = os.environ.get("LSMDRV", "/verif/lean/.lake/build/bin/lsmdrv")
SCRATCH = os.environ.get("LSMVERIF_SCRATCH", "/dev/shm/lsmverif" if os.path.isdir("/dev/shm") else "/tmp/lsmverif")
TRACED = ["openat", "read", "pread64", "write", "fsync", "fdatasync", "renameat", "renameat2", "rename", "unlink", "unlinkat", "mkdir", "mkdirat"]
PAR = int(os.environ.get("LSMVERIF_PAR", "12"))
line_re = re.compile(r"^(\d+)\s+(\w+)\((.*)$")


def sh(cmd, timeout=600):
    return subprocess.run(cmd, stdout=subprocess.PIPE, stderr=subprocess.STDOUT, text=True, timeout=timeout).stdout


class Trace:
    """parsed strace log: mutating events on the tree directory with (name, ordinal) addresses, and op windows"""

    def __init__(self, logpath, tree):
        self.events = []   # dict(n, name, ordinal, kind, path, extra, op)
        self.ops = []      # dict(idx, name, begin_n, end_n)
        self.per = {}
        self.total = 0
        cur = None
        n = 0
        for line in open(logpath, errors="replace"):
            m = line_re.match(line)
            if not m:
                continue
            name, rest = m.group(2), m.group(3)
            if name == "statx":
                mm = re.search(r'"/lsmverif/op/(\d+)/(\w+)/(begin|end)"', rest)
                if mm:
                    idx, opname, ph = int(mm.group(1)), mm.group(2), mm.group(3)
                    if ph == "begin":
                        cur = {"idx": idx, "name": opname, "begin_n": n, "end_n": None}
                    elif cur is not None:
                        cur["end_n"] = n
                        self.ops.append(cur)
                        cur = None
                continue
            if name not in TRACED:
                continue
            if "<unfinished" in rest or "resumed>" in line:
                pass
            n += 1
            self.per[name] = self.per.get(name, 0) + 1
            ev = {"n": n, "name": name, "ordinal": self.per[name], "kind": None, "path": None, "extra": None, "op": cur["idx"] if cur else None, "raw": rest[:200]}
            failed = re.search(r"\)\s+= -1 E", rest) is not None   # a failed syscall (EEXIST, ENOENT, ...) changes nothing

            def rel(p):
                if p == tree:
                    return "."
                return os.path.relpath(p, tree) if p.startswith(tree + "/") else None

            if failed:
                self.events.append(ev)
                continue
            if name == "openat":
                mm = re.search(r'"([^"]+)", ([A-Z_|0-9x]+)', rest)
                if mm:
                    r = rel(mm.group(1))
                    if r is not None and "O_CREAT" in mm.group(2):
                        ev.update(kind="create", path=r, extra=mm.group(2))
                    elif r is not None and ("O_WRONLY" in mm.group(2) or "O_RDWR" in mm.group(2)):
                        ev.update(kind="openw", path=r, extra=mm.group(2))
                    elif r is not None and "O_DIRECTORY" not in mm.group(2) and (r.startswith("tables/") or r.startswith("blobs/")):
                        ev.update(kind="openr", path=r, extra=mm.group(2))   # read-only open of a table / blob file (fault targets only)
            elif name in ("read", "pread64"):
                mm = re.match(r'\d+<([^>]+)>', rest)
                if mm and rel(mm.group(1)) is not None and (rel(mm.group(1)).startswith("tables/") or rel(mm.group(1)).startswith("blobs/")):
                    ev.update(kind="read", path=rel(mm.group(1)))              # read of a table / blob file (fault targets only)
            elif name == "write":
                mm = re.match(r'\d+<([^>]+)>, "((?:[^"\\]|\\.)*)"(\.\.\.)?, (\d+)', rest)
                if mm and rel(mm.group(1)) is not None:
                    ev.update(kind="write", path=rel(mm.group(1)), extra={"size": int(mm.group(4)), "data": mm.group(2), "trunc": bool(mm.group(3))})
            elif name in ("fsync", "fdatasync"):
                mm = re.match(r'\d+<([^>]+)>', rest)
                if mm and rel(mm.group(1)) is not None:
                    ev.update(kind="fsync", path=rel(mm.group(1)))
            elif name in ("renameat", "renameat2", "rename"):
                mm = re.findall(r'"([^"]+)"', rest)
                if len(mm) >= 2 and rel(mm[1]) is not None:
                    ev.update(kind="rename", path=rel(mm[1]), extra=rel(mm[0]))
            elif name in ("unlink", "unlinkat"):
                mm = re.search(r'"([^"]+)"', rest)
                if mm and rel(mm.group(1)) is not None:
                    ev.update(kind="unlink", path=rel(mm.group(1)))
            elif name in ("mkdir", "mkdirat"):
                mm = re.search(r'"([^"]+)"', rest)
                if mm and rel(mm.group(1)) is not None:
                    ev.update(kind="mkdir", path=rel(mm.group(1)))
            self.events.append(ev)
        self.total = n

    def tree_events(self, reads=False):
        return [e for e in self.events if e["kind"] and (reads or e["kind"] not in ("openr", "read"))]


def run_traced(tree, workload, blob, mode="run", inject=None, log=None, extra=None):
    shutil.rmtree(tree, ignore_errors=True)
    shutil.rmtree(tree + ".bak", ignore_errors=True)
    log = log or tree + ".log"
    cmd = ["strace", "-f", "-y", "-s", "64", "-o", log, "-e", "trace=%s,statx" % ",".join(TRACED)]
    if inject:
        cmd += ["-e", "inject=" + inject]
    cmd += [BIN, "fs", mode, tree, "--workload", workload] + (["--blob"] if blob else []) + (extra or [])
    out = sh(cmd)
    return out, log


def dump(tree, blob):
    out = sh([BIN, "fs", "dump", tree] + (["--blob"] if blob else [])).strip().splitlines()
    return out[-1] if out else "NOOUTPUT"


def states_of(out):
    st = {}
    for l in out.splitlines():
        if l.startswith("STATE "):
            _, idx, name, rest = (l.split(" ", 3) + [""])[:4]
            st[int(idx)] = rest
    return st


def is_dir_path(p):
    return p in (".", "tables", "blobs")


def persistence_state(tr, k):
    """sizes, synced sizes and not-yet-durable directory operations after the first k traced syscalls"""
    size, synced, pending = {}, {}, []
    for e in tr.events:
        if e["n"] > k or not e["kind"]:
            continue
        kind, p = e["kind"], e["path"]
        if kind == "create":
            trunc = "O_TRUNC" in e["extra"] or p not in size
            if trunc:
                size[p] = 0
            synced.setdefault(p, 0)
            if trunc:
                synced[p] = 0
            pending.append(("create", p, None, e))
        elif kind == "write":
            size[p] = size.get(p, 0) + e["extra"]["size"]
        elif kind == "fsync":
            if is_dir_path(p):
                d = "" if p == "." else p
                pending = [x for x in pending if os.path.dirname(x[1]) != d]
            elif p in size:
                synced[p] = size[p]
        elif kind == "rename":
            src = e["extra"]
            pending.append(("rename", p, src, e))
            size[p] = size.get(src, 0)
            synced[p] = synced.get(src, 0)
            size.pop(src, None)
        elif kind == "unlink":
            pending.append(("unlink", p, None, e))
            size.pop(p, None)
        elif kind == "mkdir":
            pending.append(("mkdir", p, None, e))
    unsynced = sorted(p for p in size if size[p] != synced.get(p, 0))
    return size, synced, pending, unsynced


def decode_c_string(s):
    """strace string -> bytes"""
    out = bytearray()
    i = 0
    while i < len(s):
        c = s[i]
        if c == "\\":
            i += 1
            c = s[i]
            if c in "01234567":
                j = i
                while j < len(s) and j < i + 3 and s[j] in "01234567":
                    j += 1
                out.append(int(s[i:j], 8) & 0xFF)
                i = j
                continue
            if c == "x":
                out.append(int(s[i + 1:i + 3], 16))
                i += 3
                continue
            out.append({"n": 10, "t": 9, "r": 13, "v": 11, "f": 12, "a": 7, "b": 8, "e": 27}.get(c, ord(c)))
            i += 1
        else:
            out.append(ord(c))
            i += 1
    return bytes(out)


def build_variants(tr, k, img, bak_root, rng, thorough):
    """yield (name, directory) for each adversarial persistence outcome of the image after k syscalls"""
    size, synced, pending, unsynced = persistence_state(tr, k)
    variants = [("as-is", False, False, 0)]
    if unsynced:
        variants.append(("lose-unsynced-data", True, False, 0))
    if pending:
        variants.append(("lose-unsynced-dirents", False, True, 0))
    if unsynced and pending:
        variants.append(("lose-both", True, True, 0))
    if thorough and unsynced:
        variants.append(("garble-unsynced-suffix", True, False, 1))
        variants.append(("torn-tail", True, False, 2))
    # the op the point belongs to decides which backup to undo from
    cur_op = None
    for o in tr.ops:
        if o["begin_n"] <= k and (o["end_n"] is None or k <= o["end_n"]):
            cur_op = o
    for name, lose_data, lose_dirents, mode in variants:
        d = img + ".work"
        shutil.rmtree(d, ignore_errors=True)
        if not os.path.isdir(img):
            os.makedirs(d, exist_ok=True)
        else:
            shutil.copytree(img, d)
        if lose_data:
            for p in unsynced:
                fp = os.path.join(d, p)
                if not os.path.isfile(fp):
                    continue
                keep = synced.get(p, 0)
                if mode == 0:
                    os.truncate(fp, keep)
                elif mode == 1:
                    data = bytearray(open(fp, "rb").read())
                    for i in range(keep, len(data)):
                        data[i] = rng.randrange(256)
                    open(fp, "wb").write(bytes(data))
                else:
                    cur = os.path.getsize(fp)
                    if cur > keep:
                        os.truncate(fp, keep + rng.randrange(cur - keep))
        if lose_dirents:
            for (kind, p, src, e) in reversed(pending):
                fp = os.path.join(d, p)
                if kind == "create":
                    if os.path.isfile(fp):
                        os.remove(fp)
                elif kind in ("rename", "unlink"):
                    # undo from the backup this same execution took at the beginning of the op the syscall belongs to
                    b = os.path.join(bak_root, str(e["op"]), p) if e["op"] is not None else None
                    if b and os.path.exists(b):
                        shutil.copy(b, fp)
                    elif kind == "rename" and os.path.exists(fp):
                        os.remove(fp)
                elif kind == "mkdir" and os.path.isdir(fp):
                    shutil.rmtree(fp, ignore_errors=True)
        yield name, d, cur_op, (unsynced, [(x[0], x[1]) for x in pending])


def result(stats):
    print("RESULT " + json.dumps(stats))


def new_stats():
    return {"evaluations": 0, "distinct_nontrivial": 0, "counters": {}, "samples": [], "disagreements": [], "oracle_failures": [], "known_findings": []}


def count(st, k, n=1):
    st["counters"][k] = st["counters"].get(k, 0) + n


def cmd_crash(args):
    wl, blob, stride, seed, thorough = args.workload, args.blob, args.stride, args.seed, args.thorough
    rng = random.Random(seed)
    root = os.path.join(SCRATCH, "fsinst_%d_%s%s" % (os.getpid(), wl, "_blob" if blob else ""))
    os.makedirs(root, exist_ok=True)
    tree = os.path.join(root, "t")
    st = new_stats()
    try:
        out, log = run_traced(tree, wl, blob)
        tr = Trace(log, tree)
        states = states_of(out)
        if not tr.ops or not states:
            st["disagreements"].append("reference run produced no op windows: " + out[-300:])
            return result(st)
        order = [o["idx"] for o in tr.ops]
        first, last = tr.ops[0]["begin_n"], tr.ops[-1]["end_n"]
        points = list(range(first, last + 1))
        if stride > 1:
            off = seed % stride
            # always keep the points right around renames and directory fsyncs (the interesting boundaries)
            hot = set()
            for e in tr.events:
                if e["kind"] in ("rename", "unlink") or (e["kind"] == "fsync" and is_dir_path(e["path"])):
                    hot.update([e["n"] - 1, e["n"]])
            points = [k for k in points if (k - off) % stride == 0 or k in hot]
        seen = set()

        def one(k):
            import threading
            img = os.path.join(root, "img%d" % threading.get_ident())
            nxt = next((e for e in tr.events if e["n"] == k + 1), None)
            if nxt is not None:
                inj = "%s:signal=SIGKILL:when=%d" % (nxt["name"], nxt["ordinal"])
                run_traced(img, wl, blob, inject=inj, log=img + ".klog")
            else:
                run_traced(img, wl, blob, log=img + ".klog")
            allowed, where = None, None
            for i, o in enumerate(tr.ops):
                prev = states.get(order[i - 1]) if i > 0 else None
                if o["begin_n"] <= k < o["end_n"]:
                    allowed, where = {prev, states.get(o["idx"])}, (o, "during")
                    break
                if k == o["end_n"] or (i + 1 < len(tr.ops) and o["end_n"] < k < tr.ops[i + 1]["begin_n"]):
                    allowed, where = {states.get(o["idx"])}, (o, "after")
                    break
            res = []
            if allowed is None:
                return res
            lrng = random.Random(seed * 1000003 + k)
            for vname, d, cur_op, dbg in build_variants(tr, k, img, img + ".bak", lrng, thorough):
                got = dump(d, blob)
                res.append((k, vname, got, allowed, where, dbg))
            return res

        from concurrent.futures import ThreadPoolExecutor
        with ThreadPoolExecutor(max_workers=PAR) as ex:
            for res in ex.map(one, points):
                for k, vname, got, allowed, where, dbg in res:
                    st["evaluations"] += 1
                    count(st, "crash.variant." + vname)
                    o, phase = where
                    ok = False
                    if got.startswith("OK "):
                        ok = got[3:] in allowed or (o["name"] == "create" and got[3:].startswith(" hp=None"))
                    elif o["name"] == "create" and phase == "during":
                        ok = True  # the tree does not exist yet: nothing durable to lose
                    if vname != "as-is":
                        seen.add((o["name"], phase, vname, got[:60]))
                    if not ok:
                        # report only what reproduces (kill points are addressed by syscall ordinals of the reference trace)
                        again = [x for x in one(k) if x[1] == vname]
                        if not again or again[0][2] != got:
                            count(st, "crash.unreproducible_failure_ignored")
                            continue
                        if len(st["oracle_failures"]) < 8:
                            st["oracle_failures"].append(("C20" if "C20 " in got else "C05") + " crash after %d traced syscalls (op #%d %s, %s), outcome %s: reopen gives %r, allowed %s; unsynced=%s pending=%s" % (
                                k, o["idx"], o["name"], phase, vname, got[:200], sorted(str(a) for a in allowed), dbg[0], dbg[1][:6]))
                        count(st, "crash.bad")
                    elif len(st["samples"]) < 3 and vname != "as-is":
                        st["samples"].append("k=%d op=%s/%s outcome=%s -> %s" % (k, o["name"], phase, vname, got[:80]))
        st["distinct_nontrivial"] = len(seen)
        count(st, "crash.points", len(points))
        count(st, "crash.ops", len(tr.ops))
    finally:
        shutil.rmtree(root, ignore_errors=True)
    result(st)


def cmd_fault(args):
    wl, blob, stride, seed = args.workload, args.blob, args.stride, args.seed
    root = os.path.join(SCRATCH, "fsfault_%d_%s%s" % (os.getpid(), wl, "_blob" if blob else ""))
    os.makedirs(root, exist_ok=True)
    tree = os.path.join(root, "t")
    st = new_stats()
    try:
        out, log = run_traced(tree, wl, blob, mode="fault", extra=["--no-backup"])
        tr = Trace(log, tree)
        if "FINAL failures=0 reopen=ok" not in out:
            st["disagreements"].append("fault-free reference run is not clean: " + out[-400:])
            return result(st)
        targets = [e for e in tr.tree_events(reads=True) if e["op"] is not None and e["kind"] in ("create", "write", "fsync", "rename", "unlink", "mkdir", "openw", "openr", "read")]
        if stride > 1:
            targets = [e for i, e in enumerate(targets) if (i - seed) % stride == 0 or e["kind"] in ("rename",)]
        seen = set()
        jobs = [(e, err, False) for e in targets for err in (["EIO", "ENOSPC"] if e["kind"] in ("write", "create", "mkdir") else ["EIO"])]
        # second variant: after the failed call do NOT retry but drop the handle and reopen at once
        jobs += [(e, "EIO", True) for e in targets]
        # third variant: after the failed call neither retry nor reopen; go on with the REST of the workload (a later, different
        # version change then meets whatever the failed one left behind), final flush + reopen compared with the oracle
        jobs += [(e, "EIO", "skip") for e in targets]

        def one(job):
            e, err, noretry = job
            import threading
            t = os.path.join(root, "w%d" % threading.get_ident())
            inj = "%s:error=%s:when=%d" % (e["name"], err, e["ordinal"])
            o, _ = run_traced(t, wl, blob, mode="fault", inject=inj, log=t + ".flog", extra=["--no-backup"] + (["--skip-failed"] if noretry == "skip" else ["--no-retry"] if noretry else []))
            return e, err + ("/skip" if noretry == "skip" else "/no-retry" if noretry else ""), o

        from concurrent.futures import ThreadPoolExecutor
        with ThreadPoolExecutor(max_workers=PAR) as ex:
            for e, err, o in ex.map(one, jobs):
                st["evaluations"] += 1
                count(st, "fault.%s.%s" % (e["kind"], err))
                opname = next((x["name"] for x in tr.ops if x["idx"] == e["op"]), "?")
                faults = [l for l in o.splitlines() if l.startswith("FAULT ")]
                final = [l for l in o.splitlines() if l.startswith("FINAL ")]
                mism = [l for l in o.splitlines() if l.startswith("MISMATCH ")]
                where = "fault %s on %s of %s (op #%s %s)" % (err, e["kind"], e["path"], e["op"], opname)
                bad = None
                if not final:
                    bad = "process did not finish: " + o[-200:].replace("\n", " | ")
                elif "reopen=ok" not in final[0]:
                    bad = "after the run: " + final[0]
                elif mism:
                    bad = mism[0][:300]
                for f in faults:
                    if "result=panic" in f:
                        bad = bad or ("operation panicked: " + f)
                    if "reads_unchanged=0" in f:
                        bad = "reads changed after the failed call: " + f
                    if "hidden_empty=0" in f:
                        bad = "tables stay hidden after the failed call: " + f
                    if "retry=err" in f or "retry=panic" in f:
                        bad = "retry after the fault cleared did not succeed: " + f
                    if "reopen_after_failure=mismatch" in f or "reopen_after_failure=err" in f:
                        bad = "reopening right after the failed call yields neither the state before nor after it: " + f
                if faults:
                    count(st, "fault.returned_error")
                    seen.add((opname, e["kind"], faults[0].split("result=")[1].split(" ")[0][:30]))
                else:
                    count(st, "fault.swallowed_ok")
                    seen.add((opname, e["kind"], "ok"))
                if bad:
                    # a genuine failure-atomicity defect is deterministic: re-run the same injection; report only what reproduces
                    # (the first output is kept for diagnosis)
                    os.makedirs("/verif/work/replays", exist_ok=True)
                    dump_path = "/verif/work/replays/fault_%s_%s_%d.txt" % (e["name"], err.replace("/", "_"), e["ordinal"])
                    open(dump_path, "w").write(o)
                    _, _, o2 = one((e, err.split("/")[0], "skip" if err.endswith("skip") else err.endswith("no-retry")))
                    import re
                    norm = lambda out: [re.sub(r"\d{6,}", "N", l)[:220] for l in out.splitlines() if l.startswith(("FAULT ", "FINAL ", "MISMATCH "))]  # checksums / timestamps differ from run to run
                    same = norm(o2) == norm(o)
                    if not same:
                        count(st, "fault.unreproducible_failure_ignored")
                        continue
                    if len(st["oracle_failures"]) < 8:
                        st["oracle_failures"].append("C16 %s: %s [full output: %s]" % (where, bad, dump_path))
                elif len(st["samples"]) < 3 and faults:
                    st["samples"].append("%s -> %s ; %s" % (where, faults[0][:120], final[0]))
        st["distinct_nontrivial"] = len(seen)
        count(st, "fault.targets", len(targets))
    finally:
        shutil.rmtree(root, ignore_errors=True)
    result(st)


def main():
    import argparse
    ap = argparse.ArgumentParser()
    ap.add_argument("cmd", choices=["crash", "fault", "proto"])
    ap.add_argument("--workload", default="std")
    ap.add_argument("--blob", action="store_true")
    ap.add_argument("--stride", type=int, default=1)
    ap.add_argument("--seed", type=int, default=1)
    ap.add_argument("--cases", type=int, default=0)
    ap.add_argument("--thorough", action="store_true")
    args = ap.parse_args()
    if args.cmd == "crash":
        cmd_crash(args)
    elif args.cmd == "fault":
        cmd_fault(args)
    else:
        from fsproto import cmd_proto
        cmd_proto(args, Trace, run_traced, new_stats, count, result, SCRATCH, DRV)


if __name__ == "__main__":
    main()
