#!/bin/bash
# usage: mutant_eval.sh <patch.diff> <command...>   — applies a seeded change to /repo, runs the command, reverts
set -u
patch=$1; shift
cd /repo; if git diff --quiet; then stashed=1; else git stash -q; stashed=0; fi
git -C /repo apply "$patch" || { echo "PATCH DOES NOT APPLY"; [ $stashed -eq 0 ] && git -C /repo stash pop -q; exit 9; }
( cd /verif && "$@" ); rc=$?
git -C /repo checkout -- . 
[ $stashed -eq 0 ] && git -C /repo stash pop -q
exit $rc
