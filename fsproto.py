"""Install-protocol conformance (instrument I-C, part 1): the file-system actions of every operation of a traced run,
abstracted to the alphabet of LsmModel/Fs/Install.lean, must be accepted by the Lean automaton `acceptsFrom`
(the hypothesis of c05_crash_atomic / c16_failure_atomic / c20_live_files_never_unlinked)."""
import os, re, shutil, subprocess


def path_of(rel):
    """tree-relative path -> model path 'd.n' (None = not modelled: current, temp files, directories, lock files)"""
    m = re.fullmatch(r"tables/(\d+)", rel)
    if m:
        return "1." + m.group(1)
    m = re.fullmatch(r"blobs/(\d+)", rel)
    if m:
        return "2." + m.group(1)
    m = re.fullmatch(r"v(\d+)", rel)
    if m:
        return "0." + m.group(1)
    return None


def is_tmp(rel):
    return "/" not in rel and rel.startswith(".tmp")


def cmd_proto(args, Trace, run_traced, new_stats, count, result, SCRATCH, DRV):
    import fsinst
    wl, blob = args.workload, args.blob
    root = os.path.join(SCRATCH, "fsproto_%d_%s%s" % (os.getpid(), wl, "_blob" if blob else ""))
    os.makedirs(root, exist_ok=True)
    tree = os.path.join(root, "t")
    st = new_stats()
    try:
        out, log = run_traced(tree, wl, blob, extra=["--no-backup"])
        tr = Trace(log, tree)
        vers = {}
        for l in out.splitlines():
            if l.startswith("VER "):
                f = l.split(" ")
                kv = dict(x.split("=", 1) for x in f[3:])
                vers[int(f[1])] = (int(kv["id"]), [int(x) for x in kv["tables"].split(",") if x], [int(x) for x in kv["blobs"].split(",") if x])
        drv = subprocess.Popen([DRV], stdin=subprocess.PIPE, stdout=subprocess.PIPE, text=True, bufsize=1)

        def ask(q):
            drv.stdin.write(q + "\n")
            drv.stdin.flush()
            return drv.stdout.readline().strip()

        ask("hello")
        content = {}      # model path -> chunk list as accepted so far
        chunk = [100]
        NOVER = 4000000000
        ask("fsinit ver=%d|" % NOVER)
        cur_files = []
        for o in tr.ops:
            if o["idx"] not in vers:
                continue
            vid, tabs, blobs = vers[o["idx"]]
            acts = []
            tmp_written = set()
            local = dict(content)
            for e in tr.events:
                if e["op"] != o["idx"] or not e["kind"]:
                    continue
                kind, p = e["kind"], e["path"]
                mp = path_of(p)
                if kind == "create":
                    if mp:
                        acts.append("C" + mp)
                        local[mp] = []
                elif kind == "write":
                    if mp:
                        chunk[0] += 1
                        acts.append("A%s.%d" % (mp, chunk[0]))
                        local.setdefault(mp, []).append(chunk[0])
                    elif is_tmp(p) and p not in tmp_written:
                        data = fsinst.decode_c_string(e["extra"]["data"])
                        v = int.from_bytes(data[:8], "little") if len(data) >= 8 else -1
                        acts.append("T%d" % v)
                        tmp_written.add(p)
                elif kind == "fsync":
                    if mp:
                        acts.append("S" + mp)
                    elif is_tmp(p):
                        acts.append("Y")
                    elif p in (".", "tables", "blobs"):
                        acts.append("D%d" % {".": 0, "tables": 1, "blobs": 2}[p])
                elif kind == "rename":
                    if p == "current":
                        acts.append("R")
                elif kind == "unlink":
                    if mp:
                        acts.append("U" + mp)
            files = ["0.%d" % vid] + ["1.%d" % t for t in tabs] + ["2.%d" % b for b in blobs]
            new = "%d|%s" % (vid, ";".join("%s:%s" % (f, "+".join(str(c) for c in local.get(f, []))) for f in files))
            reply = ask("fsop new=%s acts=%s" % (new, ",".join(acts)))
            st["evaluations"] += 1
            count(st, "proto.actions", len(acts))
            count(st, "proto.op." + o["name"])
            if reply.startswith("ok"):
                content = local
                if "R" in acts:
                    st["distinct_nontrivial"] += 1
                if len(st["samples"]) < 3 and "R" in acts:
                    st["samples"].append("op #%d %s: %s -> %s" % (o["idx"], o["name"], ",".join(acts)[:300], reply))
                if "completed=0" in reply:
                    st["oracle_failures"].append("C05 op #%d %s returned but the install is not durably completed (no directory fsync after the rename): %s" % (o["idx"], o["name"], ",".join(acts)[:400]))
            else:
                st["disagreements"].append("install protocol violated by op #%d %s (hypothesis of c05_crash_atomic no longer holds): %s ; actions: %s" % (o["idx"], o["name"], reply, ",".join(acts)[:600]))
                # resynchronise the automaton so that later ops are still checked
                ask("fsinit ver=%s" % new)
                content = local
        drv.stdin.close()
        drv.wait(timeout=5)
    finally:
        shutil.rmtree(root, ignore_errors=True)
    result(st)
