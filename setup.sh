#!/bin/bash
# builds the framework from files on disk only (offline)
set -e
cd /verif/lean && lake build lsmdrv LsmModel
cd /verif/harness && CARGO_NET_OFFLINE=true cargo build --release --offline
mkdir -p /verif/evidence /verif/work/replays
