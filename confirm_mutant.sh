#!/bin/bash
# usage: confirm_mutant.sh <worktree> <deliver-subdir> <seeded-id>
# confirms: with the change the suite passes and the demo fails; without it the demo passes. Archives under /verif/seeded/<id>/.
wt=$1; d=$2; id=$3; feat=${4:-}
cd "$wt" || exit 2
git checkout -q -- . ; rm -f tests/zz_demo_*.rs
name=zz_demo_$(echo $id | tr 'A-Z-' 'a-z_')
cp "$d/demo.rs" tests/$name.rs
export CARGO_NET_OFFLINE=true
without=$(cargo test --offline $feat --test $name 2>&1 | grep -E "^test result" | tail -1)
git apply "$d/patch.diff" || { echo "$id: PATCH FAILS"; exit 3; }
with=$(cargo test --offline $feat --test $name 2>&1 | grep -E "^test result" | tail -1)
rm -f tests/$name.rs
suite=$(cargo test --workspace --no-fail-fast --offline 2>&1 | grep "test result" | awk '{p+=$4; f+=$6} END {print "passed",p,"failed",f}')
git checkout -q -- .
mkdir -p /verif/seeded/$id
cp "$d/patch.diff" "$d/demo.rs" /verif/seeded/$id/
python3 - "$d/meta.json" "$id" "$without" "$with" "$suite" <<'PY'
import json,sys
m=json.load(open(sys.argv[1])); 
m["confirmed_by_me"]={"demo_without_change":sys.argv[3],"demo_with_change":sys.argv[4],"suite_with_change":sys.argv[5]}
json.dump(m,open("/verif/seeded/%s/meta.json"%sys.argv[2],"w"),indent=1)
PY
echo "$id: without=[$without] with=[$with] suite=[$suite]"
