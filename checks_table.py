"""Property id -> theorem module + correspondence instruments. Used by ./check and gen_manifest.py."""

def ib(profile, quick, thorough, blob=0, ops=50, extra=None):
    return {"args": ["ib", profile, "--blob", str(blob), "--ops", str(ops)] + (extra or []),
            "cases": {"quick": quick, "thorough": thorough}}

def ia(which, quick, thorough):
    return {"args": ["ia", which], "cases": {"quick": quick, "thorough": thorough}}

COMMON_ASSUME = [
    "usage protocol P1-P6 of DESIGN.md 3.6 (seqnos from the shared counter, snapshots read from the visible counter, watermarks <= live snapshots, MoveDown/PullDown only across empty levels, Leveled only on single-run levels)",
    "hash functions, sfa container, tempfile, quick_cache, crossbeam-skiplist, interval-heap are modelled by their specifications",
]

PROPS = {
    "C19": {
        "title": "FIFO compaction drops only the oldest tables and leaves the rest readable",
        "instruments": [ib("fifo", 300, 6000, blob=2, ops=60)],
        "rule": "append-only histories with FIFO compactions at limits {1 byte, half, exactly, twice} the measured size and TTL {none, huge}; "
                "every FIFO call: real choice compared with the model's fifoChoose on the same per-table facts, C19 oracle on the real tree; non-trivial = the history contains a FIFO call on >= 2 tables (counted by distinct history digest)",
        "assumptions": COMMON_ASSUME + ["TTL expiry against the wall clock is only exercised with TTL none/huge in the correspondence (the theorem covers every clock value)"],
        "trusted_base": [],
        "design_ref": "7 C19",
        "technique": "Lean 4 theorems about the transcribed FIFO choice function + differential replay against fifo::Strategy on real trees",
        "level_text": "Theorems c19_* close the quantifier over all limits, TTLs, clock values and table lists for the model of Strategy::choose; the model is tied to the code by replaying every FIFO decision of generated histories through both.",
        "level_note": "proof about a hand-written model; correspondence by differential testing; retained-table readability rests on the C01 machinery",
    },
}
