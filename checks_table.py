"""Property id -> theorem module + correspondence instruments. Used by ./check and gen_manifest.py."""

def ib(profile, quick, thorough, blob=0, ops=50, extra=None):
    return {"args": ["ib", profile, "--blob", str(blob), "--ops", str(ops)] + (extra or []),
            "cases": {"quick": quick, "thorough": thorough}}

def ia(which, quick, thorough):
    return {"args": ["ia", which], "cases": {"quick": quick, "thorough": thorough}}

COMMON_ASSUME = [
    "usage protocol P1-P6 of DESIGN.md 3.6 (seqnos from the shared counter, snapshots read from the visible counter, watermarks <= live snapshots, MoveDown/PullDown only across empty levels, Leveled only on single-run levels)",
    "hash functions, sfa container, tempfile, quick_cache, crossbeam-skiplist, interval-heap are modelled by their specifications",
]

def entry(title, instruments, rule, technique, level_text, level_note, design_ref, assumptions=None, trusted=None):
    return {"title": title, "instruments": instruments, "rule": rule, "assumptions": COMMON_ASSUME + (assumptions or []),
            "trusted_base": trusted or [], "design_ref": design_ref, "technique": technique, "level_text": level_text, "level_note": level_note}

TECH = "Lean 4 theorems about a hand-written executable model + differential correspondence (lsmdrv vs. real crate, step-validated histories) + property oracle on the real tree"

PROPS = {
    "C19": {
        "title": "FIFO compaction drops only the oldest tables and leaves the rest readable",
        "instruments": [ib("fifo", 300, 6000, blob=2, ops=60)],
        "rule": "append-only histories with FIFO compactions at limits {1 byte, half, exactly, twice} the measured size and TTL {none, huge}; "
                "every FIFO call: real choice compared with the model's fifoChoose on the same per-table facts, C19 oracle on the real tree; non-trivial = the history contains a FIFO call on >= 2 tables (counted by distinct history digest)",
        "assumptions": COMMON_ASSUME + ["TTL expiry against the wall clock is only exercised with TTL none/huge in the correspondence (the theorem covers every clock value)"],
        "trusted_base": [],
        "design_ref": "7 C19",
        "technique": "Lean 4 theorems about the transcribed FIFO choice function + differential replay against fifo::Strategy on real trees",
        "level_text": "Theorems c19_* close the quantifier over all limits, TTLs, clock values and table lists for the model of Strategy::choose; the model is tied to the code by replaying every FIFO decision of generated histories through both.",
        "level_note": "proof about a hand-written model; correspondence by differential testing; retained-table readability rests on the C01 machinery",
    },
    "C13": entry(
        "A weak delete behaves like a delete for keys written once",
        [ia("cstream", 3000, 100000), ib("weak", 400, 20000, blob=2, ops=60)],
        "I-A: generated merged multi-version inputs (weak tombstones in 70% of them), real CompactionStream vs model cstream incl. dropped-callback order; "
        "I-B: histories with weak-delete rounds on two keys obeying the single-delete discipline, every placement of tombstone vs value across memtables/levels; "
        "non-trivial = history with >= 1 version-changing compaction and >= 2 flushes (distinct digests)",
        TECH,
        "c13_weak_delete_gc_safe / _last_level: for every watermark and every split of a key's version list into (newer outside, compaction input, older outside) that obeys the discipline, the GC stream preserves the discipline and the value read; c13_legacy_stream_violates records F5.",
        "tree-level lifting (which versions of a key form the compaction input) rests on Admissible, monitored on every observed choice; see C01",
        "7 C13"),
    "C17": entry(
        "Compaction filters act exactly as their verdicts say and spare old snapshots",
        [ia("cstream", 3000, 100000), ib("filter", 300, 15000, blob=2, ops=60)],
        "I-A: CompactionStream with a seeded verdict function (Keep/Replace/Remove/RemoveWeak/Destroy by hash of key,value) vs model; "
        "I-B: trees with a table-driven compaction filter factory, verdict log compared with the oracle's newest value, snapshots held across compactions; non-trivial as C13",
        TECH,
        "c17_* theorems: per verdict, what new snapshots read; the filter never influences the result through tombstones; other keys untouched; output stays sorted. Old snapshots: C02.",
        "verdict functions are deterministic in (key, value); RemoveWeak/Destroy only claimed for write-once keys, as the property states",
        "7 C17"),
    "C02": entry(
        "A snapshot keeps returning the same answers until it is released",
        [ia("supers", 2000, 50000), ib("snap", 400, 20000, blob=2, ops=60)],
        "I-A: SuperVersions::maintenance / get_version_for_snapshot on generated histories (equal seqnos, S=0, watermarks around entries) vs model + C02 oracle; "
        "I-B: histories with up to three concurrently held snapshots (each taken from the visible counter), every key re-read by point lookup and full scan from both ends at every held snapshot after every later op (writes, flushes, all compactions, filters, ingestion, drop_range, clear) with watermarks <= min live snapshot; model state compared after every op; non-trivial = >= 1 version-changing compaction and >= 2 flushes",
        TECH,
        "c02_snapshot_stable_point / _scan: for every reachable state, every snapshot S (0 < S <= counter, in particular S = visible) and EVERY later operation sequence with GC watermarks <= S, point reads and scans (all bounds, all next/next_back words, optional overlay) at S are unchanged. Proved on the very step function (applyOp) the driver executes; the hypotheses are shown necessary by counterexamples.",
        "snapshot isolation rests on super-version pinning; S = 0 (no snapshot) excluded; reopen releases snapshots",
        "7 C02"),
}
