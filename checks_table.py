"""Property id -> theorem module + correspondence instruments. Used by ./check and gen_manifest.py."""

def ib(profile, quick, thorough, blob=0, ops=50, extra=None):
    return {"args": ["ib", profile, "--blob", str(blob), "--ops", str(ops)] + (extra or []),
            "cases": {"quick": quick, "thorough": thorough}}

def fsi(cmd, workload, blob, quick_stride, thorough_stride, thorough_extra=None):
    return {"args": ["fsinst.py", cmd, "--workload", workload] + (["--blob"] if blob else []),
            "cases": {"quick": 0, "thorough": 0},
            "tier_args": {"quick": ["--stride", str(quick_stride)], "thorough": ["--stride", str(thorough_stride)] + (thorough_extra or [])},
            "timeout": {"quick": 1500, "thorough": 7200}}

def ia(which, quick, thorough):
    return {"args": ["ia", which], "cases": {"quick": quick, "thorough": thorough}}

COMMON_ASSUME = [
    "usage protocol P1-P6 of DESIGN.md 3.6 (seqnos from the shared counter, snapshots read from the visible counter, watermarks <= live snapshots, MoveDown/PullDown only across empty levels, Leveled only on single-run levels)",
    "hash functions, sfa container, tempfile, quick_cache, crossbeam-skiplist, interval-heap are modelled by their specifications",
]

def entry(title, instruments, rule, technique, level_text, level_note, design_ref, assumptions=None, trusted=None, modules=None):
    d = _entry(title, instruments, rule, technique, level_text, level_note, design_ref, assumptions, trusted)
    if modules:
        d["modules"] = modules
    return d

def _entry(title, instruments, rule, technique, level_text, level_note, design_ref, assumptions=None, trusted=None):
    return {"title": title, "instruments": instruments, "rule": rule, "assumptions": COMMON_ASSUME + (assumptions or []),
            "trusted_base": trusted or [], "design_ref": design_ref, "technique": technique, "level_text": level_text, "level_note": level_note}

TECH = "Lean 4 theorems about a hand-written executable model + differential correspondence (lsmdrv vs. real crate, step-validated histories) + property oracle on the real tree"

PROPS = {
    "C19": {
        "title": "FIFO compaction drops only the oldest tables and leaves the rest readable",
        "instruments": [ib("fifo", 300, 6000, blob=2, ops=60)],
        "rule": "append-only histories with FIFO compactions at limits {1 byte, half, exactly, twice} the measured size and TTL {none, huge}; "
                "every FIFO call: real choice compared with the model's fifoChoose on the same per-table facts, C19 oracle on the real tree; non-trivial = the history contains a FIFO call on >= 2 tables (counted by distinct history digest)",
        "assumptions": COMMON_ASSUME + ["TTL expiry against the wall clock is only exercised with TTL none/huge in the correspondence (the theorem covers every clock value)"],
        "trusted_base": [],
        "design_ref": "7 C19",
        "technique": "Lean 4 theorems about the transcribed FIFO choice function + differential replay against fifo::Strategy on real trees",
        "level_text": "Theorems c19_* close the quantifier over all limits, TTLs, clock values and table lists for the model of Strategy::choose; the model is tied to the code by replaying every FIFO decision of generated histories through both.",
        "level_note": "proof about a hand-written model; correspondence by differential testing; retained-table readability rests on the C01 machinery",
    },
    "C13": entry(
        "A weak delete behaves like a delete for keys written once",
        [ia("cstream", 3000, 100000), ib("weak", 1500, 40000, blob=2, ops=60)],
        "I-A: generated merged multi-version inputs (weak tombstones in 70% of them), real CompactionStream vs model cstream incl. dropped-callback order; "
        "I-B: histories with weak-delete rounds on two keys obeying the single-delete discipline, every placement of tombstone vs value across memtables/levels; "
        "non-trivial = history with >= 1 version-changing compaction and >= 2 flushes (distinct digests)",
        TECH,
        "c13_weak_delete_gc_safe / _last_level: for every watermark and every split of a key's version list into (newer outside, compaction input, older outside) that obeys the discipline, the GC stream preserves the discipline and the value read; c13_legacy_stream_violates records F5.",
        "tree-level lifting (which versions of a key form the compaction input) rests on Admissible, monitored on every observed choice; see C01",
        "7 C13", modules=["C13", "C13h"]),
    "C17": entry(
        "Compaction filters act exactly as their verdicts say and spare old snapshots",
        [ia("cstream", 3000, 100000), ib("filter", 300, 15000, blob=2, ops=60)],
        "I-A: CompactionStream with a seeded verdict function (Keep/Replace/Remove/RemoveWeak/Destroy by hash of key,value) vs model; "
        "I-B: trees with a table-driven compaction filter factory, verdict log compared with the oracle's newest value, snapshots held across compactions; non-trivial as C13",
        TECH,
        "c17_* theorems: per verdict, what new snapshots read; the filter never influences the result through tombstones; other keys untouched; output stays sorted. Old snapshots: C02.",
        "verdict functions are deterministic in (key, value); RemoveWeak/Destroy only claimed for write-once keys, as the property states",
        "7 C17"),
    "C02": entry(
        "A snapshot keeps returning the same answers until it is released",
        [ia("supers", 2000, 50000), ib("snap", 400, 20000, blob=2, ops=60)],
        "I-A: SuperVersions::maintenance / get_version_for_snapshot on generated histories (equal seqnos, S=0, watermarks around entries) vs model + C02 oracle; "
        "I-B: histories with up to three concurrently held snapshots (each taken from the visible counter), every key re-read by point lookup and full scan from both ends at every held snapshot after every later op (writes, flushes, all compactions, filters, ingestion, drop_range, clear) with watermarks <= min live snapshot; model state compared after every op; non-trivial = >= 1 version-changing compaction and >= 2 flushes",
        TECH,
        "c02_snapshot_stable_point / _scan: for every reachable state, every snapshot S (0 < S <= counter, in particular S = visible) and EVERY later operation sequence with GC watermarks <= S, point reads and scans (all bounds, all next/next_back words, optional overlay) at S are unchanged. Proved on the very step function (applyOp) the driver executes; the hypotheses are shown necessary by counterexamples.",
        "snapshot isolation rests on super-version pinning; S = 0 (no snapshot) excluded; reopen releases snapshots",
        "7 C02"),
    "C03": entry(
        "Range and prefix scans are exact, ordered and consistent from both ends",
        [ia("merge", 2000, 100000), ia("mvcc", 2000, 100000), ia("small", 300, 5000), ia("runs", 600, 20000), ib("scan", 400, 20000, blob=2, ops=60), ib("ingest", 300, 10000, blob=2, ops=60), ia("tables", 300, 10000), ia("blockback", 100, 4000)],
        "I-A: Merger and MvccStream under random next/next_back words vs model; prefix_to_range exhaustive over all prefixes of length <= 3 over {00,01,fe,ff} + random, with a membership oracle; Run::range_overlap_indexes for all bound shapes; "
        "I-B: scans with bounds drawn from the key set (incl./excl./unbounded, inverted, empty) and random F/B words at the newest and at held snapshots, over layouts with memtables, several L0 runs, multi-table runs, block size 1..4096; every scan compared with the model AND with the ordered-map oracle; len/is_empty/first/last after every op; non-trivial = >= 1 version-changing compaction and >= 2 flushes",
        TECH,
        "c03_scan_both_ends/_exact/_sorted_unique: for every state, snapshot, bounds, overlay and every word of next/next_back calls the scan equals consuming from both ends the ascending list of newest-visible non-tombstone entries inside the bounds; c03_prefix: prefix range = starts_with for ALL byte strings; merger_both_ends, mvcc_both_ends: the two stream machines equal their specifications for every interleaving.",
        "table-internal iteration (blocks, index) is C12's subject: here a table is its entry list; hypotheses IsSource/DistinctAcross of the scan sources are invariants evaluated on every observed state (inv=)",
        "7 C03", modules=["C03", "C12back"]),
    "C05": entry(
        "A crash at any instant recovers to the state before or after the interrupted op",
        [fsi("proto", "std", False, 1, 1), fsi("proto", "std", True, 1, 1), fsi("crash", "short", False, 2, 1, ["--thorough"]), {"args": ["fsinst.py", "crash", "--workload", "std"], "cases": {"quick": 0, "thorough": 0}, "tier_args": {"quick": ["--stride", "40"], "thorough": ["--stride", "1", "--thorough"]}, "timeout": {"quick": 1500, "thorough": 14400}}, fsi("crash", "short", True, 3, 1, ["--thorough"])],
        "I-C: (1) strace of a 16-operation workload (create, flushes, major, leveled, drop_range, reopen, ingest, clear; standard and key-value-separated): every operation's file-system actions abstracted to the model alphabet must be accepted by the Lean automaton acceptsFrom and be completed when the call returns; "
        "(2) the process is killed before every k-th mutating syscall (quick: stride 3 plus all rename / unlink / directory-fsync boundaries; thorough: every boundary, plus garbled and torn unsynced tails) and up to four adversarial persistence outcomes per point (unsynced data lost, unsynced directory entries lost, both) are opened with the real Config::open and compared with the logical states before / after the interrupted op; non-trivial = distinct (op, phase, outcome, result) classes",
        "Lean 4 theorem on the install-protocol automaton (crash atomicity for every accepted action sequence, every prefix, every POSIX crash outcome) + strace-based conformance of the real syscalls + crash-image enumeration opened by the real recovery code",
        "c05_crash_atomic / c05_history_crash_atomic / c05_completed_only_new: for every action sequence accepted by the install-protocol guard, every prefix and every adversarial crash outcome, recovery finds the old or the new version complete; after completion only the new one. The guard is evaluated on the syscalls the real engine issues.",
        "partial by nature: kernel / file-system semantics are the model's adversarial POSIX; sfa container and tempfile are observed, not modelled; crash DURING recovery's own cleanup covered by c20_cleanup_safe only",
        "7 C05"),
    "C16": entry(
        "A failed flush or compaction changes nothing and can simply be retried",
        [fsi("fault", "std", False, 4, 1), fsi("fault", "short", True, 3, 1), fsi("fault", "gc", True, 4, 1)],
        "I-C(3): every k-th file-system syscall (create/open, write, fsync, rename, unlink, mkdir) issued inside an operation of the workload is failed once with EIO (writes/creates also ENOSPC) by strace fault injection; in the same process the harness then checks: result is Err or Ok, reads unchanged after an Err, no table left hidden, the retried call succeeds, reads equal the ordered-map oracle at every later quiescent point, final flush + reopen equals the oracle; non-trivial = distinct (op, syscall kind, outcome) classes",
        "Lean 4 theorems on the install-protocol automaton with failing actions + syscall fault enumeration against the real engine",
        "c16_failure_atomic / c16_retry_crash_atomic: stopping an accepted install at any action leaves (every crash outcome of) the state recoverable to old or new, before the rename to old only, with the old version's files untouched, and an accepted retry is again atomic.",
        "partial: only errors injectable at the kernel boundary; in-memory unchangedness (history not extended, tables un-hidden) is observed by the harness, not proved",
        "7 C16"),
    "C20": entry(
        "Obsolete files are reclaimed and nothing live is ever deleted",
        [ib("drop", 300, 10000, blob=2, ops=60), ib("snap", 300, 10000, blob=2, ops=60), ib("reopen", 200, 5000, blob=2, ops=50), fsi("proto", "std", False, 1, 1), fsi("crash", "std", True, 5, 1), fsi("fault", "std", False, 6, 1)],
        "I-B: after every op the directory listing (tables/, blobs/, v<N>) is compared with the files named by the live history entries: a named file missing = live file deleted; an unnamed file present = not reclaimed (quiescent moments only; watermarks up to the newest snapshot so old entries get collected; reopen at many positions); "
        "I-C: every unlink the engine issues must be accepted by the automaton (never a file the durable version names); crash images (SIGKILL after the k-th traced syscall, with loss variants) of a key-value-separated tree: after the reopen the directory must hold exactly the tables, blob files and version file the recovered version names; fault injection: after a failed call and an immediate reopen nothing the version names may be missing",
        TECH,
        "c20_live_files_never_unlinked: in an accepted sequence no unlink hits a file the new version names, and none hits a file of the old version before the new one is durable; c20_cleanup_safe: deleting files the recovered version does not name never affects recovery.",
        "liveness (files disappear when the last reference drops) rests on Rust Drop semantics, observed not proved",
        "7 C20"),
    "C01": entry(
        "Point reads return the most recent write, whatever maintenance has happened",
        [ia("cstream", 2000, 100000), ia("runs", 600, 20000), ia("small", 300, 5000), ib("core", 600, 30000, blob=2, ops=60), ib("lvl", 300, 15000, blob=2, ops=70)],
        "I-A: CompactionStream, optimize_runs, Run::get_for_key / range lookups, Memtable insert/get vs model; "
        "I-B: histories over {insert, remove, batch, rotate, flush(wm), Leveled(l0 1-4, target 1-4096 B, wm), major, MoveDown, PullDown, reopen-after-flush} x configs (block size 1..4096, restart interval, hash ratio, partitioned/pinned index+filter, bloom none/bpk/fpr, cache 0..8 MiB, fd table none/1/2/64), standard and key-value-separated; after EVERY op the real tree's full state (history, memtables, every table's contents and metadata) is compared with the Lean model's prediction, every Leveled choice (recorded from the very `choose` call the worker makes, with the hidden set and the file sizes of that moment) is PREDICTED by the model's leveledChooseAt given the level the real scoring picked — same table set, same destination, Move / Merge / DoNothing — and additionally checked against Admissible (`lvl` profile: Leveled-heavy histories with deep levels, 38+ distinct window shapes); every cut is checked against cutsBetweenKeys, and get / contains_key / size_of of every key are compared with an ordered-map oracle; non-trivial = >= 1 version-changing compaction and >= 2 flushes",
        TECH,
        "c01_point_read_refines_map: for EVERY history of the alphabet whose observed decisions are admissible (okStep: Admissible choice, cuts between distinct user keys, fresh ids) and every snapshot at or above the counter, get returns the last write (value, or absent after a delete); corollaries: a deleted key never reappears, an overwritten value never resurfaces; c01_good_invariant: sortedness, run disjointness, metadata and read order hold in every reachable state. C01c: c01_leveled_admissible / c01_leveled_okStep — for EVERY outcome of the floating-point scoring (level pick, need-new-L1), hidden set and file sizes, the transcribed Leveled::choose + pick_minimal_compaction returns DoNothing or a Move / Merge that is Admissible on every well-formed version obeying P6 (necessity of P6 and the hidden-set blind spot of the Lmax trivial move are proved examples); C01b: the same for major, pull-down, move-down.",
        "Leveled's floating-point scoring (f64 scores, f32 level ratios) is not modelled: the two decisions that depend on it enter leveledChooseAt as arbitrary parameters, so the admissibility theorem covers every possible scoring; an exact-rational scoring is compared as a counter only (leveled.auto.*); bloom filter / hash index / block layout are C11/C12's subject (a table is its entry list here); proved for standard trees (blob trees: validated by correspondence, C08)",
        "7 C01", modules=["C01", "C01b", "C01c"]),
    "C06": entry(
        "Background flushes and compactions never change what readers see or lose a write",
        [{"args": ["id"], "cases": {"quick": 400, "thorough": 8000}}, {"args": ["id", "--inflight"], "cases": {"quick": 200, "thorough": 6000}}, {"args": ["id", "--blob", "1"], "cases": {"quick": 100, "thorough": 3000}},
         {"args": ["id", "--deep"], "cases": {"quick": 60, "thorough": 2500}}, {"args": ["id", "--stress"], "cases": {"quick": 8, "thorough": 120}}, {"args": ["id", "--stress", "--blob", "1"], "cases": {"quick": 4, "thorough": 60}}],
        "I-D: thread programs (1 writer 12-42 writes of reader-visible keys and, in phases, of a separate z key range; flusher 3-8 flushes; 1-3 Leveled compactors; 1-2 readers at published snapshots; one thread issuing major_compact / drop_range(z..) preferably while a minor compaction is between its choose and commit steps; one thread that only rotates) run under a cooperative scheduler at feature-gated scheduling points OUTSIDE the engine's lock regions: one thread runs from point to point, so every execution is a seed-reproducible sequence of segments with at most one critical section each; uniform and PCT-style priority schedules; after every segment the committed label (write / rotate / flushCommit / merge / move) is inferred from the state difference and replayed through the Lean model with full state comparison (atomic mode); inflight mode additionally pre-empts the writer between drawing its seqno and inserting (readers follow P2). Oracles: reads at published snapshots = last write below the snapshot; no Err, no panic; hidden set empty at the end; every acknowledged write present; reopen = flushed state. non-trivial = distinct executed label sequences",
        "Lean 4 theorems over all interleavings of thread programs at critical-section granularity + controlled-schedule replay of the real engine with step validation against the model",
        "c06_any_schedule_refines_map, c06_reads_at_published_snapshots_stable, c06_acknowledged_writes_present, c06_schedule_independent, c06_flush_commit_discard_sound, c06_final_reopen: for every interleaving (shuffle preserving program order) of the threads' labels that is an admissible run, reads equal the ordered-map model, published snapshots are stable, acknowledged writes survive, and the result does not depend on the schedule.",
        "atomicity granularity = the engine's critical sections; memory-model-level races inside crossbeam-skiplist / quick_cache and OS scheduling are not exhibited by the model; major_compact / drop_range concurrent with compactors are serialised by an exclusive lock and exercised sequentially (I-B), not in I-D",
        "7 C06"),
    "C10": entry(
        "Corrupted bytes on disk are reported, never served as data",
        [{"args": ["flip"], "cases": {"quick": 4, "thorough": 12}, "tier_args": {"thorough": ["--thorough"]}}, ia("frames", 600, 20000), ia("archive", 30, 1500)],
        "fault enumeration: for small generated trees (standard and key-value-separated, block size 16/64/4096) EVERY byte of every persisted file (tables, blob files, v<N>, current) is flipped (quick: bit 0; thorough: 4 patterns) and every file is truncated at (quick: every 7th; thorough: every) length, then the tree is opened afresh with an empty cache (half of the trees with partitioned, unpinned index and filter blocks; values of odd and even length) and EVERY read path is judged on its own — forward scan, reverse scan, point reads, first / last key, len, scans at an older snapshot: each must return the original answer or an error (a path that reports the corruption does not excuse another one that silently returns different data); the enumeration runs in a worker process under a supervisor, so a probe that kills the process (fatal signal, failed allocation) or hangs (watchdog) is recorded with its input and the next worker resumes after it; [previous wording:] forward scan, reverse scan, point reads of the whole key universe and a scan at an older snapshot are compared with the unmodified answers: must be identical or an error (panics counted separately); I-A frames: 17 mutation kinds on real block frames / 14 on blob frames decoded by the real readers vs the model with real xxh3 values; non-trivial = distinct (file, offset, pattern) positions",
        "Lean 4 theorems on the frame formats with abstract hash functions (collision witness in the statement) + exhaustive byte-flip / truncation enumeration on real files opened by the real code",
        "c10_block_single_byte / c10_blob_single_byte / c10_version_file_covered / c10_truncation_detected / c10_type_confusion_detected: any single-byte change of a block or blob frame or of the version file is rejected, yields the original, or exhibits an explicit hash collision; truncations and block-type confusion are rejected.",
        "partial: xxh3 is a parameter (no collision-freedom axiom; the disjunct is in the statements); sfa TOC/trailer and the table's region map are exercised by the enumeration, not modelled; blob frame fields seqno / lengths are not covered by a checksum (harmless: value bytes are)",
        "7 C10", modules=["C10", "C10file"]),
    "C11": entry(
        "Physical tuning and cache sharing never change logical results",
        [ia("filters", 600, 20000), ia("tables", 300, 10000), ia("ixb", 100, 4000), ib("all", 300, 10000, blob=2, ops=50), {"args": ["ib", "core", "--shared-cache", "--ops", "40"], "cases": {"quick": 40, "thorough": 1500}}],
        "I-A: Bloom filters (bpk / fpr, k 1..34, adversarial hash values incl. wrap-around) and in-block hash indexes built by the real builders vs model (bits, probes, buckets, read plans); tables written with every combination of block size, restart interval, hash ratio, partitioned index / filter, bloom policy, pinning; I-B: histories under randomly drawn physical configurations (block size 1..4096, restart 1/2/16, hash ratio 0/0.75/8, partitioning, pinning, bloom none/bpk/fpr, expect_point_read_hits on/off, compression none / lz4 data blocks / lz4 data + index blocks (and lz4 blobs), cache 0 / 1 KiB / 8 MiB, descriptor table none/1/2/64) all compared with the same configuration-free model and ordered-map oracle; shared-cache groups: the same history on 3 trees with different physical configurations (one of them key-value-separated) that share ONE Cache (0 B .. 8 MiB) and ONE DescriptorTable (none / 1 / 3), alive at the same time with coinciding table ids, each validated against model and oracle",
        TECH,
        "c11_bloom_no_false_negative (every m > 0, k, all 64-bit hashes incl. wrap-around; builder and reader loops proved to probe the same positions), c11_hash_index_sound / _notFound_absent / _found_unique, c11_point_read_absent_sound, c11_cache_key_injective; the logical model has no physical parameters, so agreement of every configuration with it is agreement between configurations.",
        "quick_cache itself and the f32 bucket / bit-count arithmetic are not modelled (taken from the run); cache key injectivity is proved; cache sharing between live trees is additionally exercised by the shared-cache groups",
        "7 C11", modules=["C11", "C12ix"]),
    "C12": entry(
        "A table returns every item written to it through every read path",
        [ia("tables", 600, 30000), ia("filters", 300, 10000), ia("blockback", 150, 6000), ia("ixb", 120, 5000)],
        "I-A: generated sorted multi-version streams (version slabs straddling block boundaries, tombstones, weak tombstones, long shared prefixes, entries larger than a block, single-entry tables) x writer settings (block size 1..4096, restart interval 1/2/16, hash ratio 0/0.75/8, partitioned index / filter, bloom none/bpk/fpr, global seqno 0/7, pinning) written by the real Writer, recovered by Table::recover; full scan, >= 30 point probes (absent keys between present ones, seqnos around every version), >= 8 ranged scans with random bounds and F/B words, metadata, per-block item counts, index end keys, (hash ratio 0) the BYTES of every data block and the 29 items of the META block (model parse of the real items = recovered fields; model items built from the written stream = real items) compared with the model; independent C12 oracle on the real results; non-trivial = tables with >= 2 data blocks",
        TECH,
        "c12_scan, c12_index, c12_point (incl. version slabs spanning blocks; the seek rule is proved right), c12_get (global seqno shift, early exit, any filter without false negatives), c12_range_both_ends (all bounds, all words), c12_meta (streaming bookkeeping = declarative), c12_filter_complete, c12_block_seek (restart-head jump), c12m_meta_roundtrip / c12m_meta_block_roundtrip / c12m_recovered_meta_declarative (the META block: the 29 recorded properties are read back by recovery exactly, at item and byte level, and equal the declarative facts of the stream), c12_block_codec_roundtrip (varint, full / truncated entries, binary index, trailer) — for every stream, block size and restart interval.",
        "C12back (byte-level double-ended decoder: backward = reverse, every F/B word, seek / seek_upper through the binary index, agreement with the item-level seek) and C12ix (index-block codec round trip, partition cut rule, two-level = flat for lower bounds and every F/B word over the partition windows, volatile = full) are theorems tied by ia blockback / ia ixb; the two-level = flat statement for a (lo, hi) PAIR, seek followed by mixed pulls and the backward index-block decoder are validated by correspondence only; c12_range_both_ends assumes seqno < u64::MAX (the real code skips a block ending in (key, u64::MAX) on a lower-bound seek; unreachable with real sequence numbers)",
        "7 C12", modules=["C12", "C12m", "C12back", "C12ix"]),
    "C04": entry(
        "Flushed data survives reopen and reopen restores exactly the flushed state",
        [ib("reopen", 500, 20000, blob=2, ops=50), ib("ingest", 200, 8000, blob=2, ops=50), ia("manifest", 150, 4000)],
        "I-B: histories with reopen (drop + Config::open on the same directory, counters kept) at ~15% of all positions, also repeatedly, after trivial moves, clear, drop_range, ingestion, in key-value-separated trees; after each reopen the full state (levels, run order, table ids, contents incl. sequence numbers, global seqnos, recorded ranges) must equal the model's `reopen` of the state before, get_highest_persisted_seqno must not change, and the history continues with writes / flushes / compactions (fresh table ids must not collide); non-trivial = >= 1 compaction and >= 2 flushes; I-A manifest: the version file of EVERY published version of generated trees (standard and key-value-separated, ingestion, drop_range, MoveDown of multi-run levels, reopen) is split into its sections and each section payload is (a) decoded by the model and compared with the structure the tree reports, (b) re-encoded by the model and compared BYTE FOR BYTE (tables section; blob / gc sections as maps since the writer iterates a HashMap), (c) mutated (truncation, count / id / checksum-type bytes, duplicated records, trailing bytes, stale `current`) and offered to the real recovery: accept / reject must agree with the model's decoder",
        TECH,
        "c04m_image_roundtrip (decodeImage (encodeImage v) = some v for every bounded version image: levels x runs x tables with ids, checksums, global seqnos; blob file list; gc statistics), c04m_*_roundtrip_prefix, c04m_*_order_irrelevant (HashMap iteration order does not matter), c04m_*_map_exact; c04_reopen_exact / c04_reopen_flushed_only / c04_reopen_keeps_structure / c04_continue_after_reopen / c04_reads_across_reopens: reopen keeps the version (tables, order, ids), drops exactly the memtables, leaves every read of flushed data unchanged, and C01 holds across any number of reopens.",
        "the sfa container around the sections and the whole-file checksum in `current` are modelled by their specification (C10 covers `current`); blob file id allocation after reopen: finding F8 (fixed)",
        "7 C04", modules=["C04", "C04m"]),
    "C07": entry(
        "Every published tree version is structurally sound and matches its manifest",
        [ia("runs", 800, 20000), ib("core", 500, 20000, blob=2, ops=60), ib("all", 300, 10000, blob=2, ops=60), ia("manifest", 150, 4000)],
        "I-A: optimize_runs and the Run lookup functions vs model + structural oracle on the real output; I-B: after EVERY op the real version is audited independently of the model (every table iterated: strictly sorted, recorded key range / item_count / tombstone counts / highest seqno = contents; runs ascending and disjoint; for tables in different runs sharing a key the one consulted first holds only newer seqnos; every named file exists) and the model evaluates SORT / META / RUN / ORD on the identical state; reopen decodes the manifest and the state must be identical; I-A manifest: section payloads of every published version file decoded / re-encoded by the model (see C04)",
        TECH,
        "c07m_image_inj (different version images have different bytes), c07m_*_decode_sound (whatever decodes re-encodes to the bytes read), c07m_image_decode_iff, c07m_equiv_of_perm; c07_every_published_version_sound, c07_reachable_structurally_sound, c07_runs_disjoint_ascending, c07_read_order_newer, c07_key_versions_in_one_table, c07_recorded_range_exact, c07_optimize_*, c07_with_*_wf: every version of every history entry of every reachable state satisfies the four clauses.",
        "the sfa container and the checksum in `current` are outside the manifest model (specification-level; C10)",
        "7 C07", modules=["C07", "C04m"]),
    "C08": entry(
        "Key-value separation is invisible to the user",
        [ib("all", 400, 15000, blob=1, ops=60), ib("reloc", 1500, 40000, blob=1, ops=70), ib("snap", 300, 10000, blob=1, ops=60), ib("filter", 200, 8000, blob=1, ops=60), ib("ingest", 300, 10000, blob=1, ops=60), ia("bigblob", 6, 48)],
        "I-B on key-value-separated trees (threshold 0/1/8/12/1000, blob file target 1 B .. 4 KiB, blob compression none / lz4, staleness 0.3, age cutoff 1.0): the same configuration-free model and ordered-map oracle as for standard trees; every stored pointer of every table of the current version AND of every version a held snapshot resolves to is decoded and resolved against that version's blob files and must yield the bytes written for that key and version; `reloc` profile: few keys, several live versions, ingestions (blobs stored with the local seqno 0) over flushed keys, blob files made partly stale by drop_range, relocating major compactions; non-trivial = >= 1 compaction and >= 2 flushes",
        TECH,
        "c08_separation_invisible: for every op list (entries value / tombstone, no compaction filter) the run of a key-value-separated tree equals the run of a standard tree up to erasing the indirection tag — same accepted decisions, same point reads, same scans (c08_point_reads, c08_scans); c08_gc_stream_commutes. C08r (relocation matching = drain_blobs + one scanner per rewritten blob file): c08r_fixed_matches_all — for ANY stored seqnos and any interleaving of pointers to different files, every pointer finds exactly its blob provided each file's pointers follow that file's order; c08r_fixed_never_wrong_blob — a success never copies another blob; c08r_legacy_counterexample — the merged scanner of the code before fix 4fe854b fails on finding F9's instance; c08r_legacy_ok_when_orders_agree.",
        "with weak tombstones or compaction filters the simulation is validated by correspondence only (a weak tombstone does not annihilate with an indirection: space, not reads); pointer arithmetic (offsets, blob file bytes) is checked by resolution on the real files, not modelled; the relocation matching model (C08r) is tied to the code at tree level only (every pointer resolved after every real relocation; the F9 histories in corpus/C08), there is no function-level differential for drain_blobs",
        "7 C08", modules=["C08", "C08r", "C08w"]),
    "C09": entry(
        "Blob garbage statistics are exact and only unreferenced blob files are dropped",
        [ib("all", 400, 15000, blob=1, ops=60), ib("reloc", 1500, 40000, blob=1, ops=70), ib("drop", 300, 10000, blob=1, ops=60), ib("filter", 200, 8000, blob=1, ops=60), ia("bigblob", 6, 48)],
        "I-B on key-value-separated trees: after every op the garbage of every blob file of the current version is recomputed independently (scan of the blob file, minus the (file, offset) pairs any table points to) and compared with gc_stats (len, bytes, on_disk_bytes), stale_blob_bytes, blob_file_count; entries kept for departed files must equal that file's totals; reopen in the mix (statistics survive); non-trivial as C08",
        TECH,
        "c09_on_dropped_exact, c09_with_dropped_exact (incl. on-disk bytes; c09_with_dropped_legacy_partial records F2), c09_prune_exact, c09_stale_bytes_exact, c09_dead_iff_unreferenced, c09_relocation_exact, c09_with_merge_exact on the model of FragmentationMap / is_dead / prune_dead.",
        "c09_dead_unreferenced needs every blob to have size > 0 (a zero-size blob is invisible to the byte-based is_dead; counterexample proved, not reachable in the campaigns); the accounting model is tied to the code through the recomputation audit, not through a step-validated blob state",
        "7 C09"),
    "C14": entry(
        "Bulk ingestion becomes visible atomically and overrides older data",
        [ib("ingest", 500, 20000, blob=2, ops=60), ib("reloc", 600, 20000, blob=1, ops=70)],
        "I-B: histories with ingestions of sorted batches (values and tombstones, overlapping existing runs, into empty and deep trees, with non-empty memtables, standard and key-value-separated), snapshots held across them, flush / compaction / reopen afterwards; state compared with the model after every op (global seqno of ingested tables, version seqno, internal flush), reads at held and new snapshots vs oracle",
        TECH,
        "c14_reads_after_ingest, c14_atomic, c14_invisible_to_earlier_snapshots, c14_later_write_wins, c14_memtable_data_stays.",
        "a writer racing Ingestion::finish is outside the quantifier",
        "7 C14"),
    "C15": entry(
        "drop_range and clear affect only what they name, and only for later snapshots",
        [ib("drop", 500, 20000, blob=2, ops=60)],
        "I-B: drop_range with bounds drawn relative to the key set (inclusive / exclusive / unbounded each side, inverted, empty) and clear, with snapshots held before; the model PREDICTS the dropped table set (dropRangeChoose) and the state after; keys outside R and all keys at earlier snapshots vs oracle (inside R the oracle is re-synchronised from the tree)",
        TECH,
        "c15_drop_range_outside_untouched, c15_drop_range_old_snapshots, c15_drop_range_inverted_noop, c15_clear_empties, c15_clear_old_snapshots, c15_clear_then_write, c15_run.",
        "scans at the newest snapshot for keys outside R are covered by correspondence (point reads by theorem)",
        "7 C15"),
    "C18": entry(
        "Reported sequence-number high-water marks equal what is actually stored",
        [ib("all", 400, 15000, blob=2, ops=60), ib("ingest", 200, 8000, blob=2, ops=50), ib("reopen", 200, 8000, blob=2, ops=50), ia("hwm", 400, 20000)],
        "I-A hwm: memtables filled with entries in ARBITRARY seqno order (concurrent writers insert out of counter order) with rotations in between, marks of the real tree vs the model's marks on the same contents and vs the maxima of what was inserted; I-B: after every op get_highest_persisted_seqno / get_highest_memtable_seqno / get_highest_seqno are compared with maxima recomputed by iterating every table and memtable (incl. ingested tables with shifted sequence numbers, after GC, drop_range, clear) and must not change across reopen; per table get_highest_seqno vs stored maximum",
        TECH,
        "c18_persisted_is_max, c18_per_table, c18_table_meta_max, c18_reopen_same, c18_below_counter_reach, c18_flush_monotone, c18_merge_not_above (+ the proved counterexample that a last-level merge may lower the mark by evicting the tombstone that carried it).",
        "",
        "7 C18"),
}
