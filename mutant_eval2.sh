#!/bin/bash
# usage: mutant_eval2.sh <patch> <command...>
# Evaluates a seeded defect WITHOUT touching /repo: the patch is applied to the scratch worktree /tmp/repo_mut$S, a copy of the harness
# (/tmp/hm$S, path dependency on /tmp/repo_mut$S) is rebuilt, and <command> runs with LSMVERIF_BIN pointing at that build ($L in the command).
set -u
S=${MUT_SLOT:-}
patch=$(readlink -f "$1"); shift
[ -d /tmp/repo_mut$S ] || git -C /repo worktree add --detach /tmp/repo_mut$S HEAD >/dev/null 2>&1
git -C /tmp/repo_mut$S checkout -q --detach "$(git -C /repo rev-parse HEAD)" 2>/dev/null
git -C /tmp/repo_mut$S reset -q --hard
mkdir -p /tmp/hm$S && rsync -a --exclude target /verif/harness/ /tmp/hm$S/ && sed -i "s|path = \"/repo\"|path = \"/tmp/repo_mut$S\"|" /tmp/hm$S/Cargo.toml
git -C /tmp/repo_mut$S apply "$patch" || { echo "PATCH DOES NOT APPLY"; exit 2; }
(cd /tmp/hm$S && CARGO_NET_OFFLINE=true cargo build --release --offline 2>&1 | grep -E "^error" -A8 | head -20)
export L=/tmp/hm$S/target/release/lsmverif LSMVERIF_BIN=/tmp/hm$S/target/release/lsmverif LSMDRV=/verif/lean/.lake/build/bin/lsmdrv
cd /verif && "$@"
rc=$?
git -C /tmp/repo_mut$S reset -q --hard
exit $rc
