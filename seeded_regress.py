#!/usr/bin/env python3
"""Re-runs every archived seeded defect (seeded/<id>/patch.diff) against the QUICK instruments of its property, without touching /repo:
the patch is applied to the scratch worktree /tmp/repo_mut and a copy of the harness (/tmp/hm) is built against it.
Writes seeded/SCOREBOARD.md. usage: seeded_regress.py [id-prefix ...]"""
import json, os, subprocess, sys, time
sys.path.insert(0, "/verif")
from checks_table import PROPS
SLOT = os.environ.get("MUT_SLOT", "")
REPO_MUT = "/tmp/repo_mut" + SLOT
HM = "/tmp/hm" + SLOT
BIN = HM + "/target/release/lsmverif"
ENV = dict(os.environ, LSMVERIF_BIN=BIN, LSMDRV="/verif/lean/.lake/build/bin/lsmdrv", CARGO_NET_OFFLINE="true")

def sh(cmd, timeout=3600, cwd=None):
    try:
        p = subprocess.run(cmd, stdout=subprocess.PIPE, stderr=subprocess.STDOUT, timeout=timeout, cwd=cwd, env=ENV, text=True, errors="replace")
        return p.returncode, p.stdout
    except subprocess.TimeoutExpired as e:
        return -9, (e.stdout or "") if isinstance(e.stdout, str) else ""

def prepare(patch):
    head = subprocess.check_output(["git", "-C", "/repo", "rev-parse", "HEAD"], text=True).strip()
    if not os.path.isdir(REPO_MUT):
        sh(["git", "-C", "/repo", "worktree", "add", "--detach", REPO_MUT, "HEAD"])
    sh(["git", "-C", REPO_MUT, "reset", "-q", "--hard"]); sh(["git", "-C", REPO_MUT, "checkout", "-q", "--detach", head]); sh(["git", "-C", REPO_MUT, "reset", "-q", "--hard", head])
    sh(["bash", "-c", "mkdir -p %s && rsync -a --exclude target /verif/harness/ %s/ && sed -i 's|path = \"/repo\"|path = \"%s\"|' %s/Cargo.toml" % (HM, HM, REPO_MUT, HM)])
    if patch:
        rc, out = sh(["git", "-C", REPO_MUT, "apply", patch])
        if rc != 0:
            return "patch does not apply: " + out[-200:]
    rc, out = sh(["cargo", "build", "--release", "--offline"], cwd=HM)
    if rc != 0:
        return "harness does not build: " + out[-300:]
    return None

def run_inst(inst):
    args = inst["args"] + ["--cases", str(inst["cases"]["quick"])] + inst.get("tier_args", {}).get("quick", [])
    cmd = ([sys.executable, os.path.join("/verif", args[0])] + args[1:]) if args[0].endswith(".py") else [BIN] + args
    rc, out = sh(cmd + ["--seed", "1"], timeout=inst.get("timeout", {"quick": 900})["quick"], cwd="/verif")
    line = next((l for l in out.splitlines()[::-1] if l.startswith("RESULT ")), None)
    if line is None:
        return "crash/no RESULT (rc=%s)" % rc
    r = json.loads(line[7:])
    if r["oracle_failures"]:
        return "failing input: " + r["oracle_failures"][0][:160]
    if r["disagreements"]:
        return "correspondence broken: " + r["disagreements"][0][:160]
    return None

def corpus(pid):
    d = os.path.join("/verif/corpus", pid)
    for f in sorted(os.listdir(d)) if os.path.isdir(d) else []:
        args = ["ia", "manifest-replay", os.path.join(d, f)] if f.endswith(".oplog") else ["ib", "all", "--replay", os.path.join(d, f)]
        yield {"args": args, "cases": {"quick": 1}}

def merge():
    rows = []
    for f in sorted(os.listdir("/verif/work")):
        if f.startswith("regress_shard_") and f.endswith(".jsonl"):
            rows += [json.loads(l) for l in open("/verif/work/" + f)]
    rows = list({r[0]: r for r in rows}.values())
    rows.sort(key=lambda r: r[0])
    with open("/verif/seeded/SCOREBOARD.md", "w") as f:
        f.write("# Seeded defects vs the quick tier of their property's check\n\nProduced by `seeded_regress.py` (patch applied to a scratch worktree, harness rebuilt against it, the property's quick instruments run with seed 1 in the order of checks_table.py, first detecting instrument shown).\n\n| id | verdict | first detecting instrument: evidence |\n|---|---|---|\n")
        for sid, v, by, _ in rows:
            f.write("| %s | %s | %s |\n" % (sid, v, by.replace("|", "\\|").replace("\n", " ")[:300]))
        f.write("\n%d of %d detected, %d neutralised by a later fix.\n" % (sum(1 for r in rows if r[1] == "detected"), len(rows), sum(1 for r in rows if r[1] == "neutralised")))
    print("%d of %d detected" % (sum(1 for r in rows if r[1] == "detected"), len(rows)))

def main():
    if sys.argv[1:2] == ["--merge"]:
        return merge()
    shard = None
    if sys.argv[1:2] == ["--shard"]:
        shard = (int(sys.argv[2]), int(sys.argv[3])); del sys.argv[1:4]
    sel = sys.argv[1:]
    if sel == ["--missing"]:
        # everything archived that no shard file has a row for yet, plus earlier MISSED rows (instruments may have changed)
        done = {}
        for f in sorted(os.listdir("/verif/work")):
            if f.startswith("regress_shard_") and f.endswith(".jsonl"):
                for l in open("/verif/work/" + f):
                    r = json.loads(l); done[r[0]] = r[1]
        sel = [d + "$" for d in sorted(os.listdir("/verif/seeded")) if os.path.isfile("/verif/seeded/%s/patch.diff" % d) and done.get(d) not in ("detected", "neutralised")]
        shard = (0, 1)
        os.environ["REGRESS_OUT"] = "/verif/work/regress_shard_9.jsonl"
    ids = sorted(d for d in os.listdir("/verif/seeded") if os.path.isfile("/verif/seeded/%s/patch.diff" % d) and (not sel or any((d == s[:-1]) if s.endswith("$") else d.startswith(s) for s in sel)))
    rows = []
    if shard:
        ids = [x for i, x in enumerate(ids) if i % shard[1] == shard[0]]
        os.makedirs("/verif/work", exist_ok=True)
        outf = open(os.environ.get("REGRESS_OUT", "/verif/work/regress_shard_%d.jsonl" % shard[0]), "a" if os.environ.get("REGRESS_OUT") else "w")
    for sid in ids:
        pid = sid.split("-")[0]
        t0 = time.time()
        meta = json.load(open("/verif/seeded/%s/meta.json" % sid)) if os.path.isfile("/verif/seeded/%s/meta.json" % sid) else {}
        if meta.get("neutralised_by"):
            rows.append((sid, "neutralised", meta["neutralised_by"][:200], 0.0))
            print("%s neutralised" % sid, flush=True)
            if shard:
                outf.write(json.dumps(rows[-1]) + "\n"); outf.flush()
            continue
        err = prepare("/verif/seeded/%s/patch.diff" % sid)
        verdict, by = "MISSED", ""
        if err:
            verdict, by = "n/a", err
        else:
            for inst in PROPS[pid]["instruments"]:
                r = run_inst(inst)
                if r:
                    verdict, by = "detected", " ".join(inst["args"]) + ": " + r
                    break
        rows.append((sid, verdict, by, time.time() - t0))
        print("%s %s %s (%.0fs)" % (sid, verdict, by[:200], time.time() - t0), flush=True)
        if shard:
            outf.write(json.dumps(rows[-1]) + "\n"); outf.flush()
    sh(["git", "-C", REPO_MUT, "reset", "-q", "--hard"])
    if not sel and not shard:
        with open("/verif/seeded/SCOREBOARD.md", "w") as f:
            f.write("# Seeded defects vs the quick tier of their property's check\n\nProduced by `seeded_regress.py` (patch applied to a scratch worktree, harness rebuilt against it, the property's quick instruments run with seed 1, first detecting instrument shown).\n\n| id | verdict | first detecting instrument: evidence |\n|---|---|---|\n")
            for sid, v, by, _ in rows:
                f.write("| %s | %s | %s |\n" % (sid, v, by.replace("|", "\\|").replace("\n", " ")[:300]))
            f.write("\n%d of %d detected.\n" % (sum(1 for r in rows if r[1] == "detected"), len(rows)))
main()
