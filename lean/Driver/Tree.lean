import Driver.Codec
/-
  Driver.Tree — the stateful part of the line protocol: the model tree driven in lock step with the real one
  (instrument I-B). The canonical state text must be produced identically by harness/src/ib.rs.
-/
namespace Drv
open Lsm

abbrev TS := TreeState BK

def showSv (sv : SuperVersion BK) : String :=
  toString sv.seqno ++ ":" ++ toString sv.version.id ++ ":" ++ toString sv.active ++ ":" ++
  ".".intercalate (sv.sealed.map toString) ++ ":" ++
  "/".intercalate (sv.version.levels.map (fun lvl => "|".intercalate (lvl.map (fun r => ".".intercalate (r.map (fun t => toString t.id))))))

def showTable (t : TableM BK) : String :=
  toString t.id ++ "g" ++ toString t.gseq ++ "[" ++ hexOfBytes t.lo ++ ".." ++ hexOfBytes t.hi ++ "]{" ++ showEntries t.entries ++ "}"

/-- canonical state: counters, the whole history structurally, and the contents the newest entry references -/
def showState (t : TS) : String :=
  let hist := ";".intercalate (t.hist.map showSv)
  match t.latest? with
  | none => "ctr=" ++ toString t.seqCtr ++ " vis=" ++ toString t.visible ++ " hist=" ++ hist ++ " EMPTY"
  | some sv =>
    let mems := "+".intercalate ((sv.sealed ++ [sv.active]).map (fun id => toString id ++ "{" ++ showEntries (t.mem id) ++ "}"))
    let tabs := "+".intercalate (sv.version.tables.map showTable)
    "ctr=" ++ toString t.seqCtr ++ " vis=" ++ toString t.visible ++ " hist=" ++ hist ++ " mems=" ++ mems ++ " tables=" ++ tabs

def fnv64 (s : String) : UInt64 :=
  s.toUTF8.foldl (fun (h : UInt64) (b : UInt8) => (h ^^^ b.toUInt64) * 0x100000001b3) 0xcbf29ce484222325

def digest (t : TS) : String := toString (fnv64 (showState t)).toNat

def parseCuts (s : String) : Option (List (Nat × Nat)) :=
  (splitList "," s).mapM (fun p => match (p.splitOn ":").mapM (·.toNat?) with
    | some [i, n] => some (i, n)
    | _ => none)

def natArg (a : List (String × String)) (k : String) : Option Nat := (arg a k).bind (·.toNat?)

def stateReply (t : TS) : String :=
  "digest=" ++ digest t ++ " inv=" ++ (match t.inv with | none => "ok" | some c => "FAIL:" ++ c)

/-- state builder for the high-water-mark differential (`ia hwm`): insert entries with ARBITRARY sequence numbers
    into the active memtable (concurrent writers may insert out of counter order; `TreeState.write` models the
    in-order protocol P1 only). The `c18_*_is_max` theorems hold for every `TreeState`, so also for these. -/
def rawWrite (t : TS) (es : List E) : Option TS :=
  match t.latest? with
  | none => none
  | some sv =>
    let top := es.foldl (fun acc e => max acc (e.seqno + 1)) t.seqCtr
    some { t with
      mems := t.mems.map (fun m => if m.id == sv.active then { m with entries := es.foldl (fun acc e => memInsert e acc) m.entries } else m),
      seqCtr := top, visible := max t.visible top }

/-- apply a state-changing request; `none` = the model rejects it (precondition / protocol violated) -/
def stepTree (t : TS) (cmd : String) (a : List (String × String)) : Option TS := do
  if cmd == "rawwrite" then
    return ← ((arg a "es").bind parseEntries).bind (rawWrite t)
  if cmd == "bumpctr" then
    -- state builder: `n` sequence numbers were drawn from the shared counter and are not (yet) published:
    -- the allocating counter runs ahead of the visible one (writers in flight)
    return ← (natArg a "n").map (fun n => { t with seqCtr := t.seqCtr + n })
  let op : Op BK ← (match cmd with
    | "write" => (arg a "es").bind parseEntries |>.map Op.write
    | "rotate" => (natArg a "mem").map Op.rotate
    | "flush" => do
      let mem ← natArg a "mem"
      let wm ← natArg a "wm"
      let cuts ← (arg a "cuts").bind parseCuts
      pure (Op.flush wm mem cuts)
    | "flushcommit" => do
      let ids ← (arg a "ids").bind parseNats
      let wm ← natArg a "wm"
      let cuts ← (arg a "cuts").bind parseCuts
      pure (Op.flushCommit ids wm cuts)
    | "merge" => do
      let ids ← (arg a "ids").bind parseNats
      let dest ← natArg a "dest"
      let wm ← natArg a "wm"
      let fs ← arg a "filter"
      let f ← (if fs == "none" then some noFilter else do
        let seed ← fs.toNat?
        let once ← (splitList "," ((arg a "once").getD "")).mapM bytesOfHex
        pure (fun e => match seededTreeFilter (UInt64.ofNat seed) once e with
          | .replace .value v => .replace (separate t.blobTh ({ e with vt := .value, val := v } : E)).vt v
          | r => r))
      let cuts ← (arg a "cuts").bind parseCuts
      pure (Op.merge ids dest wm f cuts)
    | "move" => do
      let ids ← (arg a "ids").bind parseNats
      let dest ← natArg a "dest"
      let wm ← natArg a "wm"
      pure (Op.move ids dest wm)
    | "drop" => do
      let ids ← (arg a "ids").bind parseNats
      let wm ← natArg a "wm"
      pure (Op.drop ids wm)
    | "clear" => (natArg a "mem").map Op.clear
    | "ingest" => do
      let mem ← natArg a "mem"
      let fcuts ← (arg a "fcuts").bind parseCuts
      let items ← (arg a "items").bind parseEntries
      let cuts ← (arg a "cuts").bind parseCuts
      pure (Op.ingest mem fcuts items cuts)
    | "reopen" => some Op.reopen
    | _ => none)
  t.applyOp op

def showKv (o : Option E) : String :=
  match o with
  | some e => hexOfBytes e.key ++ "=" ++ vtChar e.vt ++ hexOfBytes e.val
  | none => "-"

def queryTree (t : TS) (cmd : String) (a : List (String × String)) : String :=
  match cmd with
  | "get" =>
    match (arg a "key").bind bytesOfHex, natArg a "S" with
    | some k, some S => match t.getAt k S with
      | none => "panic"
      | some r => "val=" ++ showKv r
    | _, _ => "bad-request get"
  | "scan" =>
    match natArg a "S", (arg a "lo").bind parseBound, (arg a "hi").bind parseBound, (arg a "word").bind parseWord with
    | some S, some lo, some hi, some w =>
      let overlay := match (arg a "overlay").bind parseEntries, natArg a "os" with
        | some l, some s => some (l, s)
        | _, _ => none
      match t.scanAt S lo hi w overlay with
      | none => "panic"
      | some items => "items=" ++ "|".intercalate (items.map showKv)
    | _, _, _, _ => "bad-request scan"
  | "weaksafe" => if stateWeakSafeB t then "ok" else "FAIL"
  | "admissible" =>
    match (arg a "ids").bind parseNats, natArg a "dest", t.latest? with
    | some ids, some dest, some sv =>
      if admissible sv.version ids dest (dest + 1 == t.levelCount && (arg a "kind") == some "merge") then "ok" else "FAIL"
    | _, _, _ => "bad-request admissible"
  | "choose" =>
    match t.latest?, arg a "strat", (arg a "hidden").bind parseNats with
    | some sv, some strat, some hid =>
      match strat with
      | "major" => showChoice (majorChoose sv.version hid (t.levelCount - 1))
      | "movedown" => match natArg a "src", natArg a "dst" with
        | some s, some d => showChoice (moveDownChoose sv.version hid s d)
        | _, _ => "bad-request choose"
      | "pulldown" => match natArg a "src", natArg a "dst" with
        | some s, some d => showChoice (pullDownChoose sv.version s d)
        | _, _ => "bad-request choose"
      | "droprange" => match (arg a "lo").bind parseBound, (arg a "hi").bind parseBound with
        | some lo, some hi => if boundsInverted lo hi then "empty" else showChoice (dropRangeChoose lo hi sv.version hid)
        | _, _ => "bad-request choose"
      | "leveled" =>
        -- Leveled (Tree/Leveled.lean): the float-dependent decisions are request arguments;
        -- `scored=auto` uses the exact-rational scoring for the default ratio policy and reports the pick
        match natArg a "l0", natArg a "target", (arg a "sizes").bind parseCuts, arg a "scored" with
        | some l0, some target, some sizes, some sc =>
          let p : LeveledParams BK := { l0Threshold := l0, targetSize := target, emptyKey := [] }
          let size : Nat → Nat := fun id => ((sizes.find? (fun x => x.1 == id)).map (·.2)).getD 0
          if sc == "auto" then
            let pick := scoreLevels p sv.version hid size
            showChoice (leveledChooseAt p sv.version hid size pick) ++ " pick=" ++
              (if pick.needNewL1 then "1" else "0") ++ "," ++
              (match pick.scored with | some i => toString i | none => "-")
          else
            let scored? : Option (Option Nat) := if sc == "-" then some none else sc.toNat?.map some
            match scored?, natArg a "neednew" with
            | some scored, some nn =>
              showChoice (leveledChooseAt p sv.version hid size { needNewL1 := nn != 0, scored := scored })
            | _, _ => "bad-request choose"
        | _, _, _, _ => "bad-request choose"
      | _ => "bad-request choose"
    | _, _, _ => "bad-request choose"
  | "hwm" =>
    -- high-water marks (C18): persisted / memtable
    match t.latest? with
    | some sv =>
      let showO := fun (o : Option Nat) => match o with | some n => toString n | none => "-"
      let p := maxSeqno (sv.version.tables.flatMap (·.entries))
      let m := maxSeqno ((sv.active :: sv.sealed).flatMap t.mem)
      "persisted=" ++ showO p ++ " memtable=" ++ showO m
    | none => "panic"
  | "digest" => stateReply t
  | "dump" => showState t
  | _ => "bad-request unknown-tree-command " ++ cmd

end Drv
