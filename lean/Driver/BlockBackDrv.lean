import Driver.Codec
import LsmModel.Table.CodecBack
/-
  Driver.BlockBackDrv — requests for the byte-level double-ended data-block decoder (LsmModel.Table.CodecBack).

    decback bytes=<hex>                                   ->  items=<entries>            | panic
    blockwalk bytes=<hex> pre=<none|seek|seekupper|seekx|seekupperx> key=<hex> word=<F|B...>
                                                          ->  r=<-|0|1> items=<optent>|<optent>|...   | panic
    blockget bytes=<hex> key=<hex> seq=<n>                ->  item=<optent>              | panic
    blockseekcheck bytes=<hex> key=<hex>                  ->  agree | differ ...         | panic
-/
namespace Drv
open Lsm

def fnDecBack (a : List (String × String)) : String :=
  match (arg a "bytes").bind bytesOfHex with
  | some bytes => match CodecBack.decodeBlockBack bytes with
    | some items => "items=" ++ showEntries items
    | none => "panic"
  | none => "bad-request decback"

def fnBlockWalk (a : List (String × String)) : String :=
  match (arg a "bytes").bind bytesOfHex, arg a "pre", (arg a "key").bind bytesOfHex, (arg a "word").bind parseWord with
  | some bytes, some pre, some key, some w =>
    match CodecBack.Iter.new bytes with
    | none => "panic"
    | some it =>
      let pos : Option (Option (CodecBack.Iter × String)) :=
        match pre with
        | "none" => some (some (it, "-"))
        | "seek" => some ((it.seek key false).map (fun (i, b) => (i, if b then "1" else "0")))
        | "seekx" => some ((it.seek key true).map (fun (i, b) => (i, if b then "1" else "0")))
        | "seekupper" => some ((it.seekUpper key false).map (fun (i, b) => (i, if b then "1" else "0")))
        | "seekupperx" => some ((it.seekUpper key true).map (fun (i, b) => (i, if b then "1" else "0")))
        | _ => none
      match pos with
      | none => "bad-request blockwalk-pre"
      | some none => "panic"
      | some (some (it, r)) =>
        match it.run w with
        | none => "panic"
        | some l => "r=" ++ r ++ " items=" ++ "|".intercalate (l.map showOptEntry)
  | _, _, _, _ => "bad-request blockwalk"

def fnBlockGet (a : List (String × String)) : String :=
  match (arg a "bytes").bind bytesOfHex, (arg a "key").bind bytesOfHex, (arg a "seq").bind (·.toNat?) with
  | some bytes, some key, some seq =>
    match CodecBack.pointRead bytes key seq with
    | none => "panic"
    | some r => "item=" ++ showOptEntry r
  | _, _, _ => "bad-request blockget"

/-- byte-level seek / seek_upper against the ITEM-level block model of LsmModel.Table.Blocks
    (`blockSeekRi`, `seekUpperBound`), on the same bytes:  blockseekcheck bytes=<hex> key=<hex>  ->  agree | differ ... -/
def fnBlockSeekCheck (a : List (String × String)) : String :=
  match (arg a "bytes").bind bytesOfHex, (arg a "key").bind bytesOfHex with
  | some bytes, some key =>
    match Codec.decodeBlock bytes, CodecBack.Iter.new bytes with
    | some items, some it =>
      let itemFwd := Blocks.blockSeekRi it.dec.ri key items
      let itemBwd := (Blocks.seekUpperBound (.incl key) items).reverse
      let byteFwd := (it.seek key false).bind (fun (i, _) => CodecBack.Iter.drainFwd (bytes.length + 1) i)
      let byteBwd := (it.seekUpper key false).bind (fun (i, _) => CodecBack.Iter.drainBack (bytes.length + 1) i)
      let okRet := (it.seek key false).map (·.2) == some ((itemFwd.head?.map (fun e => e.key == key)).getD false)
      if byteFwd == some itemFwd && byteBwd == some itemBwd && okRet then "agree"
      else "differ fwd-bytes=" ++ (byteFwd.map showEntries).getD "panic" ++ " fwd-items=" ++ showEntries itemFwd ++
        " bwd-bytes=" ++ (byteBwd.map showEntries).getD "panic" ++ " bwd-items=" ++ showEntries itemBwd
    | _, _ => "panic"
  | _, _ => "bad-request blockseekcheck"

/-- dispatch of the requests of this file; `none` = not one of ours -/
def handleBlockBackCmd (cmd : String) (a : List (String × String)) : Option String :=
  match cmd with
  | "decback" => some (fnDecBack a)
  | "blockwalk" => some (fnBlockWalk a)
  | "blockget" => some (fnBlockGet a)
  | "blockseekcheck" => some (fnBlockSeekCheck a)
  | _ => none

end Drv
