import Driver.Tree
import Driver.FsDrv
import Driver.TableDrv
import Driver.ManifestDrv
import Driver.BlockBackDrv
import Driver.IndexDrv
import Driver.ArchiveDrv
/-
  Driver.Main — `lsmdrv`: one request per line on stdin, one canonical answer per line on stdout.
  The answers are computed by the very definitions the theorems in `LsmModel/Props` are about.
-/
namespace Drv
open Lsm

def bad (why : String) : String := "bad-request " ++ why

def fnCstream (legacy : Bool) (a : List (String × String)) : String :=
  match (arg a "wm").bind (·.toNat?), arg a "evict", (arg a "filter").bind parseFilter, (arg a "in").bind parseEntries with
  | some wm, some ev, some f, some l =>
    let r := if legacy then cstreamLegacy wm (ev == "1") f l else cstream wm (ev == "1") f l
    "out=" ++ showEntries r.1 ++ " dropped=" ++ showEntries r.2
  | _, _, _, _ => bad "cstream"

def fnMvcc (a : List (String × String)) : String :=
  match (arg a "in").bind parseEntries, (arg a "word").bind parseWord with
  | some l, some w => "items=" ++ "|".intercalate ((mvccRun l w).map showOptEntry)
  | _, _ => bad "mvcc"

def fnMerge (a : List (String × String)) : String :=
  match (arg a "srcs").bind (fun s => (splitList "|" s).mapM parseEntries), (arg a "word").bind parseWord with
  | some srcs, some w => "items=" ++ "|".intercalate (((Merger.new srcs).run w).map showOptEntry)
  | _, _ => bad "merge"

def fnOptimize (a : List (String × String)) : String :=
  match (arg a "runs").bind parseRangeRuns with
  | some rs => "runs=" ++ "|".intercalate ((optimizeRuns rs).map showRunIds)
  | none => bad "optimize"

def fnGetForKey (a : List (String × String)) : String :=
  match (arg a "run").bind parseRangeRun, (arg a "key").bind bytesOfHex with
  | some r, some k => match getForKey r k with
    | some t => toString t.id
    | none => "-"
  | _, _ => bad "getforkey"

def fnOverlap (a : List (String × String)) : String :=
  match (arg a "run").bind parseRangeRun, (arg a "lo").bind parseBound, (arg a "hi").bind parseBound with
  | some r, some lo, some hi => match rangeOverlapIndexes r lo hi with
    | some (x, y) => toString x ++ "," ++ toString y
    | none => "-"
  | _, _, _ => bad "overlap"

def fnContained (overlapping : Bool) (a : List (String × String)) : String :=
  match (arg a "run").bind parseRangeRun, (arg a "lo").bind bytesOfHex, (arg a "hi").bind bytesOfHex with
  | some r, some lo, some hi =>
    "ids=" ++ showRunIds (if overlapping then getOverlapping r lo hi else getContained r lo hi)
  | _, _, _ => bad "contained"

def parseHist (s : String) : Option (History BK) :=
  (splitList "," s).mapM (fun p =>
    match p.splitOn ":" with
    | [sq, vid] => do
      let sq ← sq.toNat?
      let vid ← vid.toNat?
      pure ({ active := 0, sealed := [], version := Version.empty vid, seqno := sq } : SuperVersion BK)
    | _ => none)

def showHist (h : History BK) : String :=
  ",".intercalate (h.map (fun sv => toString sv.seqno ++ ":" ++ toString sv.version.id))

def fnMaint (a : List (String × String)) : String :=
  match (arg a "hist").bind parseHist, (arg a "wm").bind (·.toNat?) with
  | some h, some wm =>
    let r := maintenance h wm
    "hist=" ++ showHist r.1 ++ " unlinked=" ++ showIds r.2
  | _, _ => bad "maint"

def fnResolve (a : List (String × String)) : String :=
  match (arg a "hist").bind parseHist, (arg a "S").bind (·.toNat?) with
  | some h, some S => match getVersionForSnapshot h S with
    | some sv => toString sv.seqno ++ ":" ++ toString sv.version.id
    | none => "panic"
  | _, _ => bad "resolve"

def parseFifoTable (s : String) : Option FifoTable :=
  match (s.splitOn ":").mapM (·.toNat?) with
  | some [i, c, sz, b] => some { id := i, createdAt := c, fileSize := sz, blobBytes := b }
  | _ => none

def fnFifo (a : List (String × String)) : String :=
  match (arg a "limit").bind (·.toNat?), arg a "ttl", (arg a "now").bind (·.toNat?), (arg a "dbsize").bind (·.toNat?),
        (arg a "tables").bind (fun s => (splitList "," s).mapM parseFifoTable) with
  | some limit, some ttl, some now, some db, some ts =>
    let ttl? := if ttl == "-" then none else ttl.toNat?
    showChoice (fifoChoose limit ttl? now db ts)
  | _, _, _, _, _ => bad "fifo"

/-- levels separated by `/`, runs by `|`, tables by `,` -/
def parseLevels (s : String) : Option (List (List (Run BK))) :=
  (s.splitOn "/").mapM parseRangeRuns

def fnDropRange (a : List (String × String)) : String :=
  match (arg a "lo").bind parseBound, (arg a "hi").bind parseBound, (arg a "hidden").bind parseNats,
        (arg a "levels").bind parseLevels with
  | some lo, some hi, some hid, some lv =>
    if boundsInverted lo hi then "empty"
    else showChoice (dropRangeChoose lo hi { id := 0, levels := lv } hid)
  | _, _, _, _ => bad "droprange"

def fnPrefix (a : List (String × String)) : String :=
  match (arg a "p").bind bytesOfHex with
  | some p => let r := prefixToRange p; showBound r.1 ++ " " ++ showBound r.2
  | none => bad "prefix"

def fnMemtable (a : List (String × String)) : String :=
  -- inserts in order, then one get
  match (arg a "ins").bind parseEntries, (arg a "key").bind bytesOfHex, (arg a "S").bind (·.toNat?) with
  | some ins, some k, some S =>
    let m := ins.foldl (fun acc e => memInsert e acc) ([] : List E)
    "get=" ++ showOptEntry (memGet m k S) ++ " items=" ++ showEntries m ++ " hi=" ++
      (match maxSeqno ins with | some n => toString n | none => "-")
  | _, _, _ => bad "memtable"

def fnVt (a : List (String × String)) : String :=
  match (arg a "b").bind (·.toNat?) with
  | some b => match VT.ofByte? (UInt8.ofNat b) with
    | some t => vtChar t ++ " " ++ toString t.toByte.toNat
    | none => "invalid"
  | none => bad "vt"

def treeCmds : List String := ["rawwrite", "bumpctr", "write", "rotate", "flush", "flushcommit", "merge", "move", "drop", "clear", "ingest", "reopen"]
def treeQueries : List String := ["get", "scan", "weaksafe", "admissible", "choose", "hwm", "digest", "dump"]

structure DS where
  t : TS
  f : FsSt

def handleTree (t : TS) (line : String) : TS × String :=
  match line.trimAscii.toString.splitOn " " with
  | [] => (t, bad "empty")
  | cmd :: rest =>
    let a := parseArgs rest
    if cmd == "new" then
      let t' : TS := TreeState.init ((natArg a "levels").getD 7) (natArg a "blob")
      (t', stateReply t')
    else if treeCmds.contains cmd then
      match stepTree t cmd a with
      | some t' => (t', stateReply t')
      | none => (t, "reject " ++ cmd)
    else if treeQueries.contains cmd then (t, queryTree t cmd a)
    else (t, handlePure cmd a)
where handlePure (cmd : String) (a : List (String × String)) : String :=
    match cmd with
    | "hello" => "ok lsmdrv 1"
    | "cstream" => fnCstream false a
    | "cstreamlegacy" => fnCstream true a
    | "mvcc" => fnMvcc a
    | "kmerge" => fnMerge a
    | "optimize" => fnOptimize a
    | "getforkey" => fnGetForKey a
    | "overlap" => fnOverlap a
    | "contained" => fnContained false a
    | "overlapping" => fnContained true a
    | "maint" => fnMaint a
    | "resolve" => fnResolve a
    | "fifo" => fnFifo a
    | "droprange" => fnDropRange a
    | "prefix" => fnPrefix a
    | "memtable" => fnMemtable a
    | "vt" => fnVt a
    | _ => ((((handleTableCmd cmd a).orElse (fun _ => handleManifestCmd cmd a)).orElse (fun _ => handleBlockBackCmd cmd a)).orElse (fun _ => (handleIndexCmd cmd a).orElse (fun _ => handleArchiveCmd cmd a))).getD (bad ("unknown-command " ++ cmd))

def handle (s : DS) (line : String) : DS × String :=
  match line.trimAscii.toString.splitOn " " with
  | "fsinit" :: rest =>
    match fsInit (parseArgs rest) with
    | some f => ({ s with f := f }, "ok")
    | none => (s, bad "fsinit")
  | "fsop" :: rest =>
    let r := fsOp s.f (parseArgs rest)
    ({ s with f := r.1 }, r.2)
  | _ =>
    let r := handleTree s.t line
    ({ s with t := r.1 }, r.2)

partial def loop (hin : IO.FS.Stream) (hout : IO.FS.Stream) (t : DS) : IO Unit := do
  let line ← hin.getLine
  if line.isEmpty then return ()
  let (t', out) := handle t line
  hout.putStrLn out
  hout.flush
  loop hin hout t'

end Drv

def main : IO Unit := do
  Drv.loop (← IO.getStdin) (← IO.getStdout) { t := Lsm.TreeState.init, f := { cur := { id := 0, files := [] }, fs := Lsm.Fs.Fs.ofVersion { id := 0, files := [] } } }
