import Driver.Codec
import LsmModel.Tree.Manifest
/-
  Driver.ManifestDrv — pure requests about the section payloads of a version file (instrument `ia manifest`,
  properties C04 / C07).  Every answer is computed by the definitions of LsmModel.Tree.Manifest; the glue below only
  parses / prints.

  TEXT FORMS (canonical, injective)
    table    <id>:<checksum>:<gseq>          id, gseq decimal; checksum = the u128 as 32 lower-case hex digits
                                             (most significant digit first, i.e. `format!("{:032x}")`)
    run      tables joined by `.`            the empty run is `~`
    level    runs joined by `|`              a level without runs is the empty string
    levels   levels joined by `/`            no level at all is `-`
    blobs    <id>:<checksum> joined by `,`   (file order; empty list = empty string)
    frag     <id>:<len>:<bytes>:<ondisk> joined by `,`   (file order; all decimal)

  PROTOCOL (one line each; hex = lower-case byte string)
    mtables bytes=<hex>      ->  levels=<levels> rest=<n>  |  err
        `Manifest.decodeTablesPrefix`: what `recover` reads from section "tables"; n = number of bytes left unread
        (the strict decoder `Manifest.decodeTables` accepts iff n = 0)
    mencode levels=<levels>  ->  bytes=<hex>                        `Manifest.encodeTables`
    mblobs bytes=<hex>       ->  blobs=<blobs> rest=<n>  |  err      `Manifest.decodeBlobsPrefix`
    mencblobs blobs=<blobs>  ->  bytes=<hex>                        `Manifest.encodeBlobs`
    mfrag bytes=<hex>        ->  frag=<frag> rest=<n>  |  err        `Manifest.decodeFragPrefix`
    mencfrag frag=<frag>     ->  bytes=<hex>                        `Manifest.encodeFrag`
    mfragmap frag=<frag>     ->  frag=<frag>     the map recovery builds (`Manifest.fragMap`: a later record replaces an
                                                 earlier one with the same id), listed by ascending id
    mblobmap blobs=<blobs>   ->  blobs=<blobs>  |  reject-duplicate-id
                                                 `Manifest.blobMap` listed by ascending id, if `Manifest.blobIdsDistinct`
                                                 (a repeated id decodes but `recover_blob_files` fails: `Unrecoverable`)
-/
namespace Drv
open Lsm

def hexOfNatDigits : Nat → Nat → List Char
  | 0, _ => []
  | w + 1, n => hexDigit (n % 16) :: hexOfNatDigits w (n / 16)

/-- fixed-width big-endian hex of `n mod 16^w` -/
def hexOfNatW (w n : Nat) : String := String.ofList (hexOfNatDigits w n).reverse

def natOfHexChars (cs : List Char) : Option Nat :=
  cs.foldlM (fun acc c => (hexVal c).map (fun d => acc * 16 + d)) 0

def natOfHex (s : String) : Option Nat := if s.isEmpty then none else natOfHexChars s.toList

def showTableRef (t : Manifest.TableRef) : String :=
  toString t.id ++ ":" ++ hexOfNatW 32 t.checksum ++ ":" ++ toString t.gseq

def parseTableRef (s : String) : Option Manifest.TableRef :=
  match s.splitOn ":" with
  | [i, c, g] => do
    let i ← i.toNat?
    let c ← natOfHex c
    let g ← g.toNat?
    pure { id := i, checksum := c, gseq := g }
  | _ => none

def showRunRefs (r : Manifest.RunRefs) : String :=
  if r.isEmpty then "~" else ".".intercalate (r.map showTableRef)

def parseRunRefs (s : String) : Option Manifest.RunRefs :=
  if s == "~" then some [] else (s.splitOn ".").mapM parseTableRef

def showLevelRefs (l : Manifest.LevelRefs) : String := "|".intercalate (l.map showRunRefs)

def parseLevelRefs (s : String) : Option Manifest.LevelRefs :=
  if s.isEmpty then some [] else (s.splitOn "|").mapM parseRunRefs

def showLevelsRefs (lv : Manifest.Levels) : String :=
  if lv.isEmpty then "-" else "/".intercalate (lv.map showLevelRefs)

def parseLevelsRefs (s : String) : Option Manifest.Levels :=
  if s == "-" then some [] else (s.splitOn "/").mapM parseLevelRefs

def showBlobRef (b : Manifest.BlobRef) : String := toString b.id ++ ":" ++ hexOfNatW 32 b.checksum

def parseBlobRef (s : String) : Option Manifest.BlobRef :=
  match s.splitOn ":" with
  | [i, c] => do
    let i ← i.toNat?
    let c ← natOfHex c
    pure { id := i, checksum := c }
  | _ => none

def showBlobRefs (l : List Manifest.BlobRef) : String := ",".intercalate (l.map showBlobRef)
def parseBlobRefs (s : String) : Option (List Manifest.BlobRef) := (splitList "," s).mapM parseBlobRef

def showFragEntry (e : Manifest.FragEntry) : String :=
  toString e.id ++ ":" ++ toString e.len ++ ":" ++ toString e.bytes ++ ":" ++ toString e.onDisk

def parseFragEntry (s : String) : Option Manifest.FragEntry :=
  match (s.splitOn ":").mapM (·.toNat?) with
  | some [i, l, b, d] => some { id := i, len := l, bytes := b, onDisk := d }
  | _ => none

def showFragEntries (l : List Manifest.FragEntry) : String := ",".intercalate (l.map showFragEntry)
def parseFragEntries (s : String) : Option (List Manifest.FragEntry) := (splitList "," s).mapM parseFragEntry

def fnMTables (a : List (String × String)) : String :=
  match (arg a "bytes").bind bytesOfHex with
  | some bytes => match Manifest.decodeTablesPrefix bytes with
    | some (lv, rest) => "levels=" ++ showLevelsRefs lv ++ " rest=" ++ toString rest.length
    | none => "err"
  | none => "bad-request mtables"

def fnMEncode (a : List (String × String)) : String :=
  match (arg a "levels").bind parseLevelsRefs with
  | some lv => "bytes=" ++ hexOfBytes (Manifest.encodeTables lv)
  | none => "bad-request mencode"

def fnMBlobs (a : List (String × String)) : String :=
  match (arg a "bytes").bind bytesOfHex with
  | some bytes => match Manifest.decodeBlobsPrefix bytes with
    | some (l, rest) => "blobs=" ++ showBlobRefs l ++ " rest=" ++ toString rest.length
    | none => "err"
  | none => "bad-request mblobs"

def fnMEncBlobs (a : List (String × String)) : String :=
  match (arg a "blobs").bind parseBlobRefs with
  | some l => "bytes=" ++ hexOfBytes (Manifest.encodeBlobs l)
  | none => "bad-request mencblobs"

def fnMFrag (a : List (String × String)) : String :=
  match (arg a "bytes").bind bytesOfHex with
  | some bytes => match Manifest.decodeFragPrefix bytes with
    | some (l, rest) => "frag=" ++ showFragEntries l ++ " rest=" ++ toString rest.length
    | none => "err"
  | none => "bad-request mfrag"

def fnMEncFrag (a : List (String × String)) : String :=
  match (arg a "frag").bind parseFragEntries with
  | some l => "bytes=" ++ hexOfBytes (Manifest.encodeFrag l)
  | none => "bad-request mencfrag"

/-- insertion into an id-sorted list without duplicates (printing only) -/
def insertSorted : Nat → List Nat → List Nat
  | x, [] => [x]
  | x, y :: ys => if x < y then x :: y :: ys else if x = y then y :: ys else y :: insertSorted x ys

def sortedIds (ids : List Nat) : List Nat := ids.foldl (fun acc i => insertSorted i acc) []

def fnMFragMap (a : List (String × String)) : String :=
  match (arg a "frag").bind parseFragEntries with
  | some l => "frag=" ++ showFragEntries ((sortedIds (l.map (·.id))).filterMap (Manifest.fragMap l))
  | none => "bad-request mfragmap"

def fnMBlobMap (a : List (String × String)) : String :=
  match (arg a "blobs").bind parseBlobRefs with
  | some l =>
    if Manifest.blobIdsDistinct l then "blobs=" ++ showBlobRefs ((sortedIds (l.map (·.id))).filterMap (Manifest.blobMap l))
    else "reject-duplicate-id"
  | none => "bad-request mblobmap"

/-- dispatch of the requests of this file; `none` = not one of ours -/
def handleManifestCmd (cmd : String) (a : List (String × String)) : Option String :=
  match cmd with
  | "mtables" => some (fnMTables a)
  | "mencode" => some (fnMEncode a)
  | "mblobs" => some (fnMBlobs a)
  | "mencblobs" => some (fnMEncBlobs a)
  | "mfrag" => some (fnMFrag a)
  | "mencfrag" => some (fnMEncFrag a)
  | "mfragmap" => some (fnMFragMap a)
  | "mblobmap" => some (fnMBlobMap a)
  | _ => none

end Drv
