import Driver.Codec
import LsmModel.Fs.Archive
/-
  Driver.ArchiveDrv — requests about the sfa archive layout of table / blob / version files (instrument `ia archive`,
  property C10 at file level).  Answers are computed by `LsmModel.Fs.Archive`.

    archive bytes=<hex>                 → `needhash off=<toc_pos> len=<n>` if the reader gets as far as the ToC checksum
                                          comparison (`tocHashedRange`), otherwise the final answer (see next line)
    archive bytes=<hex> ht=<hex16>      → `alloc=<count|-> ok entries=<hexname>:<pos>:<len>,…`  |  `alloc=<count|-> err <class>`
                                          (`decodeArchiveWith`; `alloc` = capacity requested from `Vec::with_capacity`
                                          BEFORE the checksum comparison, finding F10)
    mkarchive sections=<hexname>:<hexbytes>,…|- ht=<hex16>   → `bytes=<hex>`   (`encodeArchive (fun _ => ht)`)
    regions bytes=<hex> ht=<hex16>      → `parseRegions` of the decoded ToC
    regionmap data=<n>,<n>,… tli=<n> filter=<n|-> meta=<n> → run-length region map of `tableFile` (lengths only)
-/
namespace Drv
open Lsm Lsm.Archive

def showAEntry (e : Entry) : String := hexOfBytes e.name ++ ":" ++ toString e.pos ++ ":" ++ toString e.len

def showAlloc : Option Nat → String
  | some n => "alloc=" ++ toString n
  | none => "alloc=-"

def showArchiveRes (r : Option Nat × Except AErr (List Entry)) : String :=
  showAlloc r.1 ++ " " ++
    match r.2 with
    | .ok es => "ok entries=" ++ ",".intercalate (es.map showAEntry)
    | .error e => "err " ++ e.toString

def fnArchive (a : List (String × String)) : String :=
  match (arg a "bytes").bind bytesOfHex with
  | some bytes =>
    match arg a "ht" with
    | some hts =>
      match bytesOfHex hts with
      | some ht => showArchiveRes (decodeArchiveWith ht bytes)
      | none => "bad-request archive-ht"
    | none =>
      match tocHashedRange bytes with
      | some (off, len) => "needhash off=" ++ toString off ++ " len=" ++ toString len
      | none => showArchiveRes (decodeArchiveWith [] bytes)
  | none => "bad-request archive"

def parseSection (s : String) : Option (List UInt8 × List UInt8) :=
  match s.splitOn ":" with
  | [n, b] => do
    let n ← bytesOfHex n
    let b ← bytesOfHex b
    pure (n, b)
  | _ => none

def fnMkArchive (a : List (String × String)) : String :=
  let secs := match arg a "sections" with
    | some "-" => some []
    | some s => (splitList "," s).mapM parseSection
    | none => none
  match secs, (arg a "ht").bind bytesOfHex with
  | some s, some ht => "bytes=" ++ hexOfBytes (encodeArchive (fun _ => ht) s)
  | _, _ => "bad-request mkarchive"

def showOptEntryA : Option Entry → String
  | some e => toString e.pos ++ ":" ++ toString e.len
  | none => "-"

def fnRegions (a : List (String × String)) : String :=
  match (arg a "bytes").bind bytesOfHex, (arg a "ht").bind bytesOfHex with
  | some bytes, some ht =>
    match (decodeArchiveWith ht bytes).2 with
    | .error e => "err archive:" ++ e.toString
    | .ok es =>
      match parseRegions es with
      | .error e => "err " ++ e.toString
      | .ok r => "ok tli=" ++ showOptEntryA (some r.tli) ++ " meta=" ++ showOptEntryA (some r.metaE) ++ " index=" ++
          showOptEntryA r.index ++ " filter=" ++ showOptEntryA r.filter ++ " filter_tli=" ++ showOptEntryA r.filterTli ++
          " linked=" ++ showOptEntryA r.linkedBlobFiles
  | _, _ => "bad-request regions"

def showRegion : Region → String
  | .dataBlock i => "data" ++ toString i
  | .tliBlock => "tli"
  | .filterBlock => "filter"
  | .tableVersion => "table_version"
  | .metaBlock => "meta"
  | .toc => "toc"
  | .trailerMagic => "t.magic"
  | .trailerVersion => "t.version"
  | .trailerChecksumType => "t.cktype"
  | .trailerChecksum => "t.checksum"
  | .trailerTocPos => "t.tocpos"
  | .trailerTocLen => "t.toclen"

/-- run-length encoding of `regionOf` over positions `0 .. n` -/
def regionRuns (t : TableParts) (n : Nat) : List (String × Nat) :=
  (List.range n).foldl (fun acc p =>
    let r := match regionOf t p with | some r => showRegion r | none => "none"
    match acc with
    | (r', k) :: rest => if r' == r then (r', k + 1) :: rest else (r, 1) :: (r', k) :: rest
    | [] => [(r, 1)]) [] |>.reverse

def fnRegionMap (a : List (String × String)) : String :=
  match (arg a "data").bind parseNats, (arg a "tli").bind (·.toNat?), (arg a "meta").bind (·.toNat?) with
  | some ds, some tl, some m =>
    let fl := (arg a "filter").bind (·.toNat?)
    let z (n : Nat) : List UInt8 := List.replicate n 0
    let t : TableParts := { dataFrames := ds.map z, tliFrame := z tl, filterFrame := fl.map z, metaFrame := z m }
    let total := (tableFile (fun _ => z 16) t).length
    "len=" ++ toString total ++ " map=" ++
      ",".intercalate ((regionRuns t (total + 1)).map (fun (r, k) => r ++ ":" ++ toString k))
  | _, _, _ => "bad-request regionmap"

def handleArchiveCmd (cmd : String) (a : List (String × String)) : Option String :=
  match cmd with
  | "archive" => some (fnArchive a)
  | "mkarchive" => some (fnMkArchive a)
  | "regions" => some (fnRegions a)
  | "regionmap" => some (fnRegionMap a)
  | _ => none

end Drv
