import Driver.Codec
/-
  Driver.IndexDrv — requests about index blocks and the block index readers / writers
  (LsmModel.Table.IndexBlock, LsmModel.Table.TwoLevel).

  PROTOCOL (handles `hexkey:seqno:offset:size`, lists comma-separated; `-` = absent)
    ixenc hs=<handles>                           ->  bytes=<hex>  |  panic            (`IndexBlock::encode_into`)
    ixdec bytes=<hex>                            ->  len=<n|-> fwd=<handles|none> bwd=<handles|none>
    ixiter hs=<handles> lo=<hexkey:seqno|-> hi=<hexkey|-> word=<F/B word>
        ->  lo=<0|1|-> hi=<0|1|-> items=<handle or - per pull, `|`-separated> win=<the same via the list window>
        (decoder-level `BIter`: `seek` if lo given, then `seek_upper` if hi given — even after a failed `seek` —, then pulls;
         `win` = `flatRun`: what Blocks.lean's window abstraction delivers, all `-` when a seek failed)
    ixtwo top=<tophandle;handles|tophandle;handles|…> lo=.. hi=.. word=..
        ->  items=<two-level pulls> flat=<flat index over the concatenation> vol=<volatile index over the concatenation>
    ixcut hsz=<n> psize=<n> hs=<handles>         ->  parts=<handles|handles|…> tli=<hexkey:seqno,…>
-/
namespace Drv
open Lsm Lsm.IndexBlock Lsm.TwoLevel

def showHandle (h : KHandle) : String :=
  hexOfBytes h.endKey ++ ":" ++ toString h.seqno ++ ":" ++ toString h.offset ++ ":" ++ toString h.size

def parseHandle (s : String) : Option KHandle :=
  match s.splitOn ":" with
  | [k, n, o, z] => do
    let k ← bytesOfHex k
    let n ← n.toNat?
    let o ← o.toNat?
    let z ← z.toNat?
    pure { endKey := k, seqno := n, offset := o, size := z }
  | _ => none

def parseHandles (s : String) : Option (List KHandle) := (splitList "," s).mapM parseHandle
def showHandles (l : List KHandle) : String := ",".intercalate (l.map showHandle)

def showOptHandles : Option (List KHandle) → String
  | some l => showHandles l
  | none => "none"

def showPulls (l : List (Option KHandle)) : String :=
  "|".intercalate (l.map (fun o => match o with | some h => showHandle h | none => "-"))

def parseLo (s : String) : Option (Option (List UInt8 × Nat)) :=
  if s == "-" then some none
  else match s.splitOn ":" with
    | [k, n] => do
      let k ← bytesOfHex k
      let n ← n.toNat?
      pure (some (k, n))
    | _ => none

def parseHi (s : String) : Option (Option (List UInt8)) :=
  if s == "-" then some none else (bytesOfHex s).map some

def fnIxEnc (a : List (String × String)) : String :=
  match (arg a "hs").bind parseHandles with
  | some hs => match encodeIndexBlock hs with
    | some b => "bytes=" ++ hexOfBytes b
    | none => "panic"
  | none => "bad-request ixenc"

def fnIxDec (a : List (String × String)) : String :=
  match (arg a "bytes").bind bytesOfHex with
  | some b =>
    "len=" ++ (match blockLen b with | some n => toString n | none => "-") ++
    " fwd=" ++ showOptHandles (decodeFwd b) ++ " bwd=" ++ showOptHandles (decodeBwd b)
  | none => "bad-request ixdec"

def showOptBool : Option Bool → String
  | some true => "1" | some false => "0" | none => "-"

def fnIxIter (a : List (String × String)) : String :=
  match (arg a "hs").bind parseHandles, (arg a "lo").bind parseLo, (arg a "hi").bind parseHi, (arg a "word").bind parseWord with
  | some hs, some lo, some hi, some w =>
    let it := BIter.new hs
    let (rlo, it) := match lo with
      | some (k, S) => let r := it.seek (predLo k S); (some r.1, r.2)
      | none => (none, it)
    let (rhi, it) := match hi with
      | some k => let r := it.seekUpper (predHi k); (some r.1, r.2)
      | none => (none, it)
    "lo=" ++ showOptBool rlo ++ " hi=" ++ showOptBool rhi ++ " items=" ++ showPulls (it.run w) ++
      " win=" ++ showPulls (flatRun hs lo hi w)
  | _, _, _, _ => "bad-request ixiter"

def parseTopEntry (s : String) : Option (KHandle × List KHandle) :=
  match s.splitOn ";" with
  | [t, hs] => do
    let t ← parseHandle t
    let hs ← parseHandles hs
    pure (t, hs)
  | _ => none

def fnIxTwo (a : List (String × String)) : String :=
  match (arg a "top").bind (fun s => (splitList "|" s).mapM parseTopEntry), (arg a "lo").bind parseLo,
        (arg a "hi").bind parseHi, (arg a "word").bind parseWord with
  | some top, some lo, some hi, some w =>
    let flat := (top.map (·.2)).flatten
    "items=" ++ showPulls (twoLevelRun top lo hi w) ++ " flat=" ++ showPulls (flatRun flat lo hi w) ++
      " vol=" ++ showPulls (volatileRun flat lo hi w)
  | _, _, _, _ => "bad-request ixtwo"

def fnIxCut (a : List (String × String)) : String :=
  match (arg a "hsz").bind (·.toNat?), (arg a "psize").bind (·.toNat?), (arg a "hs").bind parseHandles with
  | some hsz, some psize, some hs =>
    let parts := cutPartitions (handleSize hsz) psize hs
    "parts=" ++ "|".intercalate (parts.map showHandles) ++ " tli=" ++
      ",".intercalate (parts.map (fun p => match tliEntry p with
        | some ie => hexOfBytes ie.endKey ++ ":" ++ toString ie.seqno
        | none => "-"))
  | _, _, _ => "bad-request ixcut"

/-- dispatch of the requests of this file; `none` = not one of ours -/
def handleIndexCmd (cmd : String) (a : List (String × String)) : Option String :=
  match cmd with
  | "ixenc" => some (fnIxEnc a)
  | "ixdec" => some (fnIxDec a)
  | "ixiter" => some (fnIxIter a)
  | "ixtwo" => some (fnIxTwo a)
  | "ixcut" => some (fnIxCut a)
  | _ => none

end Drv
