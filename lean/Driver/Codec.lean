import LsmModel
/-
  Driver.Codec — text encoding of model values for the line protocol (see DESIGN.md, Appendix B).
  Entries `hexkey:seqno:V|T|W|I:hexval`, lists comma-separated, lists of lists `|`-separated,
  bounds `I<hex>` / `E<hex>` / `U`. Everything printed is canonical.
-/
namespace Drv
open Lsm

abbrev BK := List UInt8
abbrev E := Entry BK

def hexDigit (n : Nat) : Char :=
  if n < 10 then Char.ofNat (48 + n) else Char.ofNat (87 + n)

def hexOfBytes (bs : List UInt8) : String :=
  String.ofList (bs.flatMap (fun b => [hexDigit (b.toNat / 16), hexDigit (b.toNat % 16)]))

def hexVal (c : Char) : Option Nat :=
  if '0' ≤ c ∧ c ≤ '9' then some (c.toNat - 48)
  else if 'a' ≤ c ∧ c ≤ 'f' then some (c.toNat - 87)
  else if 'A' ≤ c ∧ c ≤ 'F' then some (c.toNat - 55)
  else none

def bytesOfHexChars : List Char → Option (List UInt8)
  | [] => some []
  | [_] => none
  | a :: b :: t => do
    let x ← hexVal a
    let y ← hexVal b
    let r ← bytesOfHexChars t
    pure (UInt8.ofNat (x * 16 + y) :: r)

def bytesOfHex (s : String) : Option (List UInt8) := bytesOfHexChars s.toList

def vtChar : VT → String
  | .value => "V" | .tomb => "T" | .weak => "W" | .indir => "I"

def vtOfString : String → Option VT
  | "V" => some .value | "T" => some .tomb | "W" => some .weak | "I" => some .indir | _ => none

def showEntry (e : E) : String :=
  hexOfBytes e.key ++ ":" ++ toString e.seqno ++ ":" ++ vtChar e.vt ++ ":" ++ hexOfBytes e.val

def parseEntry (s : String) : Option E :=
  match s.splitOn ":" with
  | [k, n, t, v] => do
    let k ← bytesOfHex k
    let n ← n.toNat?
    let t ← vtOfString t
    let v ← bytesOfHex v
    pure { key := k, seqno := n, vt := t, val := v }
  | _ => none

def splitList (sep : String) (s : String) : List String :=
  if s.isEmpty then [] else s.splitOn sep

def parseEntries (s : String) : Option (List E) := (splitList "," s).mapM parseEntry

def showEntries (l : List E) : String := ",".intercalate (l.map showEntry)

def showOptEntry : Option E → String
  | some e => showEntry e
  | none => "-"

def parseBound (s : String) : Option (Bound BK) :=
  match s.toList with
  | 'U' :: [] => some .unb
  | 'I' :: t => (bytesOfHexChars t).map .incl
  | 'E' :: t => (bytesOfHexChars t).map .excl
  | _ => none

def showBound : Bound BK → String
  | .unb => "U"
  | .incl k => "I" ++ hexOfBytes k
  | .excl k => "E" ++ hexOfBytes k

def parseWord (s : String) : Option (List Dir) :=
  s.toList.mapM (fun c => if c = 'F' then some Dir.F else if c = 'B' then some Dir.B else none)

/-- table without content: `id:lohex:hihex` -/
def parseRangeTable (s : String) : Option (TableM BK) :=
  match s.splitOn ":" with
  | [i, lo, hi] => do
    let i ← i.toNat?
    let lo ← bytesOfHex lo
    let hi ← bytesOfHex hi
    pure { id := i, lo := lo, hi := hi, entries := [] }
  | _ => none

def parseRangeRun (s : String) : Option (Run BK) := (splitList "," s).mapM parseRangeTable

def parseRangeRuns (s : String) : Option (List (Run BK)) := (splitList "|" s).mapM parseRangeRun

def showIds (l : List Nat) : String := ",".intercalate (l.map toString)

def showRunIds (r : Run BK) : String := showIds (r.map (·.id))

def parseNats (s : String) : Option (List Nat) := (splitList "," s).mapM (·.toNat?)

/-- key=value argument lookup -/
def arg (args : List (String × String)) (k : String) : Option String := (args.find? (·.1 == k)).map (·.2)

def parseArgs (toks : List String) : List (String × String) :=
  toks.filterMap (fun t =>
    match t.splitOn "=" with
    | [k, v] => some (k, v)
    | [k] => some (k, "")
    | _ => none)

/-- the seeded verdict function shared with the harness (FNV-1a over key and value bytes, 64-bit wrap-around) -/
def verdictHash (seed : UInt64) (e : E) : UInt64 :=
  (e.key ++ [0xff] ++ e.val).foldl (fun (h : UInt64) (b : UInt8) => (h ^^^ b.toUInt64) * 0x100000001b3) (seed ^^^ 0xcbf29ce484222325)

/-- codes: 0-2 keep, 3 replace by value ++ 12 x "R" (crosses a separation threshold), 4 replace by value ++ "R", 5 replace by tombstone, 6 replace by weak tombstone, 7 drop -/
def verdictCode (seed : UInt64) (e : E) : Nat := ((verdictHash seed e >>> 17) % 8).toNat

/-- codes 6 (RemoveWeak) and 7 (Destroy) are only issued for the write-once keys `once`; elsewhere they fold to 0 / 1 (keep) -/
def treeVerdictCode (seed : UInt64) (once : List BK) (e : E) : Nat :=
  let c := verdictCode seed e
  if !once.contains e.key && c ≥ 6 then c - 6 else c

def seededTreeFilter (seed : UInt64) (once : List BK) (e : E) : Verdict :=
  match treeVerdictCode seed once e with
  | 3 => .replace .value (e.val ++ List.replicate 12 0x52)
  | 4 => .replace .value (e.val ++ [0x52])
  | 5 => .replace .tomb []
  | 6 => .replace .weak []
  | 7 => .drop
  | _ => .keep

def seededFilter (seed : UInt64) (e : E) : Verdict :=
  match verdictCode seed e with
  | 3 => .replace .value (e.val ++ List.replicate 12 0x52)
  | 4 => .replace .value (e.val ++ [0x52])
  | 5 => .replace .tomb []
  | 6 => .replace .weak []
  | 7 => .drop
  | _ => .keep

def parseFilter (s : String) : Option (E → Verdict) :=
  if s == "none" then some noFilter
  else s.toNat?.map (fun n => seededFilter (UInt64.ofNat n))

def showChoice : Choice → String
  | .doNothing => "nothing"
  | .move ids d => "move=" ++ showIds ids ++ " dest=" ++ toString d
  | .merge ids d => "merge=" ++ showIds ids ++ " dest=" ++ toString d
  | .drop ids => "drop=" ++ showIds ids

end Drv
