import Driver.Codec
import LsmModel.Table.Meta
/-
  Driver.TableDrv — pure requests about ONE table file and its parts (instruments `ia tables|frames|filters`,
  properties C12 / C10 / C11).  Every answer is computed by the definitions of
  LsmModel.Table.{Blocks,Codec,Frame,Bloom,HashIndex}; the glue below only parses / prints and
    * adds the table's global seqno to the items of `scan` / `range` and to the highest seqno
      (scanner.rs:78, iter.rs:177/231/285/303/352/406, mod.rs:623-625: the model states those for global_seqno = 0),
    * evaluates `tableGet` under the two extreme filters (ideal = exactly the registered keys, none = always "maybe");
      a real Bloom filter lies between the two, so if they disagree the answer is flagged `ambiguous[..]`,
    * performs the `read_exact(handle.size())` step of `Block::from_file` (`Frame.readN`) in front of
      `decodeBlockExactWith` (that is `Frame.decodeBlockFile` with hash values instead of a hash function).

  PROTOCOL (one line each; hex = lower-case byte string, entries `hexkey:seqno:V|T|W|I:hexval`)
    wtable bs=<n> gseq=<n> [ri=<n> enc=1] items=<entries> q=<query/query/…>
        query  G:<hexkey>:<seqno>            point read  `Table::get(key, seqno, hash)`
               R:<bound>:<bound>:<F/B word>  `Table::range((lo, hi))` consumed by next()/next_back()
        ->  empty                                        (no item: `Writer::finish` returns None)
        ->  scan=<entries> meta=<items>;<tombstones>;<weak>;<reclaimable>;<hex first key>;<hex last key>;<data blocks>;<highest seqno>
            blocks=<items per block,…> index=<hex end key:seqno,…> [enc=<hex block|hex block|…>] q=<answer/answer/…>
            answers: G -> entry or `-`;  R -> `|`-separated entries / `-`
    encblock ri=<n> items=<entries>            ->  bytes=<hex>
    decblock bytes=<hex>                        ->  items=<entries>  |  none
    frame type=<n> payload=<hex> hh=<hex4> hp=<hex16>                          ->  bytes=<hex>
    unframe mode=reader|file exp=<n|-> [size=<n>] bytes=<hex> hh=<hex4> hp=<hex16>
        ->  ok <type> p=<hex payload>  |  err <rust class> <model error>
    blobframe key=<hex> seqno=<n> value=<hex> hv=<hex16>   ->  bytes=<hex>   (`Frame.encodeBlob`, hv = hash of key ++ value)
    blobinput keylen=<n> ods=<n> bytes=<hex file tail>   ->  input=<hex>   (`Frame.blobHashInputOf`: the bytes the reader hashes)
    unblob keylen=<n> ods=<n> bytes=<hex file tail> hv=<hex16>
        ->  ok v=<hex value>  |  err <rust class> <model error>
        (keylen = length of the key ARGUMENT of `Reader::get`, ods = `vhandle.on_disk_size`, file tail = blob file
         from `vhandle.offset` on, hv = the 16 bytes the real xxh3-128 yields for the `blobinput` answer)
    bloom m=<n> k=<n> ins=<u64,…> probe=<u64,…>   ->  bits=<hex> probe=<one 0/1 per probe>
    hashidx n=<n> set=<u64 hash:pos,…> get=<u64,…>  ->  buckets=<hex> get=<raw bucket byte,…>
        (a number < n is its own bucket: the same entry point takes bucket numbers instead of hashes)
    hashenc n=<n> ri=<n> hashes=<u64,…> get=<u64,…>
        ->  written=<0|1> restarts=<n> buckets=<hex> plan=<A|B|S<restart idx>,…>
-/
namespace Drv
open Lsm

/-! ### tables (C12) -/

def shiftSeq (g : Nat) (e : E) : E := { e with seqno := e.seqno + g }

def showOptKey : Option BK → String
  | some k => hexOfBytes k
  | none => "-"

def showIndexEntries (l : List (Blocks.IndexEntry BK)) : String :=
  ",".intercalate (l.map (fun ie => hexOfBytes ie.endKey ++ ":" ++ toString ie.seqno))

def tableQuery (t : Blocks.TableImage BK) (g : Nat) (q : String) : Option String :=
  match q.splitOn ":" with
  | ["G", k, s] => do
    let k ← bytesOfHex k
    let s ← s.toNat?
    let ideal := Blocks.tableGet t g (fun x => t.filterKeys.contains x) k s
    let nofilter := Blocks.tableGet t g (fun _ => true) k s
    pure (if ideal = nofilter then showOptEntry ideal
          else "ambiguous[" ++ showOptEntry ideal ++ "|" ++ showOptEntry nofilter ++ "]")
  | ["R", lo, hi, w] => do
    let lo ← parseBound lo
    let hi ← parseBound hi
    let w ← parseWord w
    pure ("|".intercalate ((Blocks.rangeRun t lo hi w).map (fun o => showOptEntry (o.map (shiftSeq g)))))
  | _ => none

def fnWTable (a : List (String × String)) : String :=
  match (arg a "bs").bind (·.toNat?), (arg a "gseq").bind (·.toNat?), (arg a "items").bind parseEntries with
  | some bs, some g, some items =>
    let t := Blocks.writeTable bs Blocks.realSizeOf items
    if t.mdata.itemCount = 0 then "empty" else
    match (splitList "/" ((arg a "q").getD "")).mapM (tableQuery t g) with
    | none => "bad-request wtable-query"
    | some answers =>
      let m := t.mdata
      let enc := match arg a "enc", (arg a "ri").bind (·.toNat?) with
        | some "1", some ri => " enc=" ++ "|".intercalate (t.blocks.map (fun b => hexOfBytes (Codec.encodeBlock ri b)))
        | _, _ => ""
      "scan=" ++ showEntries ((Blocks.scan t).map (shiftSeq g)) ++
      " meta=" ++ ";".intercalate [toString m.itemCount, toString m.tombstoneCount, toString m.weakTombstoneCount,
        toString m.weakTombstoneReclaimable, showOptKey m.firstKey, showOptKey m.lastKey,
        toString t.dataBlockCount, toString (m.maxSeqno + g)] ++
      " blocks=" ++ showIds (t.blocks.map List.length) ++
      " index=" ++ showIndexEntries t.index ++ enc ++
      " q=" ++ "/".intercalate answers
  | _, _, _ => "bad-request wtable"

def fnEncBlock (a : List (String × String)) : String :=
  match (arg a "ri").bind (·.toNat?), (arg a "items").bind parseEntries with
  | some ri, some items => "bytes=" ++ hexOfBytes (Codec.encodeBlock ri items)
  | _, _ => "bad-request encblock"

def fnDecBlock (a : List (String × String)) : String :=
  match (arg a "bytes").bind bytesOfHex with
  | some bytes => match Codec.decodeBlock bytes with
    | some items => "items=" ++ showEntries items
    | none => "none"
  | none => "bad-request decblock"

/-! ### frames (C10) -/

def parseExpType (s : String) : Option (Option UInt8) :=
  if s == "-" then some none else s.toNat?.map (fun n => some (UInt8.ofNat n))

def showFrameErr (e : Frame.Err) : String := "err " ++ e.rustClass ++ " " ++ e.toString

def showBlockRes : Except Frame.Err (UInt8 × List UInt8) → String
  | .ok (t, p) => "ok " ++ toString t.toNat ++ " p=" ++ hexOfBytes p
  | .error e => showFrameErr e

/-- `Block::write_into` with the two hash values it computes given as data: `hp` for the payload, `hh` (4 bytes)
    for the 29-byte header prefix -/
def fnFrame (a : List (String × String)) : String :=
  match (arg a "type").bind (·.toNat?), (arg a "payload").bind bytesOfHex, (arg a "hh").bind bytesOfHex,
        (arg a "hp").bind bytesOfHex with
  | some ty, some payload, some hh, some hp =>
    let H : List UInt8 → List UInt8 := fun x => if x = payload then hp else hh ++ List.replicate 12 0
    "bytes=" ++ hexOfBytes (Frame.encodeBlock H (UInt8.ofNat ty) payload)
  | _, _, _, _ => "bad-request frame"

def fnUnframe (a : List (String × String)) : String :=
  match (arg a "exp").bind parseExpType, (arg a "bytes").bind bytesOfHex, (arg a "hh").bind bytesOfHex,
        (arg a "hp").bind bytesOfHex with
  | some exp, some bytes, some hh, some hp =>
    match arg a "mode" with
    | some "reader" => showBlockRes (Frame.decodeBlockWith hh hp exp bytes)
    | some "file" =>
      match (arg a "size").bind (·.toNat?) with
      | some size =>
        -- `Frame.decodeBlockFile`: `file::read_exact(file, offset, handle.size())`, then `from_file` on that buffer
        match Frame.readN size bytes with
        | .error e => showFrameErr e
        | .ok (buf, _) => showBlockRes (Frame.decodeBlockExactWith hh hp exp buf)
      | none => "bad-request unframe-size"
    | _ => "bad-request unframe-mode"
  | _, _, _, _ => "bad-request unframe"

def fnUnblob (a : List (String × String)) : String :=
  match (arg a "keylen").bind (·.toNat?), (arg a "ods").bind (·.toNat?), (arg a "bytes").bind bytesOfHex,
        (arg a "hv").bind bytesOfHex with
  | some kl, some ods, some bytes, some hv =>
    match Frame.decodeBlobWith hv kl ods bytes with
    | .ok v => "ok v=" ++ hexOfBytes v
    | .error e => showFrameErr e
  | _, _, _, _ => "bad-request unblob"

def fnBlobFrame (a : List (String × String)) : String :=
  match (arg a "key").bind bytesOfHex, (arg a "seqno").bind (·.toNat?), (arg a "value").bind bytesOfHex,
        (arg a "hv").bind bytesOfHex with
  | some k, some sq, some v, some hv => "bytes=" ++ hexOfBytes (Frame.encodeBlob (fun _ => hv) k sq v)
  | _, _, _, _ => "bad-request blobframe"

def fnBlobInput (a : List (String × String)) : String :=
  match (arg a "keylen").bind (·.toNat?), (arg a "ods").bind (·.toNat?), (arg a "bytes").bind bytesOfHex with
  | some kl, some ods, some bytes => "input=" ++ hexOfBytes (Frame.blobHashInputOf kl ods bytes)
  | _, _, _ => "bad-request blobinput"

/-! ### filters (C11) -/

def parseU64s (s : String) : Option (List UInt64) :=
  (splitList "," s).mapM (fun x => x.toNat?.map UInt64.ofNat)

def fnBloom (a : List (String × String)) : String :=
  match (arg a "m").bind (·.toNat?), (arg a "k").bind (·.toNat?), (arg a "ins").bind parseU64s,
        (arg a "probe").bind parseU64s with
  | some m, some k, some ins, some probe =>
    let f := Bloom.build m k ins
    "bits=" ++ hexOfBytes (Bloom.toBytes f.bits) ++ " probe=" ++
      String.ofList (probe.map (fun h => if Bloom.containsHash f h then '1' else '0'))
  | _, _, _, _ => "bad-request bloom"

def parseRegs (s : String) : Option (List (UInt64 × UInt8)) :=
  (splitList "," s).mapM (fun x => match x.splitOn ":" with
    | [h, p] => do
      let h ← h.toNat?
      let p ← p.toNat?
      pure (UInt64.ofNat h, UInt8.ofNat p)
    | _ => none)

def fnHashIdx (a : List (String × String)) : String :=
  match (arg a "n").bind (·.toNat?), (arg a "set").bind parseRegs, (arg a "get").bind parseU64s with
  | some n, some regs, some gets =>
    let b := HashIndex.buildH n regs
    "buckets=" ++ hexOfBytes b ++ " get=" ++ showIds (gets.map (fun h => (HashIndex.getRaw b h).toNat))
  | _, _, _ => "bad-request hashidx"

def showPlan : HashIndex.ReadPlan → String
  | .absent => "A"
  | .binarySearch => "B"
  | .scanFrom i => "S" ++ toString i

def fnHashEnc (a : List (String × String)) : String :=
  match (arg a "n").bind (·.toNat?), (arg a "ri").bind (·.toNat?), (arg a "hashes").bind parseU64s,
        (arg a "get").bind parseU64s with
  | some n, some ri, some hs, some gets =>
    let s := HashIndex.encode n ri hs
    let idx := HashIndex.blockIndex s
    "written=" ++ (if HashIndex.indexWritten s then "1" else "0") ++ " restarts=" ++ toString s.restartCount ++
      " buckets=" ++ hexOfBytes s.buckets ++
      " plan=" ++ ",".intercalate (gets.map (fun h => showPlan (HashIndex.pointReadPlan idx h)))
  | _, _, _, _ => "bad-request hashenc"

/-! ### META block (LsmModel.Table.Meta)
    metaparse items=<entries>   ->  ok id=.. created=.. dbc=.. ibc=.. kmin=<hex> kmax=<hex> smin=.. smax=.. fs=.. ic=.. tc=.. wtc=.. wr=.. dc=.. ixc=..  |  none
    metaitems dbc= fbc= ibc= dc= ixc= crate=<hex> created= ratio=<hex> fs= lvl= ic= kmax=<hex> kmin=<hex> kc= rid= rii= smax= smin= id= tc= uds= wtc= wr=
                                ->  items=<entries> sorted=<0|1> block=<hex>      (block = Codec.encodeBlock 1 items) -/
def fnMetaParse (a : List (String × String)) : String :=
  match (arg a "items").bind parseEntries with
  | none => "bad-request metaparse"
  | some items =>
    match Meta.parseMeta items with
    | none => "none"
    | some p =>
      "ok id=" ++ toString p.id ++ " created=" ++ toString p.createdAt ++ " dbc=" ++ toString p.dataBlockCount ++
      " ibc=" ++ toString p.indexBlockCount ++ " kmin=" ++ hexOfBytes p.keyMin ++ " kmax=" ++ hexOfBytes p.keyMax ++
      " smin=" ++ toString p.seqnoMin ++ " smax=" ++ toString p.seqnoMax ++ " fs=" ++ toString p.fileSize ++
      " ic=" ++ toString p.itemCount ++ " tc=" ++ toString p.tombstoneCount ++ " wtc=" ++ toString p.weakTombstoneCount ++
      " wr=" ++ toString p.weakReclaimable ++ " dc=" ++ toString p.dataCompression ++ " ixc=" ++ toString p.indexCompression

def fnMetaItems (a : List (String × String)) : String :=
  let n := fun k => (arg a k).bind (·.toNat?)
  let h := fun k => (arg a k).bind bytesOfHex
  match n "dbc", n "fbc", n "ibc", n "dc", n "ixc", h "crate", n "created", h "ratio", n "fs", n "lvl", n "ic", h "kmax" with
  | some dbc, some fbc, some ibc, some dc, some ixc, some crate, some created, some ratio, some fs, some lvl, some ic, some kmax =>
    match h "kmin", n "kc", n "rid", n "rii", n "smax", n "smin", n "id", n "tc", n "uds", n "wtc", n "wr" with
    | some kmin, some kc, some rid, some rii, some smax, some smin, some id, some tc, some uds, some wtc, some wr =>
      let m : Meta.TableMeta :=
        { dataBlockCount := dbc, filterBlockCount := fbc, indexBlockCount := ibc, dataCompression := dc, indexCompression := ixc,
          crateVersion := crate, createdAt := created, hashRatio := ratio, fileSize := fs, initialLevel := lvl, itemCount := ic,
          keyMax := kmax, keyMin := kmin, keyCount := kc, riData := rid, riIndex := rii, seqnoMax := smax, seqnoMin := smin,
          tableId := id, tombstoneCount := tc, userDataSize := uds, weakTombstoneCount := wtc, weakReclaimable := wr }
      let items := Meta.metaItems m
      "items=" ++ showEntries items ++ " sorted=" ++ (if Meta.ascending (items.map (·.key)) then "1" else "0") ++
      " block=" ++ hexOfBytes (Meta.encodeMetaBlock m)
    | _, _, _, _, _, _, _, _, _, _, _ => "bad-request metaitems-2"
  | _, _, _, _, _, _, _, _, _, _, _, _ => "bad-request metaitems"

/-- dispatch of the requests of this file; `none` = not one of ours -/
def handleTableCmd (cmd : String) (a : List (String × String)) : Option String :=
  match cmd with
  | "wtable" => some (fnWTable a)
  | "encblock" => some (fnEncBlock a)
  | "decblock" => some (fnDecBlock a)
  | "metaparse" => some (fnMetaParse a)
  | "metaitems" => some (fnMetaItems a)
  | "frame" => some (fnFrame a)
  | "unframe" => some (fnUnframe a)
  | "unblob" => some (fnUnblob a)
  | "blobinput" => some (fnBlobInput a)
  | "blobframe" => some (fnBlobFrame a)
  | "bloom" => some (fnBloom a)
  | "hashidx" => some (fnHashIdx a)
  | "hashenc" => some (fnHashEnc a)
  | _ => none

end Drv
