import Driver.Codec
/-
  Driver.FsDrv — install-protocol conformance (instrument I-C): the abstract file-system actions observed with strace for
  one operation are run through `Lsm.Fs.acceptsFrom`, the executable form of the hypothesis of `c05_crash_atomic`.
  Paths `d.n` (d = 0 root/version files, 1 tables, 2 blobs); actions `C d.n` create, `A d.n.c` append chunk c,
  `S d.n` fsync file, `D d` fsync directory, `T v` write temp file for version v, `Y` fsync temp, `R` rename over
  `current`, `U d.n` unlink. Versions `id|d.n:c+c+c;d.n:...`.
-/
namespace Drv
open Lsm

structure FsSt where
  cur : Fs.Ver
  fs : Fs.Fs

def parsePath (s : String) : Option Fs.Path :=
  match (s.splitOn ".").mapM (·.toNat?) with
  | some [d, n] => some (d, n)
  | _ => none

def parseAct (s : String) : Option Fs.Act :=
  match s.toList with
  | 'C' :: t => (parsePath (String.ofList t)).map .create
  | 'A' :: t => match ((String.ofList t).splitOn ".").mapM (·.toNat?) with
    | some [d, n, c] => some (.append (d, n) c)
    | _ => none
  | 'S' :: t => (parsePath (String.ofList t)).map .fsyncFile
  | 'D' :: t => (String.ofList t).toNat?.map .fsyncDir
  | 'T' :: t => (String.ofList t).toNat?.map .writeTmp
  | ['Y'] => some .fsyncTmp
  | ['R'] => some .rename
  | 'U' :: t => (parsePath (String.ofList t)).map .unlink
  | _ => none

def parseVer (s : String) : Option Fs.Ver :=
  match s.splitOn "|" with
  | [i, files] => do
    let id ← i.toNat?
    let fl ← (splitList ";" files).mapM (fun f => match f.splitOn ":" with
      | [p, cs] => do
        let p ← parsePath p
        let cs ← (splitList "+" cs).mapM (·.toNat?)
        pure (p, cs)
      | _ => none)
    pure { id := id, files := fl }
  | _ => none

def fsInit (a : List (String × String)) : Option FsSt :=
  (arg a "ver").bind parseVer |>.map (fun v => { cur := v, fs := Fs.Fs.ofVersion v })

/-- one observed operation: accepted? completed? (state advances only when accepted) -/
def fsOp (st : FsSt) (a : List (String × String)) : FsSt × String :=
  match (arg a "new").bind parseVer, (arg a "acts").bind (fun s => (splitList "," s).mapM parseAct) with
  | some new, some acts =>
    match Fs.acceptsFrom st.cur new st.fs acts with
    | none =>
      let fs' := Fs.run st.fs acts
      let done := Fs.completedB st.cur new fs' || (st.cur.id == new.id)
      ({ cur := if done then new else st.cur, fs := fs' }, "ok completed=" ++ (if done then "1" else "0") ++ " actions=" ++ toString acts.length)
    | some i => (st, "reject@" ++ toString i ++ " " ++ Fs.showReject st.cur new st.fs acts)
  | _, _ => (st, "bad-request fsop")

end Drv
