import LsmModel.Tree.Version
/-
  LsmModel.Tree.Super — super versions and their history (src/version/super_version.rs, src/tree/sealed.rs).
-/
namespace Lsm
variable {K : Type}

structure MemtableM (K : Type) where
  id : Nat
  entries : List (Entry K)
deriving Repr

/-- A super version references its memtables by id: memtables are shared (`Arc`) between history entries, so a write
    to the active memtable is seen through every entry that holds it. -/
structure SuperVersion (K : Type) where
  active : Nat
  sealed : List Nat                -- oldest first (`SealedMemtables::add` appends)
  version : Version K
  seqno : Nat
deriving Repr

/-- `SuperVersions`: oldest first, never empty -/
abbrev History (K : Type) := List (SuperVersion K)

/-- `rposition` -/
def rposition {α : Type} (p : α → Bool) (l : List α) : Option Nat :=
  match l.reverse.findIdx? p with
  | some i => some (l.length - 1 - i)
  | none => none

/-- `SuperVersions::get_version_for_snapshot` (`none` = the `expect` would panic) -/
def getVersionForSnapshot (h : History K) (S : Nat) : Option (SuperVersion K) :=
  if S = 0 then h.head?
  else h.reverse.find? (fun sv => decide (sv.seqno < S))

/-- `SuperVersions::maintenance`: returns the new history and the ids of the version files unlinked -/
def maintenance (h : History K) (wm : Nat) : History K × List Nat :=
  if wm = 0 then (h, [])
  else if h.length - 1 < 1 then (h, [])
  else
    match rposition (fun sv : SuperVersion K => decide (sv.seqno < wm)) h with
    | some hi => (h.drop hi, (h.take hi).map (·.version.id))
    | none => (h, [])

/-- `latest_version` -/
def latest (h : History K) : Option (SuperVersion K) := h.getLast?

end Lsm
