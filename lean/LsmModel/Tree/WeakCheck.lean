import LsmModel.Tree.Ops
/-
  LsmModel.Tree.WeakCheck — executable checks of the single-delete (weak delete) discipline C13, for the driver.

  MODELLING NOTES. Nothing of the Rust code is modelled here; these are CHECKERS over model states / write lists:
    * `weakSafeListB l`  — `WeakSafe` (Lemmas/CStreamLemmas) of one key's version list, newest first: no strong
                           tombstone, and directly below every value / indirection a weak tombstone or nothing.
                           It is the property statement of C13 ("keys written once": src/abstract_tree.rs `remove_weak`
                           doc: only for keys that are written once and never overwritten) as a predicate;
    * `keyDiscListB l`   — no weak tombstone at all (C01 regime) or `weakSafeListB`;
    * `stateWeakSafeB t` — every user key's version list along the read order of the latest super version
                           (`TreeState.sources`: active memtable, sealed memtables newest first, tables level by level,
                           run by run) satisfies `keyDiscListB`.
  `Lemmas/WeakHistory2` proves `stateWeakSafeB = weakSafeStateB` and that it holds in every reachable state of a
  disciplined history (`c13_state_disciplined`, `c08_state_disciplined`).
-/
namespace Lsm
variable {K : Type}

def weakSafeListB : List (Entry K) → Bool
  | [] => true
  | [e] => e.vt != .tomb
  | a :: b :: t => a.vt != .tomb && (!(a.vt == .value || a.vt == .indir) || b.vt == .weak) && weakSafeListB (b :: t)

def keyDiscListB (l : List (Entry K)) : Bool := l.all (fun e => e.vt != .weak) || weakSafeListB l

section
variable [LT K] [DecidableLT K] [DecidableEq K]

def stateWeakSafeB (t : TreeState K) : Bool :=
  match t.latest? with
  | some sv =>
    (((t.sources sv).flatMap (·.2)).map (·.key)).all (fun k =>
      keyDiscListB (((t.sources sv).map (·.2)).flatMap (fun s => s.filter (fun e => decide (e.key = k)))))
  | none => true

end
end Lsm
