import LsmModel.Table.Optimize
/-
  LsmModel.Tree.Version — `Version` and its copy-on-write transformations (src/version/mod.rs):
  `with_new_l0_run`, `with_merge`, `with_moved`, `with_dropped`.
  Blob files and gc statistics live in `LsmModel.Tree.Blob` and are threaded separately.
-/
namespace Lsm
variable {K : Type}

structure Version (K : Type) where
  id : Nat
  levels : List (List (Run K))
deriving Repr

/-- `Version::new` -/
def Version.empty (id : Nat) (levelCount : Nat := 7) : Version K :=
  { id := id, levels := List.replicate levelCount [] }

/-- `iter_tables`: levels → runs → tables, in order -/
def Version.tables (v : Version K) : List (TableM K) := v.levels.flatten.flatten

/-- all runs in read order -/
def Version.runs (v : Version K) : List (Run K) := v.levels.flatten

def Version.tableIds (v : Version K) : List Nat := v.tables.map (·.id)

section
variable [LT K] [DecidableLT K] [DecidableEq K]

/-- remove the tables with the given ids from every run of a level, dropping runs that become empty -/
def removeIds (ids : List Nat) (lvl : List (Run K)) : List (Run K) :=
  (lvl.map (fun r => r.filter (fun t => !ids.contains t.id))).filter (fun r => !r.isEmpty)

/-- `Version::with_new_l0_run` (levels part) -/
def Version.withNewL0Run (v : Version K) (run : Run K) : Version K :=
  match v.levels with
  | [] => { v with id := v.id + 1 }
  | l0 :: rest =>
    let runs := (if run.isEmpty then [] else [run]) ++ l0
    { id := v.id + 1, levels := optimizeRuns runs :: rest }

/-- `Version::with_merge` (levels part) -/
def Version.withMerge (v : Version K) (oldIds : List Nat) (newTables : Run K) (dest : Nat) : Version K :=
  { id := v.id + 1,
    levels := v.levels.mapIdx (fun i lvl =>
      let runs := removeIds oldIds lvl
      let runs := if i = dest ∧ !newTables.isEmpty then newTables :: runs else runs
      optimizeRuns runs) }

/-- `Version::with_moved` (after the repair of finding F7: the moved tables enter the destination level as
    single-table runs in read order and are packed by `optimize_runs`) -/
def Version.withMoved (v : Version K) (ids : List Nat) (dest : Nat) : Version K :=
  let affected := v.tables.filter (fun t => ids.contains t.id)
  { id := v.id + 1,
    levels := v.levels.mapIdx (fun i lvl =>
      let runs := removeIds ids lvl
      let runs := if i = dest then affected.map (fun t => [t]) ++ runs else runs
      optimizeRuns runs) }

/-- `Version::with_moved` as at the pinned commit (one run built from the moved tables as they come; finding F7) -/
def Version.withMovedLegacy (v : Version K) (ids : List Nat) (dest : Nat) : Version K :=
  let affected := v.tables.filter (fun t => ids.contains t.id)
  { id := v.id + 1,
    levels := v.levels.mapIdx (fun i lvl =>
      let runs := removeIds ids lvl
      let runs := if i = dest ∧ !affected.isEmpty then affected :: runs else runs
      optimizeRuns runs) }

/-- `Version::with_dropped` (levels part) -/
def Version.withDropped (v : Version K) (ids : List Nat) : Version K :=
  { id := v.id + 1, levels := v.levels.map (fun lvl => optimizeRuns (removeIds ids lvl)) }

end
end Lsm
