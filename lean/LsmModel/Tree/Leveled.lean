import LsmModel.Tree.Strategy
/-
  LsmModel.Tree.Leveled — the Leveled compaction strategy (src/compaction/leveled/mod.rs): `Strategy::choose` and
  `pick_minimal_compaction`, transcribed branch by branch.

  Everything that is decided by integers and key comparisons is modelled. The two decisions that go through floating
  point (`level_target_size` multiplies `f32` ratios, the scores are `f64` quotients compared with `partial_cmp`) are
  NOT modelled: they are the two fields of `LevelPick`, which the choice function takes as an argument.

    `needNewL1`  the value of `need_new_l1` (mod.rs:326-348; only consulted where the real code computes it)
    `scored`     `some i` = `level_idx_with_highest_score = i` and `score ≥ 1.0`; `none` = `score < 1.0` ⇒ `DoNothing`
                 (mod.rs:401-482)

  The theorems of Props/C01c.lean quantify over EVERY `LevelPick`, so they hold whatever the floats do.
  `scoreLevels` at the end is an exact-rational version of the scoring for the default ratio policy `[10.0]`; it is
  used only by the driver (`scored=auto`) as a cross-check and by NO theorem.

  Per-table facts: id and key range come from `TableM`; `Table::file_size` is the parameter `size : Nat → Nat`
  (table id ↦ bytes). `KeyRange::empty()` (the range `("", "")` that `Level::aggregate_key_range` yields for a level
  without runs) needs the empty user key: `LeveledParams.emptyKey`.
-/
namespace Lsm
variable {K : Type}

/-- the integer configuration of `leveled::Strategy` plus the empty user key -/
structure LeveledParams (K : Type) where
  l0Threshold : Nat          -- `l0_threshold` (used by the scoring only, i.e. by `scoreLevels`)
  targetSize : Nat           -- `target_size`
  emptyKey : K               -- `Slice::empty()` as a user key (`KeyRange::empty`)

/-- the float-dependent decisions of one `choose` call -/
structure LevelPick where
  needNewL1 : Bool
  scored : Option Nat
deriving Repr, DecidableEq

/-! ### slice windows (src/slice_windows.rs) -/

/-- `slice.windows(n)` for `n ≥ 1`: the contiguous sub-slices of length `n`, left to right -/
def windows {α : Type} (n : Nat) (l : List α) : List (List α) :=
  (List.range (l.length + 1 - n)).map (fun i => (l.drop i).take n)

/-- `shrinking_windows`: `(1..=len).rev().flat_map(|size| windows(size))` -/
def shrinkingWindows {α : Type} (l : List α) : List (List α) :=
  ((List.range l.length).reverse.map (· + 1)).flatMap (fun n => windows n l)

/-- `growing_windows`: `(1..=len).flat_map(|size| windows(size))` -/
def growingWindows {α : Type} (l : List α) : List (List α) :=
  ((List.range l.length).map (· + 1)).flatMap (fun n => windows n l)

/-! ### hidden set (src/compaction/state/hidden_set.rs) and sizes -/

/-- `HiddenSet::is_blocked(tables.map(id))` -/
def isBlocked (hidden : List Nat) (ts : List (TableM K)) : Bool := ts.any (fun t => hidden.contains t.id)

/-- `Version::level_is_busy` -/
def levelIsBusy (v : Version K) (hidden : List Nat) (idx : Nat) : Bool :=
  match v.levels[idx]? with
  | some lvl => isBlocked hidden lvl.flatten
  | none => false

/-- `tables.iter().map(Table::file_size).sum::<u64>()` (no `u64` wrap-around: see the module documentation) -/
def sumSize (size : Nat → Nat) (ts : List (TableM K)) : Nat := (ts.map (fun t => size t.id)).sum

/-- `Iterator::min_by_key(|x| x.bytes)`: the FIRST element with the minimal key -/
def minByKey {α : Type} (key : α → Nat) : List α → Option α
  | [] => none
  | x :: xs => some (xs.foldl (fun best y => if key y < key best then y else best) x)

section
variable [LT K] [DecidableLT K] [DecidableEq K]

/-! ### key ranges (src/key_range.rs, src/version/run.rs, src/version/mod.rs, src/table/util.rs) -/

/-- `aggregate_run_key_range(tables)` / `Run::aggregate_key_range`: `(first.min, last.max)`; `none` stands for the
    `expect("run should never be empty")` panic -/
def runRange (w : List (TableM K)) : Option (K × K) :=
  match w.head?, w.getLast? with
  | some f, some l => some (f.lo, l.hi)
  | _, _ => none

/-- `KeyRange::overlaps_with_key_range`: `end1 >= start2 && start1 <= end2` -/
def rangesOverlap (a b : K × K) : Bool := !decide (a.2 < b.1) && !decide (b.2 < a.1)

/-- `KeyRange::aggregate`: smallest min, largest max; `KeyRange::empty()` for no ranges -/
def aggregateRanges (emptyKey : K) : List (K × K) → K × K
  | [] => (emptyKey, emptyKey)
  | f :: rest => rest.foldl (fun acc x => (if x.1 < acc.1 then x.1 else acc.1, if acc.2 < x.2 then x.2 else acc.2)) f

/-- `Level::aggregate_key_range` (runs of a level are never empty: `Run::new` refuses an empty vector) -/
def levelRange (emptyKey : K) (lvl : List (Run K)) : K × K :=
  match lvl with
  | [r] => (runRange r).getD (emptyKey, emptyKey)
  | _ => aggregateRanges emptyKey (lvl.filterMap runRange)

/-- `level.iter().flat_map(|run| run.get_overlapping(&key_range))` -/
def levelOverlapping (lvl : List (Run K)) (kr : K × K) : List (TableM K) :=
  lvl.flatMap (fun r => getOverlapping r kr.1 kr.2)

/-! ### `pick_minimal_compaction` (mod.rs:19-108) -/

/-- the predicate of the `shrinking_windows().find(…)` (mod.rs:27-42) -/
def trivialWindowOk (next : Option (Run K)) (hidden : List Nat) (w : List (TableM K)) : Bool :=
  if isBlocked hidden w then false
  else match next with
    | none => true
    | some nr => match runRange w with
      | some kr => (getOverlapping nr kr.1 kr.2).isEmpty
      | none => false

/-- a merge candidate: (window of the next level, pulled-in tables of the current level, `compaction_bytes`) -/
abbrev MergeCand (K : Type) := List (TableM K) × List (TableM K) × Nat

/-- the `filter_map` closure (mod.rs:59-97); `write_amp` is computed but never used by the real code -/
def mergeCandidate (curr : Run K) (hidden : List Nat) (size : Nat → Nat) (w : List (TableM K)) :
    Option (MergeCand K) :=
  if isBlocked hidden w then none
  else match runRange w with
    | none => none
    | some kr =>
      let pull := getContained curr kr.1 kr.2
      let currSize := sumSize size pull
      if currSize = 0 then none
      else if isBlocked hidden pull then none
      else some (w, pull, currSize + sumSize size w)

/-- the candidates in iteration order: `growing_windows().take_while(cap).filter_map(…)` (mod.rs:49-97) -/
def mergeCandidates (curr nr : Run K) (hidden : List Nat) (size : Nat → Nat) (tableBaseSize : Nat) :
    List (MergeCand K) :=
  ((growingWindows nr).takeWhile (fun w => decide (sumSize size w ≤ 50 * tableBaseSize))).filterMap
    (mergeCandidate curr hidden size)

/-- `pick_minimal_compaction(curr_run, next_run, hidden_set, _overshoot, table_base_size)`:
    `(table ids, can_trivial_move)` -/
def pickMinimalCompaction (curr : Run K) (next : Option (Run K)) (hidden : List Nat) (size : Nat → Nat)
    (tableBaseSize : Nat) : Option (List Nat × Bool) :=
  match (shrinkingWindows curr).find? (trivialWindowOk next hidden) with
  | some w => some (w.map (·.id), true)
  | none =>
    match next with
    | none => none
    | some nr =>
      (minByKey (fun c => c.2.2) (mergeCandidates curr nr hidden size tableBaseSize)).map
        (fun c => (c.1.map (·.id) ++ c.2.1.map (·.id), false))

/-! ### `Strategy::choose` (mod.rs:277-578) -/

/-- `Level::is_empty` -/
def levelEmptyAt (v : Version K) (i : Nat) : Bool :=
  match v.levels[i]? with
  | some lvl => lvl.isEmpty
  | none => true

/-- the `'trivial_lmax` block (mod.rs:281-308): `some` = the early `return Choice::Move` -/
def trivialLmax (p : LeveledParams K) (v : Version K) : Option Choice :=
  match v.levels[0]? with
  | none => none
  | some l0 =>
    if !l0.isEmpty && l0.length == 1 then
      let lmaxIdx := v.levels.length - 1
      if ((List.range lmaxIdx).drop 1).any (fun idx => !levelEmptyAt v idx) then none
      else match v.levels[lmaxIdx]? with
        | none => none
        | some lmax =>
          if !rangesOverlap (levelRange p.emptyKey lmax) (levelRange p.emptyKey l0) then
            some (.move (idSet (l0.flatten.map (·.id))) lmaxIdx)
          else none
    else none

/-- `iter_levels().enumerate().skip(1).find(|(_, lvl)| !lvl.is_empty()).map(|(idx, _)| idx)`, started at index `i` -/
def firstNonEmptyFrom : Nat → List (List (Run K)) → Option Nat
  | _, [] => none
  | i, l :: ls => if !l.isEmpty then some i else firstNonEmptyFrom (i + 1) ls

/-- `first_non_empty_level` (mod.rs:312-318) -/
def firstNonEmptyLevel (v : Version K) : Nat :=
  (firstNonEmptyFrom 1 (v.levels.drop 1)).getD (v.levels.length - 1)

/-- `canonical_l1_idx` after the optional "move L1 up" (mod.rs:320-355) -/
def canonicalL1 (v : Version K) (pick : LevelPick) : Nat :=
  let fne := firstNonEmptyLevel v
  if decide (fne > 1) && (v.levels.drop 1).any (fun lvl => !lvl.isEmpty) && pick.needNewL1 then fne - 1 else fne

/-- the `'trivial` block (mod.rs:358-399): `some` = the early `return Choice::Move` -/
def trivialL1 (p : LeveledParams K) (v : Version K) (hidden : List Nat) (pick : LevelPick) : Option Choice :=
  match v.levels[0]? with
  | none => none
  | some l0 =>
    let target := min (firstNonEmptyLevel v) (canonicalL1 v pick)
    if l0.length == 1 then
      if levelIsBusy v hidden 0 || levelIsBusy v hidden target then none
      else match v.levels[target]? with
        | none => none
        | some tl =>
          if tl.length != 1 then none
          else
            let kr := levelRange p.emptyKey l0
            if ((levelOverlapping tl kr).map (·.id)).head?.isNone && l0.length == 1 then
              some (.move (idSet (l0.flatten.map (·.id))) target)
            else none
    else none

/-- "We choose L0->L1 compaction" (mod.rs:485-528) -/
def chooseL0 (p : LeveledParams K) (v : Version K) (hidden : List Nat) (pick : LevelPick) : Choice :=
  match v.levels[0]? with
  | none => .doNothing
  | some l0 =>
    let canon := canonicalL1 v pick
    if levelIsBusy v hidden 0 || levelIsBusy v hidden canon then .doNothing
    else match v.levels[canon]? with
      | none => .doNothing
      | some tl =>
        let kr := levelRange p.emptyKey l0
        let ov := levelOverlapping tl kr
        let ids := idSet (l0.flatten.map (·.id) ++ ov.map (·.id))
        if ov.isEmpty && l0.length == 1 then .move ids canon else .merge ids canon

/-- "We choose L1+ compaction instead" (mod.rs:530-577) for `level_idx_with_highest_score = idx` -/
def chooseLn (p : LeveledParams K) (v : Version K) (hidden : List Nat) (size : Nat → Nat) (idx : Nat) : Choice :=
  match v.levels[idx]?, v.levels[idx + 1]? with
  | some level, some nextLevel =>
    match level.head? with
    | none => .doNothing      -- `expect("should have exactly one run")`: unreachable, a scored level is not empty
    | some curr =>
      match pickMinimalCompaction curr nextLevel.head? hidden size p.targetSize with
      | none => .doNothing
      | some (ids, canTrivialMove) =>
        if canTrivialMove && level.length == 1 then .move (idSet ids) (idx + 1) else .merge (idSet ids) (idx + 1)
  | _, _ => .doNothing

/-- `leveled::Strategy::choose` with the float-dependent decisions supplied by `pick` -/
def leveledChooseAt (p : LeveledParams K) (v : Version K) (hidden : List Nat) (size : Nat → Nat)
    (pick : LevelPick) : Choice :=
  match trivialLmax p v with
  | some c => c
  | none =>
    match trivialL1 p v hidden pick with
    | some c => c
    | none =>
      match pick.scored with
      | none => .doNothing
      | some 0 => chooseL0 p v hidden pick
      | some (idx + 1) => chooseLn p v hidden size (idx + 1)

end

/-! ### exact-rational scoring for the default ratio policy (NOT used by any theorem)

`level_ratio_policy = [10.0]`: `level_target_size(c) = level_base_size · 10^(c-1)` (exact in `f32`/`u64` as long as
the product stays below 2^24; beyond that the real code rounds and this function does not). Scores are compared as
fractions `num / den` by cross multiplication. `max_by` returns the LAST of several maximal elements. -/

/-- `level_size` of the scoring: bytes of the non-hidden tables of a level -/
def visibleLevelSize (hidden : List Nat) (size : Nat → Nat) (lvl : List (Run K)) : Nat :=
  sumSize size (lvl.flatten.filter (fun t => !hidden.contains t.id))

/-- `level_target_size(canonical_level_idx)` for the policy `[10.0]`, `canonical_level_idx ≥ 1` -/
def levelTargetSize10 (p : LeveledParams K) (canonical : Nat) : Nat :=
  p.targetSize * p.l0Threshold * 10 ^ (canonical - 1)

/-- `need_new_l1` as computed at mod.rs:326-348 for `level_shift = first_non_empty_level - 1` -/
def needNewL1Exact (p : LeveledParams K) (v : Version K) (hidden : List Nat) (size : Nat → Nat) : Bool :=
  let shift := firstNonEmptyLevel v - 1
  ((v.levels.mapIdx (fun i lvl => (i, lvl))).drop 1).all (fun x =>
    x.2.isEmpty || decide (visibleLevelSize hidden size x.2 > levelTargetSize10 p (x.1 - shift)))

/-- the `scores` array as fractions `(num, den)`, `den > 0` -/
def scoreFractions (p : LeveledParams K) (v : Version K) (hidden : List Nat) (size : Nat → Nat)
    (needNew : Bool) : List (Nat × Nat) :=
  let shift := canonicalL1 v ⟨needNew, none⟩ - 1
  v.levels.mapIdx (fun i lvl =>
    if i = 0 then
      let n := (lvl.map List.length).sum
      if n ≥ p.l0Threshold ∧ p.l0Threshold > 0 then (n, p.l0Threshold) else (0, 1)
    else if i + 1 = v.levels.length then (0, 1)                      -- "Never score Lmax"
    else if lvl.isEmpty then (0, 1)
    else
      let sz := visibleLevelSize hidden size lvl
      let tgt := levelTargetSize10 p (i - shift)
      if sz > tgt then
        (if levelEmptyAt v (i + 1) then (9999, 100) else (sz, max tgt 1))  -- "Force a trivial move": 99.99
      else (0, 1))

/-- `max_by(partial_cmp)`: index of the LAST maximal fraction, and `score ≥ 1` -/
def scoreLevels (p : LeveledParams K) (v : Version K) (hidden : List Nat) (size : Nat → Nat) : LevelPick :=
  let needNew := needNewL1Exact p v hidden size
  let fr := scoreFractions p v hidden size needNew
  let best := (fr.mapIdx (fun i f => (i, f))).foldl
    (fun (acc : Nat × Nat × Nat) x => if x.2.1 * acc.2.2 ≥ acc.2.1 * x.2.2 then x else acc) (0, 0, 1)
  { needNewL1 := needNew, scored := if best.2.1 ≥ best.2.2 ∧ best.2.1 > 0 then some best.1 else none }

end Lsm
