import LsmModel.Tree.Version
/-
  LsmModel.Tree.Strategy — the compaction strategies whose choice is pure logic:
  drop_range (src/compaction/drop_range.rs), FIFO (src/compaction/fifo.rs), major, move-down, pull-down.
-/
namespace Lsm
variable {K : Type}

/-- `compaction::Choice` (ids as lists in ascending order) -/
inductive Choice where
  | doNothing
  | move (ids : List Nat) (dest : Nat)
  | merge (ids : List Nat) (dest : Nat)
  | drop (ids : List Nat)
deriving DecidableEq, Repr

def sortNat (l : List Nat) : List Nat := l.foldr (fun x acc => (acc.takeWhile (· < x)) ++ x :: (acc.dropWhile (· < x))) []

def dedupSorted : List Nat → List Nat
  | [] => []
  | [x] => [x]
  | x :: y :: t => if x = y then dedupSorted (y :: t) else x :: dedupSorted (y :: t)

def idSet (l : List Nat) : List Nat := dedupSorted (sortNat l)

section
variable [LT K] [DecidableLT K] [DecidableEq K]

/-- `OwnedBounds::contains(key_range)` -/
def boundsContain (lo hi : Bound K) (t : TableM K) : Bool :=
  (match lo with
   | .unb => true
   | .incl k => !decide (t.lo < k)
   | .excl k => decide (k < t.lo)) &&
  (match hi with
   | .unb => true
   | .incl k => !decide (k < t.hi)
   | .excl k => decide (t.hi < k))

/-- `Tree::range_bounds_to_owned_bounds`'s `is_empty` flag -/
def boundsInverted (lo hi : Bound K) : Bool :=
  match lo, hi with
  | .incl a, .incl b | .incl a, .excl b | .excl a, .incl b | .excl a, .excl b => decide (b < a)
  | _, _ => false

/-- `drop_range::Strategy::choose` -/
def dropRangeChoose (lo hi : Bound K) (v : Version K) (hidden : List Nat) : Choice :=
  let ids := idSet ((v.runs.map (fun r =>
      match rangeOverlapIndexes r lo hi with
      | none => []
      | some (a, b) => ((r.drop a).take (b - a + 1)).filter (boundsContain lo hi))).flatten.map (·.id))
  if ids.any (fun i => hidden.contains i) then .doNothing else .drop ids

end

/-- what FIFO looks at per L0 table -/
structure FifoTable where
  id : Nat
  createdAt : Nat        -- nanoseconds
  fileSize : Nat
  blobBytes : Nat        -- `referenced_blob_bytes`
deriving Repr

/-- stable insertion sort by `created_at` (`sort_by_key` is stable) -/
def insertByCreated (t : FifoTable) : List FifoTable → List FifoTable
  | [] => [t]
  | x :: xs => if t.createdAt < x.createdAt then t :: x :: xs else x :: insertByCreated t xs

def sortByCreated (l : List FifoTable) : List FifoTable := l.foldl (fun acc t => insertByCreated t acc) []

/-- the size-based loop: drop oldest until `collected ≥ overshoot` -/
def fifoCollect (overshoot : Nat) : Nat → List FifoTable → List Nat
  | _, [] => []
  | collected, t :: ts =>
    if collected ≥ overshoot then [] else t.id :: fifoCollect overshoot (collected + t.fileSize + t.blobBytes) ts

/-- `fifo::Strategy::choose` on the L0 tables (in level order); `dbSize = l0.size() + blob_files.on_disk_size()`,
    `now` in nanoseconds, `ttl` in seconds -/
def fifoChoose (limit : Nat) (ttl : Option Nat) (now : Nat) (dbSize : Nat) (l0 : List FifoTable) : Choice :=
  if l0.isEmpty then .doNothing
  else
    let cutoff : Option Nat := match ttl with
      | some s => if s > 0 then some (now - s * 1000000000) else none
      | none => none
    let expired := fun (t : FifoTable) => match cutoff with
      | some c => decide (t.createdAt ≤ c)
      | none => false
    let dead := l0.filter expired
    let alive := l0.filter (fun t => !expired t)
    let ttlBytes := (dead.map (fun t => t.fileSize + t.blobBytes)).foldl (· + ·) 0
    let sizeAfter := dbSize - ttlBytes
    let extra := if sizeAfter > limit then fifoCollect (sizeAfter - limit) 0 (sortByCreated alive) else []
    let ids := idSet (dead.map (·.id) ++ extra)
    if ids.isEmpty then .doNothing else .drop ids

/-- `major::Strategy::choose` -/
def majorChoose (v : Version K) (hidden : List Nat) (lastLevel : Nat) : Choice :=
  let ids := idSet v.tableIds
  if ids.any (fun i => hidden.contains i) then .doNothing else .merge ids lastLevel

/-- `movedown::Strategy::choose` -/
def moveDownChoose (v : Version K) (hidden : List Nat) (src dest : Nat) : Choice :=
  match v.levels[src]? with
  | none => .doNothing
  | some lvl =>
    let ids := lvl.flatten.map (·.id)
    if ids.any (fun i => hidden.contains i) then .doNothing else .move (idSet ids) dest

/-- `pulldown::Strategy::choose` -/
def pullDownChoose (v : Version K) (src dest : Nat) : Choice :=
  match v.levels[src]?, v.levels[dest]? with
  | some a, some b => .merge (idSet ((a.flatten ++ b.flatten).map (·.id))) dest
  | _, _ => .doNothing

end Lsm
