/-
  LsmModel.Tree.Reloc — BLOB RELOCATION during a compaction of a key-value separated tree (property C08, finding F9).

  Anchors in /repo:
    src/compaction/flavour.rs      drain_blobs, RelocatingCompaction::write   (legacy: ONE merged scanner;
                                                                               fixed: one scanner per rewritten blob file)
    src/vlog/blob_file/merge.rs    MergeScanner (k-way merge ordered by `(key, Reverse(seqno))`, seqno = the seqno STORED in the blob)
    src/vlog/blob_file/scanner.rs  Scanner (blobs of one blob file in file order)
    src/compaction/worker.rs       construction of the scanner(s) for `blob_files_to_rewrite`

  Imports nothing.  Everything is computable; structural recursion, and fuel for the k-way merge (`mergeScan`,
  the fuel is the total number of blobs, adequate by `RelocLemmas.mergeScan_length`).

  ════════════════════════════════ MODELLING NOTES ════════════════════════════════
  R1  A blob is reduced to `(key, stored seqno, offset)`: value bytes, lengths and checksums play no role in the matching.
      A blob file is the list of its blobs in FILE ORDER (what `Scanner` yields).
  R2  The compaction stream is reduced to the list of the pointers (`VPtr`) carried by its items of type *indirection*,
      in stream order (user key ascending, seqno descending).  Other items are passed to the table writer untouched.
  R3  Pass through.  `RelocatingCompaction::write` relocates a pointer only if its blob file is in `rewriting_blob_file_ids`;
      the others take the `else` branch and touch no scanner.  In the real code the key set of the scanner map IS that id set.
      Chosen modelling: `relocateFixed`/`relocateLegacy` take the pointers that are relocated; the pass-through ones are
      FILTERED OUT before by `rewritten files ptrs`, and `relocateFixedStream`/`relocateLegacyStream` are the compositions.
      In `relocateFixed` itself a pointer to a file without scanner is the `expect("rewritten blob file should have a scanner")`
      panic (`none`) — unreachable through `relocateFixedStream`.
  R4  Failure (`none`) = a panic of the compaction: `expect(… scanner is unexpectedly exhausted)` (no head after draining)
      or one of the three `assert_eq!` (file id, key, offset).  In the fixed algorithm the file-id assertion is vacuous
      (a per-file scanner tags every entry with its own file id), so `stepFixed` checks key and offset only.
      I/O errors (`Err` arm of `next_if`, `?`) abort the compaction and are out of scope.
  R5  `assert!(entry.key <= key)` inside `drain_blobs` needs an order on keys.  It is OMITTED from `stepFixed`/`stepLegacy`
      and included in `stepFixedStrict`/`relocateFixedStrict` (`[LE K] [DecidableLE K]`).  `stepFixedStrict` refines
      `stepFixed` (`RelocLemmas.stepFixedStrict_eq_some`).  The assertion is NOT excluded by the sub-sequence
      hypothesis alone (file `[(9,off 0),(7,off 1)]`, pointer `7 ↦ off 1`: the skipped blob has the larger key); it is
      excluded when additionally the keys of each file are non-decreasing in file order (`KeysSorted`, true for every
      blob file the code writes: flush, compaction and ingestion write in key order) — `c08r_fixedStrict_matches_all`.
      For the legacy algorithm the omission only removes failures: `relocateLegacy = none` is a failure of the real code
      whether or not the assertion fires first (in the F9 instance it is in fact this assertion that fires).
  R6  Legacy merge.  `MergeScanner` keeps the current head of every non-exhausted reader in an `IntervalHeap` and pops the
      minimum by `(key, Reverse(stored seqno))`; `IteratorValue::cmp` ignores file id and offset.  `pickMin` is that pop.
      TIE RULE (heads equal in key and stored seqno): the reader that comes FIRST in `files` wins.  The real heap's order
      among equal elements is unspecified; nothing proved here depends on the rule except the literal value of `mergeScan`
      (the counterexample has no tie).
  R7  Scanner map.  `Scanners K = List (Nat × BlobFile K)`, read with `getS` (first entry with the id) and written with
      `setS` (replaces the first entry with the id).  For distinct ids this is a finite map, as `HashMap<BlobFileId, _>`.
-/
namespace Lsm.Reloc

/-- One blob of a blob file: user key, the seqno STORED in the blob, offset in the file. -/
structure BlobE (K : Type) where
  key : K
  seqno : Nat
  off : Nat
deriving DecidableEq, Repr

/-- A blob file = its blobs in file order (offsets strictly increasing). -/
abbrev BlobFile (K : Type) := List (BlobE K)

/-- A pointer (`BlobIndirection`) emitted by the compaction stream: user key of the item, blob file id, offset. -/
structure VPtr (K : Type) where
  key : K
  file : Nat
  off : Nat
deriving DecidableEq, Repr

/-- file id ↦ remaining content of its scanner. -/
abbrev Scanners (K : Type) := List (Nat × BlobFile K)

variable {K : Type}

/-- The `next_if` predicate of `drain_blobs` (`Ok` arm): the entry is consumed iff it has another key, another file,
    or a smaller offset than the pointer. -/
def skipPred [DecidableEq K] (p : VPtr K) (file : Nat) (e : BlobE K) : Bool :=
  (!decide (e.key = p.key)) || (!decide (file = p.file)) || decide (e.off < p.off)

/-- `HashMap::get`. -/
def getS : Scanners K → Nat → Option (BlobFile K)
  | [], _ => none
  | (g, s) :: r, f => if g = f then some s else getS r f

/-- Replace the content of scanner `f` (the scanner advanced). -/
def setS : Scanners K → Nat → BlobFile K → Scanners K
  | [], _, _ => []
  | (g, s) :: r, f, s' => if g = f then (g, s') :: r else (g, s) :: setS r f s'

/-! ## fixed algorithm: one scanner per rewritten blob file -/

/-- One relocated pointer: `get_mut(..).expect`, `drain_blobs`, `next().expect`, `assert_eq!` ×2. -/
def stepFixed [DecidableEq K] (st : Scanners K) (p : VPtr K) : Option (BlobE K × Scanners K) :=
  match getS st p.file with
  | none => none
  | some s =>
    match s.dropWhile (skipPred p p.file) with
    | [] => none
    | e :: rest => if e.key = p.key ∧ e.off = p.off then some (e, setS st p.file rest) else none

/-- All relocated pointers in stream order; the matched blobs in pointer order. -/
def relocateFixed [DecidableEq K] : Scanners K → List (VPtr K) → Option (List (BlobE K))
  | _, [] => some []
  | st, p :: ps =>
    match stepFixed st p with
    | none => none
    | some (e, st') => (relocateFixed st' ps).map (e :: ·)

/-- The pointers that are relocated (their file is rewritten); the others are passed through (R3). -/
def rewritten (files : Scanners K) (ptrs : List (VPtr K)) : List (VPtr K) :=
  ptrs.filter fun p => (getS files p.file).isSome

/-- The whole stream: pass-through pointers filtered out. -/
def relocateFixedStream [DecidableEq K] (files : Scanners K) (ptrs : List (VPtr K)) : Option (List (BlobE K)) :=
  relocateFixed files (rewritten files ptrs)

/-- `stepFixed` with `assert!(entry.key <= key)` on every drained entry (R5). -/
def stepFixedStrict [DecidableEq K] [LE K] [DecidableLE K] (st : Scanners K) (p : VPtr K) :
    Option (BlobE K × Scanners K) :=
  match getS st p.file with
  | none => none
  | some s =>
    if (s.takeWhile (skipPred p p.file)).all (fun e => decide (e.key ≤ p.key)) then
      match s.dropWhile (skipPred p p.file) with
      | [] => none
      | e :: rest => if e.key = p.key ∧ e.off = p.off then some (e, setS st p.file rest) else none
    else none

def relocateFixedStrict [DecidableEq K] [LE K] [DecidableLE K] :
    Scanners K → List (VPtr K) → Option (List (BlobE K))
  | _, [] => some []
  | st, p :: ps =>
    match stepFixedStrict st p with
    | none => none
    | some (e, st') => (relocateFixedStrict st' ps).map (e :: ·)

/-! ## legacy algorithm: one merged scanner over all rewritten blob files -/

/-- `IteratorValue::cmp` strict less: `(key, Reverse(stored seqno))`. -/
def headLt [DecidableEq K] [LT K] [DecidableLT K] (a b : BlobE K) : Bool :=
  decide (a.key < b.key) || (decide (a.key = b.key) && decide (b.seqno < a.seqno))

/-- `pop_min` + `advance_reader`: the least head (ties: first reader in list order, R6), its file id, the readers after. -/
def pickMin [DecidableEq K] [LT K] [DecidableLT K] : Scanners K → Option (BlobE K × Nat × Scanners K)
  | [] => none
  | (f, []) :: r =>
    match pickMin r with
    | none => none
    | some (e, g, r') => some (e, g, (f, []) :: r')
  | (f, e :: t) :: r =>
    match pickMin r with
    | none => some (e, f, (f, t) :: r)
    | some (e', g, r') => if headLt e' e then some (e', g, (f, e :: t) :: r') else some (e, f, (f, t) :: r)

def mergeFuel [DecidableEq K] [LT K] [DecidableLT K] : Nat → Scanners K → List (BlobE K × Nat)
  | 0, _ => []
  | n + 1, st =>
    match pickMin st with
    | none => []
    | some (e, f, st') => (e, f) :: mergeFuel n st'

/-- Total number of blobs left in the scanners. -/
def total : Scanners K → Nat
  | [] => 0
  | (_, s) :: r => s.length + total r

/-- `MergeScanner` over all files: `(entry, blob_file_id)` pairs in merged order. -/
def mergeScan [DecidableEq K] [LT K] [DecidableLT K] (files : Scanners K) : List (BlobE K × Nat) :=
  mergeFuel (total files) files

/-- One relocated pointer on the merged scanner: `drain_blobs`, `next().expect`, `assert_eq!` ×3. -/
def stepLegacy [DecidableEq K] (m : List (BlobE K × Nat)) (p : VPtr K) :
    Option (BlobE K × List (BlobE K × Nat)) :=
  match m.dropWhile (fun x => skipPred p x.2 x.1) with
  | [] => none
  | (e, g) :: rest => if g = p.file ∧ e.key = p.key ∧ e.off = p.off then some (e, rest) else none

def relocateMerged [DecidableEq K] : List (BlobE K × Nat) → List (VPtr K) → Option (List (BlobE K))
  | _, [] => some []
  | m, p :: ps =>
    match stepLegacy m p with
    | none => none
    | some (e, m') => (relocateMerged m' ps).map (e :: ·)

def relocateLegacy [DecidableEq K] [LT K] [DecidableLT K] (files : Scanners K) (ptrs : List (VPtr K)) :
    Option (List (BlobE K)) :=
  relocateMerged (mergeScan files) ptrs

def relocateLegacyStream [DecidableEq K] [LT K] [DecidableLT K] (files : Scanners K) (ptrs : List (VPtr K)) :
    Option (List (BlobE K)) :=
  relocateLegacy files (rewritten files ptrs)

/-! ## vocabulary of the statements -/

/-- What identifies the target of a pointer inside its file / a blob inside its file. -/
def VPtr.kv (p : VPtr K) : K × Nat := (p.key, p.off)
def BlobE.kv (e : BlobE K) : K × Nat := (e.key, e.off)

/-- Pointwise relation of two lists of equal length (core has no `List.Forall₂`). -/
def AllPairs {α β : Type} (R : α → β → Prop) : List α → List β → Prop
  | [], [] => True
  | a :: as, b :: bs => R a b ∧ AllPairs R as bs
  | _, _ => False

/-- Offsets strictly increasing in file order. -/
def OffsetsIncreasing (s : BlobFile K) : Prop := s.Pairwise (fun a b => a.off < b.off)

/-- Keys non-decreasing in file order (R5). -/
def KeysSorted [LE K] (s : BlobFile K) : Prop := s.Pairwise (fun a b => a.key ≤ b.key)

/-- Distinct file ids. -/
def DistinctIds (files : Scanners K) : Prop := (files.map (·.1)).Pairwise (· ≠ ·)

/-- The pointers into file `f`, in stream order, hit a sub-sequence of the file. -/
def PtrsFollowFile (ptrs : List (VPtr K)) (f : Nat) (file : BlobFile K) : Prop :=
  List.Sublist ((ptrs.filter (fun p => decide (p.file = f))).map VPtr.kv) (file.map BlobE.kv)

end Lsm.Reloc
