import LsmModel.Table.Frame
/-
  LsmModel.Tree.Manifest — the MANIFEST CODEC: the payloads of the sections "tables", "blob_files" and
  "blob_gc_stats" of a version file `v<N>` (properties C04 / C07).

  Anchors in /repo:
    src/version/mod.rs          Version::encode_into   (writer of all sections, lines 623-713)
    src/version/recovery.rs     recover                (reader of "tables", "blob_files", "blob_gc_stats", "tree_type")
    src/blob_tree/gc.rs         FragmentationMap::{encode_into, decode_from}
    src/version/blob_file_list.rs   BlobFileList = HashMap<BlobFileId, BlobFile>   (iteration order arbitrary)
    src/version/persist.rs      persist_version        (sfa archive around the sections; `current` file)
    src/tree/mod.rs             recover_levels / Version::from_recovery (what is done with the decoded lists)

  Imports only `LsmModel.Table.Frame` (for `Bytes`, `leBytes`, `leNat`); structural recursion only.

  ════════════════════════════════ MODELLING NOTES ════════════════════════════════
  M1  A section payload is a `List UInt8`.  The sfa container (section table, trailer) and the whole-file checksum kept in
      `current` are not modelled here (the latter is `Frame.encodeCurrent` / `Frame.recoverVersionIdNow`, property C10).
      A section reader is `file.take(section.len)`: the decoder sees exactly the payload and then end-of-file.
  M2  Integers are little endian and fixed width; the writer casts with `as` (reduction modulo 256^w): `leBytes`.
      Round trip therefore needs the width bounds (`TableRef.Bounded` …), which the code guarantees by construction
      (ids/seqnos are `u64`, checksums `u128`, `level_count` is 7, run and table counts "always less than" the width).
  M3  The readers do NOT require that the section ends after the last item: `decode…Prefix` returns the unread rest,
      exactly like the code leaves it unread.  `decodeTables`/`decodeBlobs`/`decodeFrag` are the strict forms
      (rest = []), which is what holds for every section the writer produces (`ManifestLemmas`).
  M4  A read past the end is `Io(UnexpectedEof)`, a checksum type byte ≠ 0 is `InvalidTag("ChecksumType")`; both are `none` here
      (the driver distinguishes nothing, the harness only checks accept/reject).
  M5  The "tables" section keeps the ORDER of levels, of runs in a level and of tables in a run: it is a list of lists of
      lists.  "blob_files" and "blob_gc_stats" are written by iterating a `HashMap` (`BlobFileList`, `FragmentationMap`):
      the file order is arbitrary, so the sections are modelled as LISTS in file order, and what recovery builds from
      them is a finite map.  Equality of two images is therefore "same levels, same maps" (`VersionImage.Equiv`); for
      duplicate-free lists that is permutation (`ManifestLemmas.lastWins_perm`).
        * gc statistics: `decode_from` does `HashMap::insert` per record, so a later record with the same id replaces an
          earlier one: `fragMap = lastWins`.  The map is handed to the version as it is (no pruning at recovery: ids
          without a blob file stay).
        * blob files: `recover` sorts the records by id (stable); `recover_blob_files` walks the blobs folder, takes the
          FIRST record with the id of each file and fails with `Unrecoverable` if it found fewer files than records
          (`blob_files.len() < ids.len()`).  Hence a record list with a repeated id decodes but is never recovered
          (`blobIdsDistinct`), and for the lists that are recovered first and last coincide: `blobMap = lastWins` is
          only meaningful under `blobIdsDistinct`.  (A standard tree has no blobs folder: the section is then ignored.)
  M6  Table ids occurring twice: `recover_levels` collects (level, checksum, global seqno) per id in a `HashMap` (last
      record wins) and `from_recovery` places the one recovered `Table` at every position that names the id.  The list
      structure of ids is what `decodeTables` says; checksum / global seqno of all but the last duplicate are not.
      The writer never produces duplicates.
  M7  An empty run (`table_count = 0`) DECODES fine; `Version::from_recovery` then panics
      (`Run::new(..).expect("persisted runs should not be empty")`).  The codec model accepts it, `VersionImage.WellFormed`
      states the extra condition.
  M8  The level count of "tables" is trusted by `recover` (a payload with 6 or 8 levels opens as a tree with 6 or 8
      levels); the separate one-byte section "level_count" is what `Manifest::decode_from` asserts to be 7.
  M9  `recover` reserves `Vec::with_capacity(blob_file_count)` and `decode_from` `HashMap::with_capacity(len)` BEFORE reading
      the records; the model has no notion of allocation (a count of 2^32-1 on a short payload is simply `none`).
  ═════════════════════════════════════════════════════════════════════════════════
-/
namespace Lsm.Manifest
open Lsm.Frame (Bytes leBytes leNat)

/-- one table record of the "tables" section -/
structure TableRef where
  id : Nat
  checksum : Nat
  gseq : Nat
deriving DecidableEq, Repr, Inhabited

/-- one record of the "blob_files" section -/
structure BlobRef where
  id : Nat
  checksum : Nat
deriving DecidableEq, Repr, Inhabited

/-- one record of the "blob_gc_stats" section (`FragmentationEntry` keyed by blob file id) -/
structure FragEntry where
  id : Nat
  len : Nat
  bytes : Nat
  onDisk : Nat
deriving DecidableEq, Repr, Inhabited

abbrev RunRefs := List TableRef
abbrev LevelRefs := List RunRefs
abbrev Levels := List LevelRefs

/-- what one version file says about the structure of the tree -/
structure VersionImage where
  levels : Levels
  blobs : List BlobRef
  frag : List FragEntry
deriving DecidableEq, Repr, Inhabited

/-! ## width bounds (MODELLING NOTE M2) -/

def TableRef.Bounded (t : TableRef) : Prop := t.id < 2 ^ 64 ∧ t.checksum < 2 ^ 128 ∧ t.gseq < 2 ^ 64
def BlobRef.Bounded (b : BlobRef) : Prop := b.id < 2 ^ 64 ∧ b.checksum < 2 ^ 128
def FragEntry.Bounded (e : FragEntry) : Prop := e.id < 2 ^ 64 ∧ e.len < 2 ^ 32 ∧ e.bytes < 2 ^ 64 ∧ e.onDisk < 2 ^ 64

def RunBounded (r : RunRefs) : Prop := r.length < 2 ^ 32 ∧ ∀ t ∈ r, t.Bounded
def LevelBounded (l : LevelRefs) : Prop := l.length < 256 ∧ ∀ r ∈ l, RunBounded r
def LevelsBounded (lv : Levels) : Prop := lv.length < 256 ∧ ∀ l ∈ lv, LevelBounded l
def BlobsBounded (l : List BlobRef) : Prop := l.length < 2 ^ 32 ∧ ∀ b ∈ l, b.Bounded
def FragBounded (l : List FragEntry) : Prop := l.length < 2 ^ 32 ∧ ∀ e ∈ l, e.Bounded

def VersionImage.Bounded (v : VersionImage) : Prop :=
  LevelsBounded v.levels ∧ BlobsBounded v.blobs ∧ FragBounded v.frag

/-- no blob file id twice (what `recover_blob_files` needs, M5); executable form: `blobIdsDistinct` -/
def BlobIdsDistinct (l : List BlobRef) : Prop := l.Pairwise (fun a b => a.id ≠ b.id)

/-- what `recover_levels` / `Version::from_recovery` need beyond decodability (M5, M7) -/
def VersionImage.WellFormed (v : VersionImage) : Prop :=
  (∀ l ∈ v.levels, ∀ r ∈ l, r ≠ []) ∧ BlobIdsDistinct v.blobs

/-! ## readers -/

/-- `read_uN::<LE>` with `w = N/8`: `none` = `UnexpectedEof` -/
def readLE (w : Nat) (bs : Bytes) : Option (Nat × Bytes) :=
  if bs.length < w then none else some (leNat (bs.take w), bs.drop w)

/-- `for _ in 0..n { items.push(dec(reader)?) }` -/
def decodeN {α : Type} (dec : Bytes → Option (α × Bytes)) : Nat → Bytes → Option (List α × Bytes)
  | 0, bs => some ([], bs)
  | n + 1, bs =>
    match dec bs with
    | none => none
    | some (x, r) =>
      match decodeN dec n r with
      | none => none
      | some (xs, r') => some (x :: xs, r')

/-- the checksum type byte: only 0 (= XXH3) is accepted -/
def readChecksumType (bs : Bytes) : Option Bytes :=
  match readLE 1 bs with
  | none => none
  | some (ct, r) => if ct = 0 then some r else none

/-! ## "tables" -/

/-- mod.rs:685-688 -/
def encodeTable (t : TableRef) : Bytes :=
  leBytes 8 t.id ++ ([0] ++ (leBytes 16 t.checksum ++ leBytes 8 t.gseq))

/-- recovery.rs:92-109 -/
def decodeTable (bs : Bytes) : Option (TableRef × Bytes) :=
  match readLE 8 bs with
  | none => none
  | some (id, r1) =>
    match readChecksumType r1 with
    | none => none
    | some r2 =>
      match readLE 16 r2 with
      | none => none
      | some (ck, r3) =>
        match readLE 8 r3 with
        | none => none
        | some (g, r4) => some ({ id := id, checksum := ck, gseq := g }, r4)

/-- mod.rs:681-689 -/
def encodeRun (r : RunRefs) : Bytes := leBytes 4 r.length ++ r.flatMap encodeTable

/-- recovery.rs:87-112 -/
def decodeRun (bs : Bytes) : Option (RunRefs × Bytes) :=
  match readLE 4 bs with
  | none => none
  | some (n, r) => decodeN decodeTable n r

/-- mod.rs:673-690 -/
def encodeLevel (l : LevelRefs) : Bytes := leBytes 1 l.length ++ l.flatMap encodeRun

/-- recovery.rs:83-115 -/
def decodeLevel (bs : Bytes) : Option (LevelRefs × Bytes) :=
  match readLE 1 bs with
  | none => none
  | some (n, r) => decodeN decodeRun n r

/-- the payload of section "tables" (mod.rs:658-691) -/
def encodeTables (lv : Levels) : Bytes := leBytes 1 lv.length ++ lv.flatMap encodeLevel

/-- what `recover` reads from section "tables", and the bytes it leaves unread (recovery.rs:81-116) -/
def decodeTablesPrefix (bs : Bytes) : Option (Levels × Bytes) :=
  match readLE 1 bs with
  | none => none
  | some (n, r) => decodeN decodeLevel n r

/-- strict form: the section is consumed exactly -/
def decodeTables (bs : Bytes) : Option Levels :=
  match decodeTablesPrefix bs with
  | some (lv, []) => some lv
  | _ => none

/-! ## "blob_files" -/

/-- mod.rs:703-705 -/
def encodeBlob (b : BlobRef) : Bytes := leBytes 8 b.id ++ ([0] ++ leBytes 16 b.checksum)

/-- recovery.rs:131-143 -/
def decodeBlob (bs : Bytes) : Option (BlobRef × Bytes) :=
  match readLE 8 bs with
  | none => none
  | some (id, r1) =>
    match readChecksumType r1 with
    | none => none
    | some r2 =>
      match readLE 16 r2 with
      | none => none
      | some (ck, r3) => some ({ id := id, checksum := ck }, r3)

/-- the payload of section "blob_files" in file order (mod.rs:693-706) -/
def encodeBlobs (l : List BlobRef) : Bytes := leBytes 4 l.length ++ l.flatMap encodeBlob

def decodeBlobsPrefix (bs : Bytes) : Option (List BlobRef × Bytes) :=
  match readLE 4 bs with
  | none => none
  | some (n, r) => decodeN decodeBlob n r

def decodeBlobs (bs : Bytes) : Option (List BlobRef) :=
  match decodeBlobsPrefix bs with
  | some (l, []) => some l
  | _ => none

/-! ## "blob_gc_stats" -/

/-- gc.rs:95-105 -/
def encodeFragEntry (e : FragEntry) : Bytes :=
  leBytes 8 e.id ++ (leBytes 4 e.len ++ (leBytes 8 e.bytes ++ leBytes 8 e.onDisk))

/-- gc.rs:124-127 -/
def decodeFragEntry (bs : Bytes) : Option (FragEntry × Bytes) :=
  match readLE 8 bs with
  | none => none
  | some (id, r1) =>
    match readLE 4 r1 with
    | none => none
    | some (len, r2) =>
      match readLE 8 r2 with
      | none => none
      | some (b, r3) =>
        match readLE 8 r3 with
        | none => none
        | some (d, r4) => some ({ id := id, len := len, bytes := b, onDisk := d }, r4)

/-- the payload of section "blob_gc_stats" in file order (`FragmentationMap::encode_into`) -/
def encodeFrag (l : List FragEntry) : Bytes := leBytes 4 l.length ++ l.flatMap encodeFragEntry

def decodeFragPrefix (bs : Bytes) : Option (List FragEntry × Bytes) :=
  match readLE 4 bs with
  | none => none
  | some (n, r) => decodeN decodeFragEntry n r

def decodeFrag (bs : Bytes) : Option (List FragEntry) :=
  match decodeFragPrefix bs with
  | some (l, []) => some l
  | _ => none

/-! ## whole image -/

/-- the three structural section payloads of a version file -/
structure Sections where
  tables : Bytes
  blobFiles : Bytes
  gcStats : Bytes
deriving DecidableEq, Repr

def encodeImage (v : VersionImage) : Sections :=
  { tables := encodeTables v.levels, blobFiles := encodeBlobs v.blobs, gcStats := encodeFrag v.frag }

def decodeImage (s : Sections) : Option VersionImage :=
  match decodeTables s.tables, decodeBlobs s.blobFiles, decodeFrag s.gcStats with
  | some lv, some b, some f => some { levels := lv, blobs := b, frag := f }
  | _, _, _ => none

/-- section "level_count" (mod.rs:644-649); `Manifest::decode_from` asserts it to be 7 -/
def levelCountSection (v : VersionImage) : Bytes := leBytes 1 v.levels.length

/-! ## the maps recovery builds (MODELLING NOTE M5) -/

/-- `HashMap::insert` for every record in file order: a later record replaces an earlier one with the same key -/
def lastWins {α : Type} (key : α → Nat) (l : List α) : Nat → Option α :=
  l.foldl (fun m e => fun i => if i = key e then some e else m i) (fun _ => none)

/-- `Recovery::gc_stats` as a finite map -/
def fragMap (l : List FragEntry) : Nat → Option FragEntry := lastWins (·.id) l

/-- the blob file records by id (meaningful under `blobIdsDistinct`, see M5) -/
def blobMap (l : List BlobRef) : Nat → Option BlobRef := lastWins (·.id) l

/-- what `recover_blob_files` needs beyond decodability: one blob file per record, i.e. no id twice (M5) -/
def blobIdsDistinct : List BlobRef → Bool
  | [] => true
  | b :: r => !(r.any (fun x => x.id == b.id)) && blobIdsDistinct r

/-- two images describe the same version: same level structure (ORDER matters), same blob file map, same gc map -/
def VersionImage.Equiv (a b : VersionImage) : Prop :=
  a.levels = b.levels ∧ (∀ i, blobMap a.blobs i = blobMap b.blobs i) ∧ (∀ i, fragMap a.frag i = fragMap b.frag i)

end Lsm.Manifest
