import LsmModel.Tree.Super
import LsmModel.Tree.Strategy
import LsmModel.Stream.Compaction
import LsmModel.Stream.Merge
import LsmModel.Stream.Mvcc
/-
  LsmModel.Tree.Ops — the tree as a state machine (src/tree/mod.rs, src/abstract_tree.rs, src/compaction/worker.rs,
  src/tree/ingest.rs). One function per critical section of the real code; coarse API calls are compositions.

  Observed inputs (not predicted, constrained by predicates): fresh table / memtable ids, where the multi-writer
  cuts its output into tables, and — for size-scored strategies — the strategy's choice.
-/
namespace Lsm
variable {K : Type}

structure TreeState (K : Type) where
  hist : History K                       -- oldest first, never empty
  mems : List (MemtableM K)              -- every memtable some history entry references
  seqCtr : Nat                           -- `config.seqno` (next value handed out)
  visible : Nat                          -- `config.visible_seqno`
  levelCount : Nat := 7
  blobTh : Option Nat := none            -- `KvSeparationOptions::separation_threshold` of a key-value-separated tree
deriving Repr

/-- `TreeInner::create_new` -/
def TreeState.init (levelCount : Nat := 7) (blobTh : Option Nat := none) : TreeState K :=
  { hist := [{ active := 0, sealed := [], version := Version.empty 0 levelCount, seqno := 0 }],
    mems := [{ id := 0, entries := [] }], seqCtr := 0, visible := 0, levelCount := levelCount, blobTh := blobTh }

/-- key-value separation at write-out time (`BlobTree::flush_to_tables`, blob ingestion, filter `handle_write`):
    a value of at least `threshold` bytes is stored as an indirection. At this level an indirection carries the
    bytes it resolves to; that it really does is what the correspondence check validates on every table entry. -/
def separate (th : Option Nat) (e : Entry K) : Entry K :=
  match th with
  | some n => if e.vt = .value ∧ n ≤ e.val.length then { e with vt := .indir } else e
  | none => e

def TreeState.mem (t : TreeState K) (id : Nat) : List (Entry K) :=
  match t.mems.find? (fun m => m.id == id) with
  | some m => m.entries
  | none => []

def TreeState.latest? (t : TreeState K) : Option (SuperVersion K) := t.hist.getLast?

/-- replace the newest history entry (`replace_latest_version`) -/
def replaceLatest (h : History K) (sv : SuperVersion K) : History K :=
  match h.reverse with
  | [] => []
  | _ :: r => (sv :: r).reverse

/-- drop memtables nobody references any more (pure garbage collection of the model state) -/
def TreeState.gcMems (t : TreeState K) : TreeState K :=
  let used := t.hist.flatMap (fun sv => sv.active :: sv.sealed)
  { t with mems := t.mems.filter (fun m => used.contains m.id) }

section
variable [LT K] [DecidableLT K] [DecidableEq K]

/-- cut a stream into consecutive tables of the observed sizes; the recorded key range is first/last key
    (`Writer`: first key at first write, last key at spill/finish) -/
def cutTables : List (Nat × Nat) → List (Entry K) → Nat → Option (List (TableM K))
  | [], [], _ => some []
  | [], _ :: _, _ => none
  | (id, n) :: rest, l, g =>
    if n = 0 then none else
    let chunk := l.take n
    match chunk.head?, chunk.getLast? with
    | some f, some la =>
      if chunk.length = n then
        match cutTables rest (l.drop n) g with
        | some ts => some ({ id := id, lo := f.key, hi := la.key, entries := chunk, gseq := g } :: ts)
        | none => none
      else none
    | _, _ => none

/-- the multi-writer only rotates between distinct user keys (`is_next_key` guard in `MultiWriter::write`) -/
def cutsBetweenKeys : List (TableM K) → Bool
  | [] => true
  | [_] => true
  | a :: b :: rest => decide (a.hi ≠ b.lo) && cutsBetweenKeys (b :: rest)

/-- one append to the active memtable (`append_entry`); a batch is several of these with one seqno -/
def TreeState.write (t : TreeState K) (es : List (Entry K)) : Option (TreeState K) :=
  match t.latest? with
  | none => none
  | some sv =>
    -- P1: the seqno was drawn from the shared counter
    if es.all (fun e => e.seqno == t.seqCtr) then
      some { t with
        mems := t.mems.map (fun m => if m.id == sv.active then { m with entries := es.foldl (fun acc e => memInsert e acc) m.entries } else m),
        seqCtr := t.seqCtr + 1,
        visible := max t.visible (t.seqCtr + 1) }
    else none

/-- `rotate_memtable` -/
def TreeState.rotate (t : TreeState K) (newMemId : Nat) : TreeState K :=
  match t.latest? with
  | none => t
  | some sv =>
    if (t.mem sv.active).isEmpty then t
    else
      { t with
        hist := replaceLatest t.hist { sv with active := newMemId, sealed := sv.sealed ++ [sv.active] },
        mems := t.mems ++ [{ id := newMemId, entries := [] }] }

/-- `upgrade_version`: seqno from the shared counter, append, publish, then `maintenance wm` -/
def TreeState.install (t : TreeState K) (sv : SuperVersion K) (wm : Nat) : TreeState K :=
  let s := t.seqCtr
  let h := t.hist ++ [{ sv with seqno := s }]
  let t' := { t with hist := (maintenance h wm).1, seqCtr := s + 1, visible := max t.visible (s + 1) }
  t'.gcMems

/-- the stream a flush writes: all sealed memtables merged, GC'd with the watermark, no eviction, no filter -/
def TreeState.flushStream (t : TreeState K) (sv : SuperVersion K) (wm : Nat) : List (Entry K) × List (Entry K) :=
  cstream wm false noFilter (mergeAll (sv.sealed.map t.mem))

/-- `AbstractTree::flush` (sealed memtables → one new L0 run), with observed output cuts -/
def TreeState.flushSealed (t : TreeState K) (wm : Nat) (cuts : List (Nat × Nat)) (sep : Bool := true) :
    Option (TreeState K) :=
  match t.latest? with
  | none => none
  | some sv =>
    if sv.sealed.isEmpty then (if cuts.isEmpty then some t else none)
    else
      -- NOTE: blob ingestion flushes through the index tree's own `flush` (no key-value separation): `sep = false`
      match cutTables cuts ((t.flushStream sv wm).1.map (separate (if sep then t.blobTh else none))) 0 with
      | none => none
      | some tables =>
        some (t.install { sv with version := sv.version.withNewL0Run tables, sealed := [] } wm)

/-- `register_tables` of a flush that ran CONCURRENTLY with other operations: the flusher had snapshotted the sealed
    memtables `ids` (always the oldest ones), wrote their merged stream to tables without holding a lock, and now
    commits on the CURRENT state. If one of the snapshotted memtables is gone (fjall#287 race) the result is discarded.
    Memtables sealed after the snapshot stay sealed. -/
def TreeState.flushCommit (t : TreeState K) (ids : List Nat) (wm : Nat) (cuts : List (Nat × Nat)) : Option (TreeState K) :=
  match t.latest? with
  | none => none
  | some sv =>
    if ids.isEmpty then none
    else if !(ids.all (fun i => sv.sealed.contains i)) then some t
    else
      let stream := (cstream wm false noFilter (mergeAll (ids.map t.mem))).1
      match cutTables cuts (stream.map (separate t.blobTh)) 0 with
      | none => none
      | some tables =>
        some (t.install { sv with version := sv.version.withNewL0Run tables,
                                  sealed := sv.sealed.filter (fun i => !ids.contains i) } wm)

/-- effective entries of the tables with the given ids, merged as `create_compaction_stream` does -/
def mergeInputs (v : Version K) (ids : List Nat) : List (Entry K) :=
  mergeAll (v.runs.map (fun r => (r.filter (fun t => ids.contains t.id)).flatMap (·.entries)))

/-- `merge_tables`: GC stream over the inputs, output cut into tables, `with_merge` on the CURRENT version -/
def TreeState.mergeCommit (t : TreeState K) (ids : List Nat) (dest : Nat) (wm : Nat) (f : Entry K → Verdict)
    (cuts : List (Nat × Nat)) : Option (TreeState K) :=
  match t.latest? with
  | none => none
  | some sv =>
    let evict := dest + 1 == t.levelCount
    match cutTables cuts (cstream wm evict f (mergeInputs sv.version ids)).1 0 with
    | none => none
    | some tables => some (t.install { sv with version := sv.version.withMerge ids tables dest } wm)

/-- `move_tables` -/
def TreeState.moveCommit (t : TreeState K) (ids : List Nat) (dest : Nat) (wm : Nat) : Option (TreeState K) :=
  t.latest?.map (fun sv => t.install { sv with version := sv.version.withMoved ids dest } wm)

/-- `drop_tables` (maintenance watermark as passed to `compact`) -/
def TreeState.dropCommit (t : TreeState K) (ids : List Nat) (wm : Nat) : Option (TreeState K) :=
  t.latest?.map (fun sv => t.install { sv with version := sv.version.withDropped ids } wm)

/-- `Tree::clear` -/
def TreeState.clear (t : TreeState K) (newMemId : Nat) : Option (TreeState K) :=
  t.latest?.map (fun sv =>
    let t' : TreeState K := { t with mems := t.mems ++ [({ id := newMemId, entries := [] } : MemtableM K)] }
    t'.install { active := newMemId, sealed := [], version := Version.empty (sv.version.id + 1) t.levelCount, seqno := 0 } 0)

/-- `Ingestion::finish` after its internal rotate + flush(0): allocate `g`, tables carry global seqno `g`
    (entries are stored here with their EFFECTIVE seqno `local + g`), version seqno `g` -/
def TreeState.ingestCommit (t : TreeState K) (items : List (Entry K)) (cuts : List (Nat × Nat)) : Option (TreeState K) :=
  match t.latest? with
  | none => none
  | some sv =>
    let g := t.seqCtr
    match cutTables cuts (items.map (fun (e : Entry K) => separate t.blobTh { e with seqno := e.seqno + g })) g with
    | none => none
    | some tables => some (t.install { sv with version := sv.version.withNewL0Run tables } 0)

/-- drop + reopen: memtables are gone, history restarts from the recovered version with seqno 0 -/
def TreeState.reopen (t : TreeState K) : Option (TreeState K) :=
  t.latest?.map (fun sv =>
    { t with hist := [{ active := 0, sealed := [], version := sv.version, seqno := 0 }],
             mems := [{ id := 0, entries := [] }] })


/-! ### operations as data: histories are lists of `Op` -/

/-- one state-changing call of the API, with its observed decisions -/
inductive Op (K : Type) where
  | write (es : List (Entry K))
  | rotate (newMem : Nat)
  | flush (wm : Nat) (newMem : Nat) (cuts : List (Nat × Nat))
  | flushCommit (ids : List Nat) (wm : Nat) (cuts : List (Nat × Nat))
  | merge (ids : List Nat) (dest : Nat) (wm : Nat) (f : Entry K → Verdict) (cuts : List (Nat × Nat))
  | move (ids : List Nat) (dest : Nat) (wm : Nat)
  | drop (ids : List Nat) (wm : Nat)
  | clear (newMem : Nat)
  | ingest (newMem : Nat) (fcuts : List (Nat × Nat)) (items : List (Entry K)) (cuts : List (Nat × Nat))
  | reopen

/-- the GC watermark an operation passes to `maintenance` -/
def Op.watermark : Op K → Nat
  | .flush wm _ _ => wm
  | .flushCommit _ wm _ => wm
  | .merge _ _ wm _ _ => wm
  | .move _ _ wm => wm
  | .drop _ wm => wm
  | _ => 0

/-- a memtable id is fresh if no memtable of the state carries it (ids come from a counter in the real code) -/
def TreeState.freshMem (t : TreeState K) (id : Nat) : Bool := !(t.mems.any (fun m => m.id == id))

/-- `none` = the model rejects the operation (a precondition or an observed decision is inconsistent) -/
def TreeState.applyOp (t : TreeState K) : Op K → Option (TreeState K)
  | .write es => t.write es
  | .rotate m => if t.freshMem m then some (t.rotate m) else none
  | .flush wm m cuts => if t.freshMem m then (t.rotate m).flushSealed wm cuts else none
  | .flushCommit ids wm cuts => t.flushCommit ids wm cuts
  | .merge ids dest wm f cuts => t.mergeCommit ids dest wm f cuts
  | .move ids dest wm => t.moveCommit ids dest wm
  | .drop ids wm => t.dropCommit ids wm
  | .clear m => if t.freshMem m then t.clear m else none
  | .ingest m fcuts items cuts =>
    if t.freshMem m then
      match (t.rotate m).flushSealed 0 fcuts false with
      | some t1 => t1.ingestCommit items cuts
      | none => none
    else none
  | .reopen => t.reopen

/-- run a history -/
def TreeState.run (t : TreeState K) : List (Op K) → Option (TreeState K)
  | [] => some t
  | op :: ops => match t.applyOp op with
    | some t' => t'.run ops
    | none => none

/-! ### reads -/

/-- `Table::get` + `point_read` at table granularity (effective seqnos) -/
def tableGet (tb : TableM K) (k : K) (S : Nat) : Option (Entry K) := newest tb.entries k S

/-- `get_internal_entry_from_tables`: first hit over the runs in level order, one candidate table per run -/
def versionGet (v : Version K) (k : K) (S : Nat) : Option (Entry K) :=
  v.runs.findSome? (fun r => match getForKey r k with
    | some tb => tableGet tb k S
    | none => none)

/-- `get_internal_entry_from_version` -/
def TreeState.svGet (t : TreeState K) (sv : SuperVersion K) (k : K) (S : Nat) : Option (Entry K) :=
  match memGet (t.mem sv.active) k S with
  | some e => live (some e)
  | none =>
    match sv.sealed.reverse.findSome? (fun id => memGet (t.mem id) k S) with
    | some e => live (some e)
    | none => live (versionGet sv.version k S)

/-- `Tree::get` at snapshot `S` (`none` in the outer option = the real code would panic: no super version) -/
def TreeState.getAt (t : TreeState K) (k : K) (S : Nat) : Option (Option (Entry K)) :=
  (getVersionForSnapshot t.hist S).map (fun sv => t.svGet sv k S)

/-- the sources `TreeIter::create_range` merges, each restricted to the bounds and the snapshot -/
def TreeState.scanSources (t : TreeState K) (sv : SuperVersion K) (lo hi : Bound K) (S : Nat)
    (overlay : Option (List (Entry K) × Nat)) : List (List (Entry K)) :=
  let f := fun (l : List (Entry K)) => l.filter (fun e => inBounds lo hi e.key && Lsm.visible S e)
  (sv.version.runs.map (fun r => f (r.flatMap (·.entries)))) ++
  (sv.sealed.map (fun id => f (t.mem id))) ++ [f (t.mem sv.active)] ++
  (match overlay with
   | some (l, s) => [l.filter (fun e => inBounds lo hi e.key && Lsm.visible s e)]
   | none => [])

/-- the `.filter(!is_tombstone)` adaptor around `MvccStream`, one step from either end -/
def liveStep (fuel : Nat) (d : Dir) (l : List (Entry K)) : Option (Entry K) × List (Entry K) :=
  match fuel with
  | 0 => (none, l)
  | fuel + 1 =>
    let r := match d with
      | .F => mvccNext l
      | .B => mvccNextBack l
    match r.1 with
    | none => (none, r.2)
    | some e => if e.isTomb then liveStep fuel d r.2 else (some e, r.2)

def liveRun : List (Entry K) → List Dir → List (Option (Entry K))
  | _, [] => []
  | l, d :: w => let r := liveStep (l.length + 1) d l; r.1 :: liveRun r.2 w

/-- a scan: merge, MVCC, drop tombstones; consumed by a word of next / next_back calls -/
def TreeState.scanAt (t : TreeState K) (S : Nat) (lo hi : Bound K) (w : List Dir)
    (overlay : Option (List (Entry K) × Nat) := none) : Option (List (Option (Entry K))) :=
  (getVersionForSnapshot t.hist S).map (fun sv => liveRun (mergeAll (t.scanSources sv lo hi S overlay)) w)

/-! ### invariants evaluated on every observed state, and admissibility of an observed choice -/

/-- the sources of a super version in read order, tagged with their level (memtables: level 0, "before" L0) -/
def TreeState.sources (t : TreeState K) (sv : SuperVersion K) : List (Nat × List (Entry K)) :=
  [(0, t.mem sv.active)] ++ (sv.sealed.reverse.map (fun id => (0, t.mem id))) ++
  (sv.version.levels.mapIdx (fun i lvl => lvl.map (fun r => (i, r.flatMap (·.entries))))).flatten

/-- ORD for a pair: every version of a shared key in `a` is newer than every version of it in `b` -/
def newerThan (a b : List (Entry K)) : Bool :=
  a.all (fun x => b.all (fun y => !(decide (x.key = y.key)) || decide (y.seqno < x.seqno)))

def ordOk : List (List (Entry K)) → Bool
  | [] => true
  | a :: rest => rest.all (newerThan a) && ordOk rest

/-- META for one table: recorded range = first / last user key of the content -/
def tableMetaOk (tb : TableM K) : Bool :=
  match tb.entries.head?, tb.entries.getLast? with
  | some f, some l => decide (f.key = tb.lo) && decide (l.key = tb.hi)
  | _, _ => false

/-- SORT ∧ RUN ∧ META ∧ ORD of one super version; returns the name of the first violated clause -/
def TreeState.invOf (t : TreeState K) (sv : SuperVersion K) : Option String :=
  if !(sv.version.tables.all (fun tb => isSourceB tb.entries)) then some "SORT(table)"
  else if !((sv.active :: sv.sealed).all (fun id => isSourceB (t.mem id))) then some "SORT(memtable)"
  else if !(sv.version.tables.all tableMetaOk) then some "META"
  else if !(sv.version.runs.all runOkB) then some "RUN"
  else if !(ordOk ((t.sources sv).map (·.2))) then some "ORD"
  else none

def TreeState.inv (t : TreeState K) : Option String :=
  t.hist.findSome? (fun sv => t.invOf sv)

/-- `Admissible` (DESIGN.md section 4), key-exact, for a merge / move of `ids` into level `dest` on version `v`:
    for every non-input table `X` and input table `T` sharing a user key,
    (X before T ∧ level X < dest) ∨ (T before X ∧ level X ≥ dest); when tombstones are evicted (last level) only
    the first disjunct. Positions are (level, run index). -/
def admissible (v : Version K) (ids : List Nat) (dest : Nat) (evict : Bool) : Bool :=
  let tagged : List (Nat × Nat × TableM K) :=
    (v.levels.mapIdx (fun li lvl => (lvl.mapIdx (fun ri r => r.map (fun tb => (li, ri, tb)))).flatten)).flatten
  let inputs := tagged.filter (fun x => ids.contains x.2.2.id)
  let others := tagged.filter (fun x => !ids.contains x.2.2.id)
  inputs.all (fun ti => others.all (fun x =>
    let shares := ti.2.2.entries.any (fun a => x.2.2.entries.any (fun b => decide (a.key = b.key)))
    if !shares then true
    else
      let xBefore := decide (x.1 < ti.1) || (decide (x.1 = ti.1) && decide (x.2.1 < ti.2.1))
      let tBefore := decide (ti.1 < x.1) || (decide (ti.1 = x.1) && decide (ti.2.1 < x.2.1))
      (xBefore && decide (x.1 < dest)) || (!evict && tBefore && decide (dest ≤ x.1))))

end
end Lsm
