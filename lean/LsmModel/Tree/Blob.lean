/-!
# Blob garbage statistics (fragmentation map) of the key-value-separated tree — executable model

Transcription of
* `src/blob_tree/gc.rs`            — `FragmentationEntry`, `FragmentationMap::{merge_into, prune, stale_bytes}`,
                                     the `DroppedKvCallback::on_dropped` implementation,
* `src/version/mod.rs`             — the statistics part of `with_dropped` (accumulation of the dropped tables'
                                     linked-blob-file summaries, then `prune_dead`), `with_merge` / `with_new_l0_run`
                                     (merge the diff, THEN prune against the new blob file list),
* `src/vlog/blob_file/mod.rs`      — `is_dead`, `is_stale`,
* `src/version/blob_file_list.rs`  — `prune_dead`,
* `src/table/multi_writer.rs`      — `register_blob` (per-table linked-blob-file summary),
* `src/compaction/flavour.rs`      — the pointer rewrite of a relocating compaction (`size` and `on_disk_size` kept).

A `HashMap<BlobFileId, _>` is modelled by an association list; `find?` returns the FIRST binding of a key and every
mutator below (`addEntry`, `prune`) acts on the first binding / on all bindings consistently, so all extensional
facts (`lookup`) hold for arbitrary lists; the functions preserve key-distinctness (`keys m` duplicate free), which is
what makes the list a faithful image of a hash map (needed only for `staleBytes`, which iterates over the entries).

Integers are unbounded naturals (`u64`/`usize` overflow is out of scope: a blob file holds < 2^64 bytes).
This file imports nothing and uses structural recursion (and `List.filter` / `List.foldl` / `List.map` of the prelude) only.
-/
namespace Lsm.Blob

/-- `FragmentationEntry` (also `LinkedFile` minus its id): number of stale blobs, stale uncompressed bytes,
    stale on-disk bytes. -/
structure Frag where
  len : Nat
  bytes : Nat
  onDisk : Nat
deriving DecidableEq, Repr

namespace Frag
def zero : Frag := ⟨0, 0, 0⟩
/-- componentwise addition (`counter.len += …; counter.bytes += …; counter.on_disk_bytes += …`) -/
def add (a b : Frag) : Frag := ⟨a.len + b.len, a.bytes + b.bytes, a.onDisk + b.onDisk⟩
instance : Add Frag := ⟨add⟩
instance : Inhabited Frag := ⟨zero⟩
end Frag

/-- `FragmentationMap`: blob file id ↦ entry. -/
abbrev FragMap := List (Nat × Frag)

/-- `BlobIndirection`: `vhandle.blob_file_id`, `vhandle.offset`, `size` (uncompressed), `vhandle.on_disk_size`. -/
structure Ptr where
  file : Nat
  off : Nat
  size : Nat
  onDisk : Nat
deriving DecidableEq, Repr

/-- what one pointer contributes to an entry: `len 1`, `bytes size`, `on_disk_bytes on_disk_size` -/
def Ptr.frag (p : Ptr) : Frag := ⟨1, p.size, p.onDisk⟩

/-- `HashMap::get` -/
def find? : FragMap → Nat → Option Frag
  | [], _ => none
  | (g, x) :: m, f => if g = f then some x else find? m f

/-- entry of a blob file, absent = zero -/
def lookup (m : FragMap) (f : Nat) : Frag :=
  match find? m f with
  | some x => x
  | none => Frag.zero

def keys (m : FragMap) : List Nat := m.map (·.1)

/-- `m.entry(f).and_modify(|c| c += d).or_insert(d)` — the shape shared by `merge_into`, `on_dropped`,
    `register_blob` and the repaired `with_dropped` -/
def addEntry : FragMap → Nat → Frag → FragMap
  | [], f, d => [(f, d)]
  | (g, x) :: m, f, d => if g = f then (g, x + d) :: m else (g, x) :: addEntry m f d

/-- the `and_modify` arm of the ORIGINAL `with_dropped`: `bytes` and `len` are added, `on_disk_bytes` is forgotten
    (finding F2); the `or_insert_with` arm is complete -/
def addEntryLegacy : FragMap → Nat → Frag → FragMap
  | [], f, d => [(f, d)]
  | (g, x) :: m, f, d =>
    if g = f then (g, ⟨x.len + d.len, x.bytes + d.bytes, x.onDisk⟩) :: m else (g, x) :: addEntryLegacy m f d

/-- `diff.merge_into(&mut other)`: every entry of `diff` is added to `other` -/
def mergeInto : FragMap → FragMap → FragMap
  | [], other => other
  | (f, d) :: diff, other => mergeInto diff (addEntry other f d)

/-- `prune(&value_log)`: `retain(|k, _| value_log.contains_key(k))` -/
def prune (m : FragMap) (files : List Nat) : FragMap := m.filter (fun e => decide (e.1 ∈ files))

/-- `on_dropped` for an indirection (`kv.key.value_type.is_indirection()`); other value types do not reach the map -/
def onDropped (m : FragMap) (p : Ptr) : FragMap := addEntry m p.file p.frag

/-- `MultiWriter::register_blob` -/
def registerBlob (links : FragMap) (p : Ptr) : FragMap := addEntry links p.file p.frag

/-- the linked-blob-file summary (`list_blob_file_references`) of a table that stores the pointers `ptrs` -/
def linksOf (ptrs : List Ptr) : List (Nat × Frag) := ptrs.foldl registerBlob []

/-- the repaired loop body of `with_dropped` for one dropped table -/
def accumulateDropped : FragMap → List (Nat × Frag) → FragMap
  | m, [] => m
  | m, (f, d) :: links => accumulateDropped (addEntry m f d) links

/-- the original loop body of `with_dropped` -/
def accumulateDroppedLegacy : FragMap → List (Nat × Frag) → FragMap
  | m, [] => m
  | m, (f, d) :: links => accumulateDroppedLegacy (addEntryLegacy m f d) links

/-- statistics after `with_dropped` of the tables whose pointer lists are `Ds` -/
def withDroppedStats (m : FragMap) (Ds : List (List Ptr)) : FragMap :=
  Ds.foldl (fun m D => accumulateDropped m (linksOf D)) m

def withDroppedStatsLegacy (m : FragMap) (Ds : List (List Ptr)) : FragMap :=
  Ds.foldl (fun m D => accumulateDroppedLegacy m (linksOf D)) m

/-- statistics after `with_merge` / `with_new_l0_run` (`diff = none`: only prune, as `with_merge` does when blob
    files are dropped): merge the diff, then prune against the NEW blob file list -/
def withMergeStats (m : FragMap) (diff : Option FragMap) (files' : List Nat) : FragMap :=
  match diff with
  | some d => prune (mergeInto d m) files'
  | none => prune m files'

/-- `stale_bytes()`: `values().map(|x| x.on_disk_bytes).sum()` -/
def staleBytes : FragMap → Nat
  | [] => 0
  | (_, x) :: m => x.onDisk + staleBytes m

/-- sum of the contributions of a list of blobs / pointers -/
def fragSum : List Ptr → Frag
  | [] => Frag.zero
  | p :: ps => p.frag + fragSum ps

/-- metadata totals of a blob file with content `fileBlobs`: `item_count`, `total_uncompressed_bytes`,
    `total_compressed_bytes` -/
def totalOf (fileBlobs : List Ptr) : Frag := fragSum fileBlobs

/-- SPECIFICATION: the garbage of a blob file = its blobs that no reference points to -/
def garbageOf (fileBlobs : List Ptr) (refs : List Ptr) : Frag :=
  fragSum (fileBlobs.filter (fun b => decide (b ∉ refs)))

/-- `BlobFile::is_dead`: `frag_map.get(id).is_some_and(|x| x.bytes == meta.total_uncompressed_bytes)` — compares
    BYTES (not counts), and an absent entry is never dead -/
def isDead (m : FragMap) (file : Nat) (totalBytes : Nat) : Bool :=
  match find? m file with
  | some x => x.bytes == totalBytes
  | none => false

/-- `BlobFile::is_stale` with the `f32` threshold idealised to the rational `num / den` (`den > 0`):
    `stale_bytes / all_bytes >= threshold`; `0 / 0` is NaN (comparison false), `x / 0` is `+∞` for `x > 0` -/
def isStale (m : FragMap) (file : Nat) (totalBytes : Nat) (num den : Nat) : Bool :=
  match find? m file with
  | some x => if totalBytes = 0 ∧ x.bytes = 0 then false else decide (num * totalBytes ≤ x.bytes * den)
  | none => false

/-- `BlobFileList::prune_dead`: the blob files (id, total uncompressed bytes) that stay / that are extracted -/
def liveFiles (m : FragMap) (files : List (Nat × Nat)) : List (Nat × Nat) :=
  files.filter (fun t => !isDead m t.1 t.2)
def deadFiles (m : FragMap) (files : List (Nat × Nat)) : List (Nat × Nat) :=
  files.filter (fun t => isDead m t.1 t.2)

/-- the pointer written by a relocating compaction for `p`: new file, new offset, same `size`, same `on_disk_size` -/
def reloc (newFile : Nat) (newOff : Ptr → Nat) (p : Ptr) : Ptr := ⟨newFile, newOff p, p.size, p.onDisk⟩

/-- reference set after relocating the file `old` into `newFile` -/
def relocRefs (old newFile : Nat) (newOff : Ptr → Nat) (R : List Ptr) : List Ptr :=
  R.map (fun p => if p.file = old then reloc newFile newOff p else p)

/-- content of the new blob file: exactly the re-issued blobs -/
def relocBlobs (old newFile : Nat) (newOff : Ptr → Nat) (R : List Ptr) : List Ptr :=
  (R.filter (fun p => decide (p.file = old))).map (reloc newFile newOff)

/-- executable value-log content: blob file id ↦ all blobs written to it -/
abbrev Store := List (Nat × List Ptr)

def blobsOf : Store → Nat → List Ptr
  | [], _ => []
  | (g, bs) :: s, f => if g = f then bs else blobsOf s f

/-- decidable exactness check of a map against a store and a reference set (all files of the store and all keys
    of the map are inspected) -/
def exactB (s : Store) (m : FragMap) (R : List Ptr) : Bool :=
  (s.map (·.1) ++ keys m).all (fun f => decide (lookup m f = garbageOf (blobsOf s f) R))

end Lsm.Blob
