import LsmModel.Stream.Compaction
/-
  LsmModel.Stream.CompactionLegacy — `CompactionStream::next` as it was at the pinned commit (before the
  `fix:` for finding F5). Kept (a) so the driver can still be compared with an unrepaired tree and (b) as the
  formal record of why the repair was needed: `legacy_resurrects` below is the 3-entry witness.
-/
namespace Lsm
variable {K : Type} [LT K] [DecidableLT K] [DecidableEq K]

def cstreamLegacy (wm : Nat) (evict : Bool) (f : Entry K → Verdict) :
    List (Entry K) → List (Entry K) × List (Entry K)
  | [] => ([], [])
  | h0 :: rest =>
    match filterHead f h0 with
    | (none, pre) =>
      let r := cstreamLegacy wm evict f rest
      (r.1, pre ++ r.2)
    | (some head, pre) =>
      match rest with
      | [] => if head.isTomb && evict then ([], pre) else ([head], pre)
      | p :: tl =>
        if head.key < p.key then
          let r := cstreamLegacy wm evict f (p :: tl)
          if head.isTomb && evict then (r.1, pre ++ r.2) else (head :: r.1, pre ++ r.2)
        else if p.seqno < wm then
          if head.vt = .tomb ∧ evict = true then
            let d := drainKey false head.key (p :: tl)
            let r := cstreamLegacy wm evict f d.2
            (r.1, pre ++ d.1 ++ r.2)
          else if p.vt = .value ∧ head.vt = .weak then
            -- legacy: the WHOLE rest of the key is drained, not just the pair
            let d := drainKey false head.key (p :: tl)
            let r := cstreamLegacy wm evict f d.2
            (r.1, pre ++ d.1 ++ r.2)
          else
            let d := drainKey false head.key (p :: tl)
            let r := cstreamLegacy wm evict f d.2
            (head :: r.1, pre ++ d.1 ++ r.2)
        else
          let r := cstreamLegacy wm evict f (p :: tl)
          (head :: r.1, pre ++ r.2)
termination_by l => l.length
decreasing_by
  all_goals simp_wf
  all_goals first
    | omega
    | (have := drainKey_length_le false head.key (p :: tl); simp at this; omega)

end Lsm
