import LsmModel.Basic
/-
  LsmModel.Stream.Merge — `Merger` (src/merge.rs): k-way merge over double-ended sources with an interval heap.
  State: the remaining items of every source (consumed from both ends), the heap as a list of
  `(source index, item)`, and the two lazy-initialisation flags.
-/
namespace Lsm
variable {K : Type}

structure Merger (K : Type) where
  srcs : List (List (Entry K))
  heap : List (Nat × Entry K)
  initLo : Bool
  initHi : Bool

def Merger.new (srcs : List (List (Entry K))) : Merger K :=
  { srcs := srcs, heap := [], initLo := false, initHi := false }

section
variable [LT K] [DecidableLT K] [DecidableEq K]

/-- `initialize_lo`: pull the front item of every source into the heap -/
def Merger.pushFronts (m : Merger K) : Nat → Merger K
  | 0 => m
  | k + 1 =>
    let m' := Merger.pushFronts m k
    match m'.srcs[k]? with
    | some (x :: xs) => { m' with heap := (k, x) :: m'.heap, srcs := m'.srcs.set k xs }
    | _ => m'

/-- `initialize_hi`: pull the back item of every source into the heap -/
def Merger.pushBacks (m : Merger K) : Nat → Merger K
  | 0 => m
  | k + 1 =>
    let m' := Merger.pushBacks m k
    match m'.srcs[k]? with
    | some l =>
      match l.reverse with
      | x :: xs => { m' with heap := (k, x) :: m'.heap, srcs := m'.srcs.set k xs.reverse }
      | [] => m'
    | none => m'

/-- `pop_min` on the heap: the least item w.r.t. the internal-key order (first one on ties) -/
def heapMin : List (Nat × Entry K) → Option (Nat × Entry K)
  | [] => none
  | a :: as =>
    match heapMin as with
    | none => some a
    | some b => if ikLt b.2 a.2 then some b else some a

/-- `pop_max` -/
def heapMax : List (Nat × Entry K) → Option (Nat × Entry K)
  | [] => none
  | a :: as =>
    match heapMax as with
    | none => some a
    | some b => if ikLt a.2 b.2 then some b else some a

def Merger.next (m : Merger K) : Option (Entry K) × Merger K :=
  let m := if m.initLo then m else { Merger.pushFronts m m.srcs.length with initLo := true }
  match heapMin m.heap with
  | none => (none, m)
  | some (i, x) =>
    let heap' := m.heap.erase (i, x)
    match m.srcs[i]? with
    | some (y :: ys) => (some x, { m with heap := (i, y) :: heap', srcs := m.srcs.set i ys })
    | _ => (some x, { m with heap := heap' })

def Merger.nextBack (m : Merger K) : Option (Entry K) × Merger K :=
  let m := if m.initHi then m else { Merger.pushBacks m m.srcs.length with initHi := true }
  match heapMax m.heap with
  | none => (none, m)
  | some (i, x) =>
    let heap' := m.heap.erase (i, x)
    match m.srcs[i]? with
    | some l =>
      match l.reverse with
      | y :: ys => (some x, { m with heap := (i, y) :: heap', srcs := m.srcs.set i ys.reverse })
      | [] => (some x, { m with heap := heap' })
    | none => (some x, { m with heap := heap' })

def Merger.run : Merger K → List Dir → List (Option (Entry K))
  | _, [] => []
  | m, .F :: w => let r := m.next; r.1 :: Merger.run r.2 w
  | m, .B :: w => let r := m.nextBack; r.1 :: Merger.run r.2 w

/-! ### specification side: ordered merge of sorted lists -/

/-- insert into a list sorted by `ikLt` (after equal elements) -/
def insertSorted (e : Entry K) : List (Entry K) → List (Entry K)
  | [] => [e]
  | x :: xs => if ikLt e x then e :: x :: xs else x :: insertSorted e xs

/-- merge two sorted lists; on ties the left one first -/
def merge2 : List (Entry K) → List (Entry K) → List (Entry K)
  | [], ys => ys
  | xs, [] => xs
  | x :: xs, y :: ys =>
    if ikLt y x then y :: merge2 (x :: xs) ys else x :: merge2 xs (y :: ys)

/-- merge of all sources -/
def mergeAll (srcs : List (List (Entry K))) : List (Entry K) := srcs.foldr merge2 []

end
end Lsm
