import LsmModel.Basic
/-
  LsmModel.Stream.Mvcc — `MvccStream` (src/mvcc_stream.rs) over a double-ended input.
  The input (already seqno-filtered and merged) is a list consumed from both ends.
-/
namespace Lsm
variable {K : Type}

section
variable [DecidableEq K]

/-- `MvccStream::next`: take the head, then `drain_key_min` -/
def mvccNext : List (Entry K) → Option (Entry K) × List (Entry K)
  | [] => (none, [])
  | h :: t => (some h, t.dropWhile (fun e => decide (e.key = h.key)))

end

section
variable [LT K] [DecidableLT K]

/-- `MvccStream::next_back` on the REVERSED remaining input (last element first):
    keep popping while the element before is not of a smaller user key. -/
def mvccNextBackRev : List (Entry K) → Option (Entry K) × List (Entry K)
  | [] => (none, [])
  | [t] => (some t, [])
  | t :: p :: rest => if p.key < t.key then (some t, p :: rest) else mvccNextBackRev (p :: rest)

def mvccNextBack (l : List (Entry K)) : Option (Entry K) × List (Entry K) :=
  let r := mvccNextBackRev l.reverse
  (r.1, r.2.reverse)

end

section
variable [LT K] [DecidableLT K] [DecidableEq K]

/-- run a word of `next` / `next_back` calls -/
def mvccRun : List (Entry K) → List Dir → List (Option (Entry K))
  | _, [] => []
  | l, .F :: w => let r := mvccNext l; r.1 :: mvccRun r.2 w
  | l, .B :: w => let r := mvccNextBack l; r.1 :: mvccRun r.2 w

end

/-! ### specification side -/

section
variable [DecidableEq K]

/-- first entry of every user key (input sorted by internal key ⇒ the newest version of each key) -/
def newestPerKey : List (Entry K) → List (Entry K)
  | [] => []
  | h :: t => h :: newestPerKey (t.dropWhile (fun e => decide (e.key = h.key)))
termination_by l => l.length
decreasing_by
  simp_wf
  have := (List.dropWhile_sublist (l := t) (fun e : Entry K => decide (e.key = h.key))).length_le
  omega

end

end Lsm
