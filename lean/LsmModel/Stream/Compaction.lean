import LsmModel.Basic
/-
  LsmModel.Stream.Compaction — `CompactionStream` (src/compaction/stream.rs), the GC stream used by
  flush and compaction, unrolled over its whole input.

  `cstream wm evict f input = (output, dropped)`:
    * `wm`     = `gc_seqno_threshold`
    * `evict`  = `evict_tombstones` (set only when the destination is the last level)
    * `f`      = the stream filter (`StreamFilter::filter_item`), a pure function here; tombstones are never shown to it
    * `dropped` = the arguments of `DroppedKvCallback::on_dropped`, in call order
  `zero_seqnos` is not modelled: every production call site passes `false`.

  This file models the stream AFTER the repair of finding F5 (weak tombstone handling); the stream as it was
  at the pinned commit is kept in `CompactionLegacy.lean` together with the refutation of C13 for it.
-/
namespace Lsm

variable {K : Type}

/-- `StreamFilterVerdict` -/
inductive Verdict where
  | keep
  | replace (vt : VT) (v : Val)
  | drop
deriving DecidableEq, Repr

/-- What the loop does with a freshly popped head: `(surviving head, dropped-callback calls)`.
    `head.is_tombstone()` heads bypass the filter. -/
def filterHead (f : Entry K → Verdict) (h : Entry K) : Option (Entry K) × List (Entry K) :=
  if h.isTomb then (some h, [])
  else match f h with
    | .keep => (some h, [])
    | .replace vt v => (some { h with vt := vt, val := v }, [h])
    | .drop => (none, [h])

section
variable [DecidableEq K]

/-- `drain_key`: pops the leading entries of user key `k`; with `stopAtWeak` it stops in front of a weak
    tombstone (F5 repair, active when tombstones are not evicted). Returns `(dropped, rest)`. -/
def drainKey (stopAtWeak : Bool) (k : K) : List (Entry K) → List (Entry K) × List (Entry K)
  | [] => ([], [])
  | e :: es =>
    if e.key = k ∧ ¬ (stopAtWeak = true ∧ e.vt = .weak) then
      let r := drainKey stopAtWeak k es
      (e :: r.1, r.2)
    else ([], e :: es)

theorem drainKey_length_le (s : Bool) (k : K) (l : List (Entry K)) :
    (drainKey s k l).2.length ≤ l.length := by
  induction l with
  | nil => simp [drainKey]
  | cons e es ih => unfold drainKey; split <;> simp <;> omega

end

section
variable [LT K] [DecidableLT K] [DecidableEq K]

/-- `CompactionStream::next`, iterated to exhaustion. -/
def cstream (wm : Nat) (evict : Bool) (f : Entry K → Verdict) :
    List (Entry K) → List (Entry K) × List (Entry K)
  | [] => ([], [])
  | h0 :: rest =>
    match filterHead f h0 with
    | (none, pre) =>
      let r := cstream wm evict f rest
      (r.1, pre ++ r.2)
    | (some head, pre) =>
      match rest with
      | [] => if head.isTomb && evict then ([], pre) else ([head], pre)
      | p :: tl =>
        if head.key < p.key then
          -- only (remaining) item of this key
          let r := cstream wm evict f (p :: tl)
          if head.isTomb && evict then (r.1, pre ++ r.2) else (head :: r.1, pre ++ r.2)
        else if p.seqno < wm then
          if head.vt = .tomb ∧ evict = true then
            let d := drainKey (!evict) head.key (p :: tl)
            let r := cstream wm evict f d.2
            (r.1, pre ++ d.1 ++ r.2)
          else if p.vt = .value ∧ head.vt = .weak then
            -- weak tombstone + the value it deletes: exactly this pair vanishes
            let r := cstream wm evict f tl
            (r.1, pre ++ p :: r.2)
          else
            let d := drainKey (!evict) head.key (p :: tl)
            let r := cstream wm evict f d.2
            (head :: r.1, pre ++ d.1 ++ r.2)
        else
          let r := cstream wm evict f (p :: tl)
          (head :: r.1, pre ++ r.2)
termination_by l => l.length
decreasing_by
  all_goals simp_wf
  all_goals first
    | omega
    | (have := drainKey_length_le (!evict) head.key (p :: tl); simp at this; omega)

/-- the filter that keeps everything (`NoFilter`) -/
def noFilter : Entry K → Verdict := fun _ => .keep

end
end Lsm
