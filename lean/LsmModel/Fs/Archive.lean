import LsmModel.Table.Frame
/-
  LsmModel.Fs.Archive — the FILE-LEVEL layout of table / blob / version files: the `sfa` 1.0.0 archive
  (section payloads ++ table of contents ++ trailer), and which check of the real readers covers which byte
  range of a table file (property C10, file level).

  Anchors (sfa = ~/.cargo/registry/src/*/sfa-1.0.0/src, version pinned in /repo/Cargo.lock):
    sfa writer.rs:57-78       Writer::start / append_toc_entry        (`tocEntriesFrom`)
    sfa writer.rs:80-90       append_trailer                          (`encodeArchive`)
    sfa toc/writer.rs:14-34   TocWriter::write_into                   (`encodeToc`)
    sfa toc/entry.rs:57-83    TocEntry::{write_into, read_from_file}  (`encodeEntry`, `readEntry`)
    sfa trailer/writer.rs     TrailerWriter::write_into               (`encodeTrailer`)
    sfa trailer/reader.rs     TrailerReader::from_reader              (`readTrailer`)
    sfa toc/reader.rs:46-80   TocReader::from_reader                  (`readTocTrace`)
    sfa reader.rs:35-39       Reader::from_reader                     (`decodeArchiveTrace`)
    sfa toc/mod.rs:17-19      Toc::section (first entry with the name)(`findSection`)
    /repo/src/table/regions.rs:56-77   ParsedRegions::parse_from_toc  (`parseRegions`)
    /repo/src/table/mod.rs:449-600     Table::recover                 (`openTable`)
    /repo/src/table/writer/mod.rs:101,371-520  section order of a table file: data, [index,] tli,
         [filter,] [filter_tli,] [linked_blob_files,] table_version, meta
    /repo/src/vlog/blob_file/writer.rs:76,222  blob file: data, meta
    /repo/src/version/mod.rs:635-708   version file: format_version, crate_version, tree_type, level_count,
         filter_hash_type, tables, blob_files, blob_gc_stats
    /repo/src/error.rs:60-85  From<sfa::Error>                        (`AErr.lsmClass`)

  ════════════════════════════════ MODELLING NOTES ════════════════════════════════
  A1  Bytes = `List UInt8`; the 128-bit hash is a parameter `h128 : Bytes → Bytes` exactly as in Frame.lean (N1):
      `h128 x` = the 16 bytes `write_u128::<LE>(xxh3_128(x))`.  Streaming `update`s = hash of the concatenation.
  A2  WRITER.  `Writer::start(name)` first closes the previous section: `append_toc_entry` pushes
      (previous name, last_section_pos, file_pos - last_section_pos) ONLY IF `file_pos > 0`.  Consequences
      transcribed in `tocEntriesFrom`: a section gets NO ToC entry iff it and all sections before it are empty
      (file position still 0 when it is closed); an empty section after a non-empty one gets an entry of len 0.
      A `sections` list is what the caller did: `start(n₁); write(b₁); start(n₂); write(b₂); …; finish()`.
      Bytes written before the first `start` are the section with name `[]` (representable as `([], b)` in front).
      Names: `u16::try_from(name.len()).expect(..)` panics for ≥ 65536 bytes; `u32::try_from(entries.len())`
      panics for ≥ 2^32 entries — not modelled, the theorems carry `WfSections` (name length < 2^16, count < 2^32,
      total size < 2^64).
  A3  LAYOUT.  file = payloads ++ ToC ++ trailer.
        ToC     = "TOC!" ++ u32le(count) ++ entries;  entry = u64le(pos) ++ u64le(len) ++ u16le(|name|) ++ name
        trailer = "SFA!" ++ [1] (version) ++ [0] (checksum type xxh3) ++ H(ToC)(16) ++ u64le(toc_pos) ++ u64le(toc_len)
      = 38 bytes (`TRAILER_SIZE`).  The ToC hash covers the ToC magic, the count and all entries.
  A4  READER, order of checks (transcribed in that order):
        `seek(End(-38))`             file shorter than 38 bytes → EINVAL → Error::Io           (`AErr.io`)
        read 4, compare "SFA!"       → InvalidHeader
        read u8 version ≠ 1          → InvalidVersion
        read u8 checksum type ≠ 0    → UnsupportedChecksumType
        read u128 checksum, u64 toc_pos.   `toc_len` (LAST 8 BYTES OF THE FILE) IS NEVER READ
              (`// let _toc_len = reader.read_u64::<LE>()?;` is commented out in trailer/reader.rs:57).
        `seek(Start(toc_pos))`       (beyond EOF is legal for a file; the next read then hits EOF.  A `toc_pos`
                                     > i64::MAX makes lseek fail with EINVAL — also Error::Io.)
        read 4, compare "TOC!"       → InvalidVersion (sic: toc/reader.rs:63-66 reports a bad ToC magic as
                                       InvalidVersion)
        read u32 count
        `Vec::with_capacity(count)`  ◄── finding F10: the count is CONSUMED (an allocation of count × 40 bytes is
                                     requested) BEFORE any entry is read and BEFORE the ToC checksum is compared.
                                     `decodeArchiveTrace` returns that request as its first component
                                     (`some count` as soon as the reader got that far, whatever happens after).
        count × (u64, u64, u16, name) EOF → Error::Io  (reads run on INTO THE TRAILER and to EOF if the count or a
                                     name length is too large; nothing bounds them by the ToC length)
        compare hash of ALL bytes read since `toc_pos` with the trailer's checksum → ChecksumMismatch
      The three fixed-size reads of an entry (8+8+2) are folded into one length test: a short read at any of them is
      the same `Error::Io(UnexpectedEof)`.  Likewise the trailer's reads after the seek cannot fail (38 bytes are
      there), so `readTrailer` slices.
      The reader does NOT check: that `toc_pos + consumed = len - 38`, that entries lie inside the file, that they
      do not overlap, that names are distinct, that `toc_len` is right.
  A5  Error classes: Io, InvalidHeader, InvalidVersion, UnsupportedChecksumType, ChecksumMismatch (`AErr`);
      lsm-tree maps the three middle ones to `Error::Unrecoverable` (`AErr.lsmClass`).
  A6  SECTION ACCESS.  lsm-tree turns an entry into `BlockHandle(pos, len as u32)` (`toc_entry_to_handle`; `expect`
      panics for len ≥ 2^32 — `openTable` reports `TErr.handlePanic`) and reads it with `Block::from_file`, i.e.
      `Frame.decodeBlockFile` on `file.drop pos` with `size = len`.  `sectionBytes` is `TocEntry::buf_reader`
      (seek + take(len); a short file yields fewer bytes, not an error) used for linked_blob_files and by the
      version / blob-meta readers.
  A7  TABLE FILE (`openTable` + `readTableFully`).  `Table::recover`: sfa reader → `parse_from_toc` (needs "tli" and
      "meta", else Unrecoverable) → meta block `Block::from_file` + type Meta (`ParsedMeta::load_with_handle`) →
      tli block `Block::from_file` (`read_tli`, type must be Index).  The section "table_version" ([3]) is written but
      NEVER READ by the reader (the version is taken from the meta block's "table_version" item).
      What the blocks CONTAIN (index entries → data block handles, meta items, filter bits) is the business of
      Codec.lean / Blocks.lean; here it is a PARAMETER: `handlesOf : Bytes → Option (List (Nat × Nat))` maps the
      payload of the (full) tli block to the (offset, size) of the data blocks, in order.  `readTableFully` then
      loads every data block with `decodeBlockFile (some 0)` and the optional filter block with type 2.  Partitioned
      index / filter (two-level) files add one more level of the same indirection and are NOT modelled.
  ═════════════════════════════════════════════════════════════════════════════════
-/
namespace Lsm.Archive
open Lsm.Frame

/-! ## errors -/

inductive AErr where
  | io
  | invalidHeader
  | invalidVersion
  | unsupportedChecksumType
  | checksumMismatch
deriving DecidableEq, Repr, Inhabited

/-- the `sfa::Error` variant -/
def AErr.toString : AErr → String
  | .io => "Io"
  | .invalidHeader => "InvalidHeader"
  | .invalidVersion => "InvalidVersion"
  | .unsupportedChecksumType => "UnsupportedChecksumType"
  | .checksumMismatch => "ChecksumMismatch"

instance : ToString AErr := ⟨AErr.toString⟩

/-- the `lsm_tree::Error` variant after `From<sfa::Error>` (/repo/src/error.rs:60-85) -/
def AErr.lsmClass : AErr → String
  | .io => "Io"
  | .checksumMismatch => "ChecksumMismatch"
  | _ => "Unrecoverable"

/-! ## layout -/

structure Entry where
  name : Bytes
  pos : Nat
  len : Nat
deriving DecidableEq, Repr, Inhabited

/-- `TOC_MAGIC = b"TOC!"` -/
def tocMagic : Bytes := [84, 79, 67, 33]
/-- `TRAILER_MAGIC = b"SFA!"` -/
def trailerMagic : Bytes := [83, 70, 65, 33]
/-- `TRAILER_SIZE` -/
abbrev trailerLen : Nat := 38

/-- `TocEntry::write_into` -/
def encodeEntry (e : Entry) : Bytes := u64le e.pos ++ u64le e.len ++ u16le e.name.length ++ e.name

def encodeEntries : List Entry → Bytes
  | [] => []
  | e :: es => encodeEntry e ++ encodeEntries es

/-- `TocWriter::write_into`: the bytes that go through the `ChecksummedWriter` -/
def encodeToc (es : List Entry) : Bytes := tocMagic ++ u32le es.length ++ encodeEntries es

/-- `TrailerWriter::write_into` -/
def encodeTrailer (ck : Bytes) (tocPos tocLen : Nat) : Bytes :=
  trailerMagic ++ [1] ++ [0] ++ ck ++ u64le tocPos ++ u64le tocLen

/-- The ToC entries `start`/`finish` push for the given sections when the file position is `pos` (A2). -/
def tocEntriesFrom (pos : Nat) : List (Bytes × Bytes) → List Entry
  | [] => []
  | (n, b) :: r =>
    let filePos := pos + b.length
    if 0 < filePos then { name := n, pos := pos, len := b.length } :: tocEntriesFrom filePos r
    else tocEntriesFrom filePos r

def tocEntries (sections : List (Bytes × Bytes)) : List Entry := tocEntriesFrom 0 sections

/-- the section payloads, back to back -/
def payloads : List (Bytes × Bytes) → Bytes
  | [] => []
  | (_, b) :: r => b ++ payloads r

/-- `sfa::Writer`: `start(n₁) write(b₁) … start(n_k) write(b_k) finish()` -/
def encodeArchive (h128 : Bytes → Bytes) (sections : List (Bytes × Bytes)) : Bytes :=
  let body := payloads sections
  let toc := encodeToc (tocEntries sections)
  body ++ toc ++ encodeTrailer (h128 toc) body.length toc.length

/-! ## reader -/

/-- `TrailerReader::from_reader`: (toc checksum, toc_pos). -/
def readTrailer (file : Bytes) : Except AErr (Bytes × Nat) :=
  if file.length < trailerLen then .error .io else
  let t := file.drop (file.length - trailerLen)
  if t.take 4 ≠ trailerMagic then .error .invalidHeader else
  if (t.drop 4).take 1 ≠ [1] then .error .invalidVersion else
  if (t.drop 5).take 1 ≠ [0] then .error .unsupportedChecksumType else
  .ok ((t.drop 6).take 16, leNat ((t.drop 22).take 8))

/-- `TocEntry::read_from_file` -/
def readEntry (bs : Bytes) : Except AErr (Entry × Bytes) :=
  if bs.length < 18 then .error .io else
  let r := bs.drop 18
  let nl := leNat ((bs.drop 16).take 2)
  if r.length < nl then .error .io else
  .ok ({ name := r.take nl, pos := leNat (bs.take 8), len := leNat ((bs.drop 8).take 8) }, r.drop nl)

/-- `for _ in 0..len { entries.push(TocEntry::read_from_file(..)?) }` -/
def readEntries : Nat → Bytes → Except AErr (List Entry × Bytes)
  | 0, bs => .ok ([], bs)
  | n + 1, bs =>
    match readEntry bs with
    | .error e => .error e
    | .ok (e, r) =>
      match readEntries n r with
      | .error e' => .error e'
      | .ok (es, r') => .ok (e :: es, r')

/-- `TocReader::from_reader` on `t` = the file content from `toc_pos` on.  First component: the capacity
requested from `Vec::with_capacity` (F10), `none` if the reader does not get that far. -/
def readTocTrace (h128 : Bytes → Bytes) (t : Bytes) (ck : Bytes) : Option Nat × Except AErr (List Entry) :=
  if t.length < 4 then (none, .error .io) else
  if t.take 4 ≠ tocMagic then (none, .error .invalidVersion) else
  let r := t.drop 4
  if r.length < 4 then (none, .error .io) else
  let count := leNat (r.take 4)
  -- ◄ `Vec::with_capacity(count as usize)` happens here
  (some count,
    match readEntries count (r.drop 4) with
    | .error e => .error e
    | .ok (es, rest) =>
      if h128 (t.take (t.length - rest.length)) ≠ ck then .error .checksumMismatch else .ok es)

/-- `sfa::Reader::from_reader` with its allocation request. -/
def decodeArchiveTrace (h128 : Bytes → Bytes) (file : Bytes) : Option Nat × Except AErr (List Entry) :=
  match readTrailer file with
  | .error e => (none, .error e)
  | .ok (ck, tocPos) => readTocTrace h128 (file.drop tocPos) ck

/-- `sfa::Reader::from_reader(file).toc()` -/
def decodeArchive (h128 : Bytes → Bytes) (file : Bytes) : Except AErr (List Entry) :=
  (decodeArchiveTrace h128 file).2

/-- (offset, length) of the byte range the reader hashes, when it gets as far as the checksum comparison. -/
def tocHashedRange (file : Bytes) : Option (Nat × Nat) :=
  match readTrailer file with
  | .error _ => none
  | .ok (_, tocPos) =>
    let t := file.drop tocPos
    if t.length < 4 then none else
    if t.take 4 ≠ tocMagic then none else
    let r := t.drop 4
    if r.length < 4 then none else
    match readEntries (leNat (r.take 4)) (r.drop 4) with
    | .error _ => none
    | .ok (_, rest) => some (tocPos, t.length - rest.length)

/-- `decodeArchiveTrace` with the one hash evaluation replaced by a given value (correspondence harness). -/
def decodeArchiveWith (hToc : Bytes) (file : Bytes) : Option Nat × Except AErr (List Entry) :=
  decodeArchiveTrace (fun _ => hToc) file

/-- `Toc::section(name)`: the FIRST entry with that name. -/
def findSection (es : List Entry) (name : Bytes) : Option Entry := es.find? (fun e => e.name == name)

/-- `TocEntry::buf_reader(path)`: seek to `pos`, `take(len)` (fewer bytes if the file is shorter). -/
def sectionBytes (file : Bytes) (e : Entry) : Bytes := (file.drop e.pos).take e.len

/-- open the archive and read the section `name` -/
def readSection (h128 : Bytes → Bytes) (file : Bytes) (name : Bytes) : Except AErr (Option Bytes) :=
  match decodeArchive h128 file with
  | .error e => .error e
  | .ok es => .ok ((findSection es name).map (sectionBytes file))

/-! ## well-formedness of what the writer is given -/

/-- no `expect` of the writer fires and every number fits its field -/
def WfSections (s : List (Bytes × Bytes)) : Prop :=
  (∀ x ∈ s, x.1.length < 2 ^ 16) ∧ s.length < 2 ^ 32 ∧ (payloads s).length < 2 ^ 64

instance (s : List (Bytes × Bytes)) : Decidable (WfSections s) := by unfold WfSections; infer_instance

/-- every section gets a ToC entry: the first section is non-empty (or there is none) (A2) -/
def AllListed : List (Bytes × Bytes) → Prop
  | [] => True
  | (_, b) :: _ => 0 < b.length

instance (s : List (Bytes × Bytes)) : Decidable (AllListed s) := by
  cases s with
  | nil => exact isTrue trivial
  | cons x r => cases x; unfold AllListed; infer_instance

def DistinctNames (s : List (Bytes × Bytes)) : Prop := (s.map (·.1)).Nodup

/-- the entries one expects: name, running offset, length -/
def expectedEntriesFrom (pos : Nat) : List (Bytes × Bytes) → List Entry
  | [] => []
  | (n, b) :: r => { name := n, pos := pos, len := b.length } :: expectedEntriesFrom (pos + b.length) r

/-! ## table file: regions and the open path -/

inductive TErr where
  | archive (e : AErr)
  /-- `parse_from_toc`: "tli" or "meta" missing → Unrecoverable -/
  | missingSection
  /-- `toc_entry_to_handle`: `expect("region should not exceed 4 GiB")` -/
  | handlePanic
  | block (e : Frame.Err)
  /-- `handlesOf` (index block content) rejected the tli payload — Codec.lean's domain -/
  | indexContent
deriving DecidableEq, Repr, Inhabited

def TErr.toString : TErr → String
  | .archive e => "archive:" ++ e.toString
  | .missingSection => "missingSection"
  | .handlePanic => "handlePanic"
  | .block e => "block:" ++ e.toString
  | .indexContent => "indexContent"

structure Regions where
  tli : Entry
  metaE : Entry
  index : Option Entry
  filter : Option Entry
  filterTli : Option Entry
  linkedBlobFiles : Option Entry
deriving DecidableEq, Repr

def nTli : Bytes := [116, 108, 105]
def nMeta : Bytes := [109, 101, 116, 97]
def nData : Bytes := [100, 97, 116, 97]
def nIndex : Bytes := [105, 110, 100, 101, 120]
def nFilter : Bytes := [102, 105, 108, 116, 101, 114]
def nFilterTli : Bytes := [102, 105, 108, 116, 101, 114, 95, 116, 108, 105]
def nLinked : Bytes := [108, 105, 110, 107, 101, 100, 95, 98, 108, 111, 98, 95, 102, 105, 108, 101, 115]
def nTableVersion : Bytes := [116, 97, 98, 108, 101, 95, 118, 101, 114, 115, 105, 111, 110]

/-- `toc_entry_to_handle` panics on this (optional) entry -/
def tooBig (o : Option Entry) : Bool :=
  match o with
  | some e => decide (2 ^ 32 ≤ e.len)
  | none => false

/-- `ParsedRegions::parse_from_toc`: the struct fields are evaluated in source order — filter_tli, tli (`?`), index,
filter, linked_blob_files, meta (`?`) — and every located entry goes through `toc_entry_to_handle`. -/
def parseRegions (es : List Entry) : Except TErr Regions :=
  if tooBig (findSection es nFilterTli) then .error .handlePanic else
  match findSection es nTli with
  | none => .error .missingSection
  | some tli =>
    if tooBig (some tli) || tooBig (findSection es nIndex) || tooBig (findSection es nFilter)
        || tooBig (findSection es nLinked) then .error .handlePanic else
    match findSection es nMeta with
    | none => .error .missingSection
    | some m =>
      if tooBig (some m) then .error .handlePanic else
      .ok { tli := tli, metaE := m, index := findSection es nIndex, filter := findSection es nFilter,
            filterTli := findSection es nFilterTli, linkedBlobFiles := findSection es nLinked }

/-- `Block::from_file(file, handle)` + expected type, for the handle of a ToC entry -/
def loadEntry (H : Bytes → Bytes) (ty : UInt8) (file : Bytes) (e : Entry) : Except TErr Bytes :=
  match decodeBlockFile H (some ty) (file.drop e.pos) e.len with
  | .error er => .error (.block er)
  | .ok (_, p) => .ok p

structure TableOpen where
  regions : Regions
  metaPayload : Bytes
  tliPayload : Bytes
deriving DecidableEq, Repr

/-- `Table::recover` up to and including the meta and tli blocks -/
def openTable (H : Bytes → Bytes) (file : Bytes) : Except TErr TableOpen :=
  match decodeArchive H file with
  | .error e => .error (.archive e)
  | .ok es =>
    match parseRegions es with
    | .error e => .error e
    | .ok rg =>
      match loadEntry H 3 file rg.metaE with
      | .error e => .error e
      | .ok mp =>
        match loadEntry H 1 file rg.tli with
        | .error e => .error e
        | .ok tp => .ok { regions := rg, metaPayload := mp, tliPayload := tp }

def loadBlocks (H : Bytes → Bytes) (ty : UInt8) (file : Bytes) : List (Nat × Nat) → Except TErr (List Bytes)
  | [] => .ok []
  | (off, size) :: r =>
    match decodeBlockFile H (some ty) (file.drop off) size with
    | .error e => .error (.block e)
    | .ok (_, p) =>
      match loadBlocks H ty file r with
      | .error e => .error e
      | .ok ps => .ok (p :: ps)

/-- everything a full read of a table with a full (non-partitioned) index and filter returns -/
structure TableData where
  metaPayload : Bytes
  tliPayload : Bytes
  dataPayloads : List Bytes
  filterPayload : Option Bytes
deriving DecidableEq, Repr

/-- open + load every data block named by the index + load the filter block (A7) -/
def readTableFully (H : Bytes → Bytes) (handlesOf : Bytes → Option (List (Nat × Nat))) (file : Bytes) :
    Except TErr TableData :=
  match openTable H file with
  | .error e => .error e
  | .ok o =>
    match handlesOf o.tliPayload with
    | none => .error .indexContent
    | some hs =>
      match loadBlocks H 0 file hs with
      | .error e => .error e
      | .ok ds =>
        match o.regions.filter with
        | none => .ok { metaPayload := o.metaPayload, tliPayload := o.tliPayload, dataPayloads := ds,
                        filterPayload := none }
        | some fe =>
          match loadEntry H 2 file fe with
          | .error e => .error e
          | .ok fp => .ok { metaPayload := o.metaPayload, tliPayload := o.tliPayload, dataPayloads := ds,
                            filterPayload := some fp }

/-! ### region map of a table file -/

inductive Region where
  | dataBlock (i : Nat)
  | tliBlock
  | filterBlock
  | tableVersion
  | metaBlock
  | toc
  | trailerMagic
  | trailerVersion
  | trailerChecksumType
  | trailerChecksum
  | trailerTocPos
  /-- the last 8 bytes: written, never read -/
  | trailerTocLen
deriving DecidableEq, Repr

/-- index of the block containing offset `p` in a sequence of blocks laid end to end, if any -/
def blockIndexAt : List Bytes → Nat → Option Nat
  | [], _ => none
  | b :: r, p => if p < b.length then some 0 else (blockIndexAt r (p - b.length)).map (· + 1)

def concatBlocks : List Bytes → Bytes
  | [] => []
  | b :: r => b ++ concatBlocks r

/-- the frames a (full-index, optional full-filter) table file is assembled from -/
structure TableParts where
  dataFrames : List Bytes
  tliFrame : Bytes
  filterFrame : Option Bytes
  metaFrame : Bytes
deriving DecidableEq, Repr

def filterBytes (t : TableParts) : Bytes := t.filterFrame.getD []

/-- the sections `table::Writer` emits (full index, no linked blob files): data, tli, [filter,] table_version, meta -/
def tableSections (t : TableParts) : List (Bytes × Bytes) :=
  [(nData, concatBlocks t.dataFrames), (nTli, t.tliFrame)]
    ++ (match t.filterFrame with | some f => [(nFilter, f)] | none => [])
    ++ [(nTableVersion, [3]), (nMeta, t.metaFrame)]

def tableFile (H : Bytes → Bytes) (t : TableParts) : Bytes := encodeArchive H (tableSections t)

/-- which region of `tableFile H t` the byte offset `p` lies in (`none`: beyond the end) -/
def regionOf (t : TableParts) (p : Nat) : Option Region :=
  let d := (concatBlocks t.dataFrames).length
  let a1 := d + t.tliFrame.length
  let a2 := a1 + (filterBytes t).length
  let a3 := a2 + 1
  let a4 := a3 + t.metaFrame.length
  let a5 := a4 + (encodeToc (tocEntries (tableSections t))).length
  if p < d then (blockIndexAt t.dataFrames p).map Region.dataBlock
  else if p < a1 then some .tliBlock
  else if p < a2 then some .filterBlock
  else if p < a3 then some .tableVersion
  else if p < a4 then some .metaBlock
  else if p < a5 then some .toc
  else if p < a5 + 4 then some .trailerMagic
  else if p < a5 + 5 then some .trailerVersion
  else if p < a5 + 6 then some .trailerChecksumType
  else if p < a5 + 22 then some .trailerChecksum
  else if p < a5 + 30 then some .trailerTocPos
  else if p < a5 + 38 then some .trailerTocLen
  else none

/-- Regions in which NO check of the real reader looks at the byte. -/
def Region.unread : Region → Bool
  | .tableVersion | .trailerTocLen => true
  | _ => false

end Lsm.Archive
