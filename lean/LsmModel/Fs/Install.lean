/-!
# File-system model of the version-install protocol (executable)

The real tree installs a new version of its on-disk state in four stages: (1) write the new table / blob files and
make them durable (fsync file, fsync directory), (2) write the version file `v<N+1>` and make it durable, (3) write
a temporary file holding the new version number, fsync it, rename it over `current`, fsync the root directory,
(4) unlink what only the old version named.  Recovery reads `current`, then `v<N>`, then every file it names.

This file is the executable half: states, actions, the per-action protocol guard, an acceptor for traced action
sequences, and a finite enumerator of adversarial crash images with the recovery function.  Everything is
decidable and structurally recursive so that `decide` evaluates concrete examples and the driver (`lean_exe`) can
link it; it imports nothing.  The proofs are in `LsmModel/Lemmas/FsLemmas.lean`.
-/
namespace Lsm.Fs

/-- `(directory, name)`; directory 0 = tree root (name `N` is the version file `v<N>`), 1 = `tables/`, 2 = `blobs/` -/
abbrev Path := Nat × Nat

structure File where
  /-- volatile content, chunk by chunk -/
  data   : List Nat
  /-- length of the prefix known to be durable -/
  synced : Nat
  /-- the directory entry is durable -/
  linked : Bool
deriving DecidableEq, Repr

/-- what a version needs on disk: every file it names (its own version file `(0, id)` included) with full content -/
structure Ver where
  id    : Nat
  files : List (Path × List Nat)
deriving DecidableEq, Repr

structure Fs where
  /-- association list, first match wins; updates erase the key first, so it stays duplicate-free -/
  files   : List (Path × File)
  /-- durable content of `current` -/
  curDur  : Nat
  /-- renamed but root directory not yet synced: (new value, the temp file had been fsynced) -/
  pending : Option (Nat × Bool)
  /-- the temp file: (value, fsynced) -/
  tmp     : Option (Nat × Bool)
deriving DecidableEq, Repr

/-- what a crash leaves behind -/
structure Disk where
  files   : List (Path × List Nat)
  /-- `none` = `current` unreadable -/
  current : Option Nat
deriving DecidableEq, Repr

inductive Act
  | create (p : Path) | append (p : Path) (c : Nat) | fsyncFile (p : Path) | fsyncDir (dir : Nat)
  | writeTmp (v : Nat) | fsyncTmp | rename | unlink (p : Path)
deriving DecidableEq, Repr

/-! ### association lists -/

def lookup {α : Type} : List (Path × α) → Path → Option α
  | [], _ => none
  | (q, x) :: rest, p => if q = p then some x else lookup rest p

def del {α : Type} (l : List (Path × α)) (p : Path) : List (Path × α) := l.filter (fun e => e.1 != p)

def put {α : Type} (l : List (Path × α)) (p : Path) (x : α) : List (Path × α) := (p, x) :: del l p

def upd {α : Type} (l : List (Path × α)) (p : Path) (g : α → α) : List (Path × α) :=
  l.map (fun e => if e.1 = p then (e.1, g e.2) else e)

/-- make the directory entries of directory `dir` durable -/
def linkDir (l : List (Path × File)) (dir : Nat) : List (Path × File) :=
  l.map (fun e => if e.1.1 = dir then (e.1, { e.2 with linked := true }) else e)

def Fs.get (fs : Fs) (p : Path) : Option File := lookup fs.files p
def Disk.get (d : Disk) (p : Path) : Option (List Nat) := lookup d.files p

/-! ### actions -/

def apply (fs : Fs) : Act → Fs
  | .create p      => { fs with files := put fs.files p ⟨[], 0, false⟩ }
  | .append p c    => { fs with files := upd fs.files p (fun f => { f with data := f.data ++ [c] }) }
  | .fsyncFile p   => { fs with files := upd fs.files p (fun f => { f with synced := f.data.length }) }
  | .fsyncDir dir  =>
      { fs with
        files   := linkDir fs.files dir
        curDur  := if dir = 0 then (match fs.pending with | some (v, true) => v | _ => fs.curDur) else fs.curDur
        pending := if dir = 0 then (match fs.pending with | some (v, false) => some (v, false) | _ => none)
                   else fs.pending }
  | .writeTmp v    => { fs with tmp := some (v, false) }
  | .fsyncTmp      => { fs with tmp := fs.tmp.map (fun t => (t.1, true)) }
  | .rename        => match fs.tmp with
                      | some t => { fs with pending := some t, tmp := none }
                      | none   => fs
  | .unlink p      => { fs with files := del fs.files p }

def run (fs : Fs) (as : List Act) : Fs := as.foldl apply fs

/-- the quiescent state in which exactly `v`'s files exist, fully durable, and `current` durably names `v` -/
def Fs.ofVersion (v : Ver) : Fs :=
  { files   := v.files.foldr (fun pf acc => put acc pf.1 ⟨pf.2, pf.2.length, true⟩) []
    curDur  := v.id
    pending := none
    tmp     := none }

/-- a version description is well formed when it names no path twice with different contents -/
def Ver.wfB (v : Ver) : Bool :=
  v.files.all (fun pf => v.files.all (fun pf' => pf.1 != pf'.1 || pf.2 == pf'.2))

/-! ### the protocol guard -/

/-- the file is present with exactly the expected content, fully synced, and its directory entry is durable -/
def durableB (fs : Fs) (pf : Path × List Nat) : Bool :=
  match fs.get pf.1 with
  | some f => f.data == pf.2 && f.synced == f.data.length && f.linked
  | none   => false

def namesB (v : Ver) (p : Path) : Bool := v.files.any (fun pf => pf.1 == p)

inductive Phase | before | renamed | installed
deriving DecidableEq, Repr

def phaseOf (_old new : Ver) (fs : Fs) : Phase :=
  if fs.curDur = new.id then .installed else if fs.pending.isSome then .renamed else .before

/-- The install-protocol guard of one action:
 * files the old version names are never created over or appended to;
 * files the new version names are written only before the rename;
 * the temp file receives the new version number, before the rename;
 * the rename happens once, with the temp file fsynced and every file of the new version durable;
 * nothing the new version names is unlinked, and what the old version names only after the install is durable. -/
def guardB (old new : Ver) (fs : Fs) : Act → Bool
  | .create p     => !namesB old p && (phaseOf old new fs == .before || !namesB new p)
  | .append p _   => !namesB old p && (phaseOf old new fs == .before || !namesB new p)
  | .fsyncFile _  => true
  | .fsyncDir _   => true
  | .writeTmp v   => v == new.id && phaseOf old new fs == .before
  | .fsyncTmp     => true
  | .rename       => phaseOf old new fs == .before && fs.tmp == some (new.id, true) &&
                     new.files.all (durableB fs)
  | .unlink p     => !namesB new p && (phaseOf old new fs == .installed || !namesB old p)

/-- index of the first rejected action; `none` = every action accepted -/
def acceptsFrom (old new : Ver) : Fs → List Act → Option Nat
  | _, [] => none
  | fs, a :: as =>
    if guardB old new fs a then (acceptsFrom old new (apply fs a) as).map (· + 1) else some 0

/-- what must hold when the operation RETURNS: `current` durably names the new version -/
def completedB (_old new : Ver) (fs : Fs) : Bool := fs.curDur == new.id && fs.pending.isNone

/-- a whole history: operation `k` installs `ops[k].1` over the version the previous operation installed;
every operation but the last must have completed.  Result: (operation index, action index or `none` when the
operation was accepted but had not completed although another one follows). -/
def historyFrom : Ver → Fs → List (Ver × List Act) → Option (Nat × Option Nat)
  | _, _, [] => none
  | v, fs, (v', as) :: rest =>
    if v.id == v'.id then some (0, none) else
    match acceptsFrom v v' fs as with
    | some i => some (0, some i)
    | none =>
      if rest.isEmpty then none
      else if completedB v v' (run fs as) then
        (historyFrom v' (run fs as) rest).map (fun r => (r.1 + 1, r.2))
      else some (0, none)

/-! ### operations that fail part-way (C16) -/

/-- a failing action returns an error and is not applied (a failed `append` has appended nothing) -/
def applyOrFail (fs : Fs) (a : Act) (ok : Bool) : Fs := if ok then apply fs a else fs

/-- run the actions with their outcomes; the operation stops at the first failure -/
def runOutcomes (fs : Fs) : List (Act × Bool) → Fs
  | [] => fs
  | (a, ok) :: rest => if ok then runOutcomes (applyOrFail fs a ok) rest else applyOrFail fs a ok

/-- the first `j` actions succeed, action `j` (if there is one) fails -/
def failAt (as : List Act) (j : Nat) : List (Act × Bool) :=
  (as.take j).map (·, true) ++ ((as.drop j).take 1).map (·, false)

/-! ### crash images and recovery -/

/-- every adversarial outcome for the files: an entry that is not durably linked may vanish; of the content any
prefix that contains the synced prefix may survive -/
def crashFiles : List (Path × File) → List (List (Path × List Nat))
  | [] => [[]]
  | (p, f) :: rest =>
    let rs := crashFiles rest
    let ks := (List.range (f.data.length + 1)).filter (fun k => f.synced ≤ k)
    (if f.linked then [] else rs.map (fun r => del r p)) ++
      rs.flatMap (fun r => ks.map (fun k => (p, f.data.take k) :: del r p))

/-- `current` after a crash: the durable value; or, while a rename is pending, either value — and garbage
(`none`) when the temp file had not been fsynced before the rename -/
def crashCurrent (fs : Fs) : List (Option Nat) :=
  match fs.pending with
  | none            => [some fs.curDur]
  | some (v, true)  => [some fs.curDur, some v]
  | some (v, false) => [none, some fs.curDur, some v]

def crashOutcomes (fs : Fs) : List Disk :=
  (crashFiles fs.files).flatMap (fun r => (crashCurrent fs).map (fun c => ⟨r, c⟩))

def fileOkB (d : Disk) (pf : Path × List Nat) : Bool := d.get pf.1 == some pf.2

/-- recovery: the id of the version `current` names, provided all its files are present with exactly the
expected content -/
def recover (d : Disk) (candidates : List Ver) : Option Nat :=
  match d.current with
  | none => none
  | some c =>
    match candidates.find? (fun v => v.id == c) with
    | none => none
    | some v => if v.files.all (fileOkB d) then some v.id else none

/-- deleting a file from a crash image (garbage collection after recovery) -/
def Disk.remove (d : Disk) (p : Path) : Disk := { d with files := del d.files p }

/-! ### rendering -/

def showAct : Act → String
  | .create p     => s!"create {p.1}/{p.2}"
  | .append p c   => s!"append {p.1}/{p.2} chunk {c}"
  | .fsyncFile p  => s!"fsync {p.1}/{p.2}"
  | .fsyncDir d   => s!"fsyncdir {d}"
  | .writeTmp v   => s!"write tmp {v}"
  | .fsyncTmp     => "fsync tmp"
  | .rename       => "rename tmp current"
  | .unlink p     => s!"unlink {p.1}/{p.2}"

def showPhase : Phase → String
  | .before => "before" | .renamed => "renamed" | .installed => "installed"

/-- render the verdict of `acceptsFrom old new fs as` -/
def showReject (old new : Ver) (fs : Fs) (as : List Act) : String :=
  match acceptsFrom old new fs as with
  | none => s!"accepted ({as.length} actions, install v{old.id} -> v{new.id})"
  | some i =>
    let st := run fs (as.take i)
    let a := match as.drop i with | a :: _ => showAct a | [] => "?"
    s!"rejected at action {i} ({a}) of install v{old.id} -> v{new.id}: phase {showPhase (phaseOf old new st)}, " ++
    s!"current durably {st.curDur}, pending {repr st.pending}, tmp {repr st.tmp}, " ++
    s!"new-version files not durable: {repr ((new.files.filter (fun pf => !durableB st pf)).map (·.1))}"

end Lsm.Fs
