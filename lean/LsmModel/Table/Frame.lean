/-
  LsmModel.Table.Frame — how bytes on disk are framed and checked (property C10).

  Anchors in /repo:
    src/file.rs                      MAGIC_BYTES, read_exact, rewrite_atomic
    src/checksum.rs                  Checksum::check, ChecksummedWriter
    src/hash.rs                      hash128 = xxh3_128
    src/table/block/type.rs          BlockType, TryFrom<u8>
    src/table/block/header.rs        Header::{encode_into, decode_from}, ChecksummedReader
    src/table/block/mod.rs           Block::{write_into, from_reader, from_file}
    src/table/util.rs                load_block (block type check)
    src/vlog/blob_file/writer.rs     Writer::write_raw (blob frame)
    src/vlog/blob_file/reader.rs     Reader::get
    src/version/persist.rs           persist_version (`current` file)
    src/version/recovery.rs          get_current_version, recover

  Model files import nothing (the driver links as a plain lean_exe).

  ════════════════════════════════ MODELLING NOTES ════════════════════════════════
  N1  Bytes are `List UInt8`.  The 128-bit hash is a PARAMETER `H : Bytes → Bytes`; `H x` stands for the 16 bytes that
      `write_u128::<LE>(xxh3_128(x))` emits (little-endian encoding of the digest).  Theorems that need the width
      carry the hypothesis `∀ x, (H x).length = 16`; nothing else is assumed about `H` (no collision freedom).
  N2  The 32-bit header checksum is `checksum.into_u128() as u32` written with `write_u32::<LE>`, i.e. the low four
      bytes of the digest = the FIRST four bytes of its little-endian encoding: `first4 (H prefix)`.  The decoder
      compares `u128::from(read_u32)` with `u128::from(digest as u32)`; both sides are < 2^32, so that is equality
      of the four bytes read with `first4 (H prefix)`.
  N3  The header prefix that is hashed is what `ChecksummedWriter`/`ChecksummedReader` see: magic(4) ++ type(1) ++
      payload checksum(16) ++ data_length(4) ++ uncompressed_length(4) = 29 bytes.  The magic IS part of the hashed
      prefix.  Streaming xxh3 (`update` per piece) equals the hash of the concatenation (assumed of xxhash_rust).
      `Header::serialized_len()` = 33.
  N4  `MAGIC_BYTES = [b'L', b'S', b'M', 3]` = [76, 83, 77, 3].   `BLOB_HEADER_MAGIC = b"BLOB"` = [66, 76, 79, 66].
      `BLOB_HEADER_LEN` = 4+16+8+2+4+4 = 38.   `BlockType`: Data=0, Index=1, Filter=2, Meta=3, other → InvalidTag.
  N5  Readers.  `read_exact`/`read_uN` on `&[u8]`, `Cursor<&[u8]>` and `file::read_exact` fail with
      io::ErrorKind::UnexpectedEof when fewer bytes remain than requested ⇒ `Err.truncated` (`readN`).  Other I/O
      errors are outside the model.  `Slice::from_reader(reader, n)` = `read_exact` of `n` bytes (the allocation of
      up to 4 GiB for a corrupted length is not modelled).
  N6  Order of checks in `Header::decode_from` (transcribed in that order): read magic(4) → compare (InvalidHeader)
      → read type byte → `BlockType::try_from` (InvalidTag) → read u128, u32, u32 → read u32 header checksum →
      compare (ChecksumMismatch).  So a bad type byte is reported as InvalidTag BEFORE the header checksum is looked at.
  N7  Error mapping (Rust → model):
        io UnexpectedEof                                   → truncated
        InvalidHeader("Block") / InvalidHeader("Blob")     → invalidMagic
        InvalidTag(("BlockType", b)) from try_from (b > 3) → invalidTag
        ChecksumMismatch in Header::decode_from            → headerChecksum
        ChecksumMismatch in from_reader/from_file/blob get → payloadChecksum
        InvalidTag(("BlockType", b)) from load_block (b≤3) → blockTypeMismatch
        InvalidTag(("ChecksumType", b))                    → invalidChecksumType
        ChecksumMismatch in recover (version file)         → versionChecksum
        debug_assert_eq! failure (debug builds only)       → panicDebugAssert
      Rust uses ONE variant `ChecksumMismatch` for the three checksum errors and ONE variant `InvalidTag` for the
      two block-type errors; a harness comparing error classes must merge them (`Err.rustClass`).
  N8  Compression: `CompressionType::None` only (feature lz4 is off).  With `None`, `uncompressed_length` is never
      used by a release build; debug builds `debug_assert_eq!(header.uncompressed_length, data.len() as u32)`.
      `decodeBlock*` are the release semantics; `decodeBlockDbg`/`decodeBlockExactDbg` add the assertion.
      (`data.len() as u32` does not truncate there: the length equals `data_length`, read from 4 bytes, or is
      checked against it modulo 2^32 — the model uses `% 2^32` for from_file where the length is the handle's.)
  N9  `Block::from_reader` reads exactly `data_length` bytes and ignores whatever follows ⇒ `decodeBlock` ignores
      trailing bytes.  `Block::from_file` reads exactly `handle.size()` bytes at `handle.offset()`
      (`file::read_exact`: short file ⇒ UnexpectedEof), decodes the header from that buffer, and hashes
      `buf[33..]` — it NEVER LOOKS AT `header.data_length`.  `decodeBlockExact` is from_file on the buffer,
      `decodeBlockFile` prepends the `read_exact` step (`fileTail` = file content from `handle.offset()` on).
      `buf[33..]` cannot panic: `decode_from` already failed with EOF if the buffer has < 33 bytes.
  N10 `load_block` checks `block.header.block_type != block_type` AFTER `from_file` succeeded (so after both
      checksums).  `expectedType = none` models callers of `from_reader`/`from_file` without that check.  A cache hit
      in `load_block` bypasses everything (bytes were checked when inserted) — not modelled here.
  N11 `Block::write_into` casts lengths `as u32` (silent truncation for ≥ 4 GiB payloads); the model encodes
      `len % 2^32` the same way (`leBytes 4`); round-trip theorems assume `payload.length < 2^32`.
  N12 Blob frame (writer, compression None): "BLOB" ++ H(key ++ value) ++ seqno u64 ++ key_len u16 ++ real_val_len u32
      ++ on_disk_val_len u32 ++ key ++ value.  The writer asserts key non-empty, key.len ≤ u16::MAX, value.len ≤
      u32::MAX (panics otherwise; not modelled — theorems carry the bounds).
      Reader `get(key, vhandle)`: reads `BLOB_HEADER_LEN + key.len() + vhandle.on_disk_size` bytes at
      `vhandle.offset` (short ⇒ truncated); checks the magic; reads checksum, seqno, key_len, real_val_len,
      on_disk_val_len; reads `key_len` (the STORED length) bytes as the key (past the buffer ⇒ truncated);
      `raw_data = buf[38 + key.len() ..]` with the length of the key ARGUMENT; compares `H(stored key ++ raw_data)`
      with the stored checksum.  It does NOT compare the stored key with the key argument, and seqno,
      real_val_len, on_disk_val_len are covered by NO check (real_val_len only by a debug_assert; the other two are
      not used).  key_len is not covered by the hash either, but a changed key_len changes what is hashed.
      Model inputs: `keyLen` = `key.len()` of the argument, `onDiskSize` = `vhandle.on_disk_size`,
      `fileTail` = blob file content from `vhandle.offset` on.
  N13 `current` file = version id u64 LE ++ H(whole `v<id>` file) ++ [0]  (25 bytes; 0 = ChecksumType::Xxh3), written
      by `rewrite_atomic` (temp file + rename; atomicity is C05/C16, not here).
      /repo/src/version/recovery.rs AS OF NOW (HEAD cc44fe2 + worktree) does NOT verify anything:
      `get_current_version` reads the first 8 bytes of `current`, and `recover` carries
      `// TODO: maybe validate current version using the checksum in "current"`.  That is `recoverVersionIdNow`
      (finding F1).  `checkVersionFile` transcribes the REPAIR in /verif/notes/candidate-fixes.patch:
      read id (8 bytes of `current`), reopen `current`, read u64, u128, u8; type ≠ 0 → InvalidTag("ChecksumType");
      read the whole version file; `hash128(bytes)` vs checksum → ChecksumMismatch.
      `current` has no checksum of its own: its id field is protected only indirectly (a wrong id names another
      file, whose hash must then match).
  N14 sfa archive structure (TOC/trailer of table, blob and version files) is NOT modelled here.
  ═════════════════════════════════════════════════════════════════════════════════
-/
namespace Lsm.Frame

abbrev Bytes := List UInt8

/-- Stand-in for `Decidable (e₁ = e₂)` on results (core has no instance for `Except`). -/
instance instDecidableEqExcept {ε α : Type} [DecidableEq ε] [DecidableEq α] : DecidableEq (Except ε α)
  | .ok a, .ok b => if h : a = b then isTrue (by rw [h]) else isFalse (fun h' => h (by cases h'; rfl))
  | .error a, .error b => if h : a = b then isTrue (by rw [h]) else isFalse (fun h' => h (by cases h'; rfl))
  | .ok _, .error _ => isFalse (fun h => by cases h)
  | .error _, .ok _ => isFalse (fun h => by cases h)

/-! ## little-endian integers -/

/-- `write_uN::<LE>(n as uN)` with `w = N/8` bytes (`n` is reduced modulo `256^w`, like an `as` cast). -/
def leBytes : Nat → Nat → Bytes
  | 0, _ => []
  | w + 1, n => UInt8.ofNat (n % 256) :: leBytes w (n / 256)

/-- `read_uN::<LE>` on the `N/8` bytes given. -/
def leNat : Bytes → Nat
  | [] => 0
  | b :: bs => b.toNat + 256 * leNat bs

def u16le (n : Nat) : Bytes := leBytes 2 n
def u32le (n : Nat) : Bytes := leBytes 4 n
def u64le (n : Nat) : Bytes := leBytes 8 n
def u128le (n : Nat) : Bytes := leBytes 16 n

/-- low 32 bits of a 128-bit digest given as its 16 little-endian bytes (`digest as u32`, written LE) -/
def first4 (b : Bytes) : Bytes := b.take 4

/-! ## errors and readers -/

inductive Err where
  | truncated
  | invalidMagic
  | invalidTag
  | headerChecksum
  | payloadChecksum
  | blockTypeMismatch
  | invalidChecksumType
  | versionChecksum
  | panicDebugAssert
deriving DecidableEq, Repr, Inhabited

def Err.toString : Err → String
  | .truncated => "truncated"
  | .invalidMagic => "invalidMagic"
  | .invalidTag => "invalidTag"
  | .headerChecksum => "headerChecksum"
  | .payloadChecksum => "payloadChecksum"
  | .blockTypeMismatch => "blockTypeMismatch"
  | .invalidChecksumType => "invalidChecksumType"
  | .versionChecksum => "versionChecksum"
  | .panicDebugAssert => "panicDebugAssert"

instance : ToString Err := ⟨Err.toString⟩

/-- The `crate::Error` variant (or panic) the Rust code reports (MODELLING NOTES N7). -/
def Err.rustClass : Err → String
  | .truncated => "Io(UnexpectedEof)"
  | .invalidMagic => "InvalidHeader"
  | .invalidTag | .blockTypeMismatch | .invalidChecksumType => "InvalidTag"
  | .headerChecksum | .payloadChecksum | .versionChecksum => "ChecksumMismatch"
  | .panicDebugAssert => "panic"

/-- `read_exact` of `n` bytes: the bytes read and the remaining input; `UnexpectedEof` if fewer remain. -/
def readN (n : Nat) (bs : Bytes) : Except Err (Bytes × Bytes) :=
  if bs.length < n then .error .truncated else .ok (bs.take n, bs.drop n)

/-- `read_u8` -/
def readByte : Bytes → Except Err (UInt8 × Bytes)
  | [] => .error .truncated
  | b :: r => .ok (b, r)

/-! ## block header -/

/-- `MAGIC_BYTES` -/
def blockMagic : Bytes := [76, 83, 77, 3]

/-- `Header::serialized_len()` -/
abbrev headerLen : Nat := 33

/-- length of the part of the header covered by the header checksum -/
abbrev prefixLen : Nat := 29

structure Header where
  blockType : UInt8
  /-- 16 bytes: the payload digest as written by `write_u128::<LE>` -/
  checksum : Bytes
  dataLength : Nat
  uncompressedLength : Nat
deriving DecidableEq, Repr, Inhabited

/-- the 29 bytes written through the `ChecksummedWriter` -/
def headerPrefix (h : Header) : Bytes :=
  blockMagic ++ [h.blockType] ++ h.checksum ++ u32le h.dataLength ++ u32le h.uncompressedLength

/-- `Header::encode_into` with the 4-byte header hash as a function parameter. -/
def encodeHeaderCore (h32 : Bytes → Bytes) (h : Header) : Bytes :=
  headerPrefix h ++ h32 (headerPrefix h)

/-- `Header::encode_into` -/
def encodeHeader (H : Bytes → Bytes) (h : Header) : Bytes :=
  encodeHeaderCore (fun x => first4 (H x)) h

/-- `Header::decode_from`; returns the header and the unread rest. `h32` is applied to the bytes that went
through the `ChecksummedReader`, in reading order. -/
def decodeHeaderCore (h32 : Bytes → Bytes) (bs : Bytes) : Except Err (Header × Bytes) :=
  match readN 4 bs with
  | .error e => .error e
  | .ok (magic, r1) =>
    if magic ≠ blockMagic then .error .invalidMagic else
    match readByte r1 with
    | .error e => .error e
    | .ok (ty, r2) =>
      if 3 < ty then .error .invalidTag else
      match readN 16 r2 with
      | .error e => .error e
      | .ok (ck, r3) =>
        match readN 4 r3 with
        | .error e => .error e
        | .ok (dl, r4) =>
          match readN 4 r4 with
          | .error e => .error e
          | .ok (ul, r5) =>
            let got := h32 (magic ++ [ty] ++ ck ++ dl ++ ul)
            match readN 4 r5 with
            | .error e => .error e
            | .ok (hh, r6) =>
              if hh ≠ got then .error .headerChecksum else
              .ok ({ blockType := ty, checksum := ck, dataLength := leNat dl,
                     uncompressedLength := leNat ul }, r6)

def decodeHeader (H : Bytes → Bytes) (bs : Bytes) : Except Err (Header × Bytes) :=
  decodeHeaderCore (fun x => first4 (H x)) bs

/-! ## blocks -/

/-- `Block::write_into(.., data, block_type, CompressionType::None)` -/
def encodeBlock (H : Bytes → Bytes) (blockType : UInt8) (payload : Bytes) : Bytes :=
  encodeHeader H { blockType := blockType, checksum := H payload,
                   dataLength := payload.length, uncompressedLength := payload.length } ++ payload

/-- the `load_block` comparison, applied to the result of `from_reader`/`from_file` -/
def checkType (expectedType : Option UInt8) (r : Except Err (Header × Bytes)) : Except Err (Header × Bytes) :=
  match r with
  | .error e => .error e
  | .ok (h, payload) =>
    match expectedType with
    | none => .ok (h, payload)
    | some t => if h.blockType ≠ t then .error .blockTypeMismatch else .ok (h, payload)

/-- `Block::from_reader` (release build), hash functions as parameters, returning the header too. -/
def readBlockCore (h32 h128 : Bytes → Bytes) (bytes : Bytes) : Except Err (Header × Bytes) :=
  match decodeHeaderCore h32 bytes with
  | .error e => .error e
  | .ok (h, r) =>
    match readN h.dataLength r with
    | .error e => .error e
    | .ok (raw, _) =>
      if h128 raw ≠ h.checksum then .error .payloadChecksum else .ok (h, raw)

/-- `Block::from_file` (release build) on the buffer of `handle.size()` bytes: the payload is everything after
the header; `data_length` is not consulted. -/
def readBlockExactCore (h32 h128 : Bytes → Bytes) (buf : Bytes) : Except Err (Header × Bytes) :=
  match decodeHeaderCore h32 buf with
  | .error e => .error e
  | .ok (h, _) =>
    let raw := buf.drop headerLen
    if h128 raw ≠ h.checksum then .error .payloadChecksum else .ok (h, raw)

/-- the `debug_assert_eq!(header.uncompressed_length, data.len() as u32)` of debug builds (inside
`from_reader`/`from_file`, i.e. before the caller's type check) -/
def debugAssert (r : Except Err (Header × Bytes)) : Except Err (Header × Bytes) :=
  match r with
  | .error e => .error e
  | .ok (h, p) => if h.uncompressedLength ≠ p.length % 4294967296 then .error .panicDebugAssert else .ok (h, p)

def resultOf (r : Except Err (Header × Bytes)) : Except Err (UInt8 × Bytes) :=
  match r with
  | .error e => .error e
  | .ok (h, p) => .ok (h.blockType, p)

def decodeBlockCore (h32 h128 : Bytes → Bytes) (expectedType : Option UInt8) (bytes : Bytes) :
    Except Err (Header × Bytes) :=
  checkType expectedType (readBlockCore h32 h128 bytes)

def decodeBlockExactCore (h32 h128 : Bytes → Bytes) (expectedType : Option UInt8) (buf : Bytes) :
    Except Err (Header × Bytes) :=
  checkType expectedType (readBlockExactCore h32 h128 buf)

/-- `decodeBlock` returning the whole header. -/
def decodeBlockFull (H : Bytes → Bytes) (expectedType : Option UInt8) (bytes : Bytes) :
    Except Err (Header × Bytes) :=
  decodeBlockCore (fun x => first4 (H x)) H expectedType bytes

/-- `Block::from_reader` (release build) followed by the type check of `load_block` (if `expectedType` is given). -/
def decodeBlock (H : Bytes → Bytes) (expectedType : Option UInt8) (bytes : Bytes) : Except Err (UInt8 × Bytes) :=
  resultOf (decodeBlockFull H expectedType bytes)

/-- `decodeBlockExact` returning the whole header. -/
def decodeBlockExactFull (H : Bytes → Bytes) (expectedType : Option UInt8) (buf : Bytes) :
    Except Err (Header × Bytes) :=
  decodeBlockExactCore (fun x => first4 (H x)) H expectedType buf

/-- `Block::from_file` (release build) on the `handle.size()` bytes, followed by the type check of `load_block`. -/
def decodeBlockExact (H : Bytes → Bytes) (expectedType : Option UInt8) (buf : Bytes) : Except Err (UInt8 × Bytes) :=
  resultOf (decodeBlockExactFull H expectedType buf)

/-- `load_block` on a file: `fileTail` is the file content from `handle.offset()` on, `size = handle.size()`. -/
def decodeBlockFile (H : Bytes → Bytes) (expectedType : Option UInt8) (fileTail : Bytes) (size : Nat) :
    Except Err (UInt8 × Bytes) :=
  match readN size fileTail with
  | .error e => .error e
  | .ok (buf, _) => decodeBlockExact H expectedType buf

/-- debug builds of `from_reader` + type check -/
def decodeBlockDbg (H : Bytes → Bytes) (expectedType : Option UInt8) (bytes : Bytes) : Except Err (UInt8 × Bytes) :=
  resultOf (checkType expectedType (debugAssert (readBlockCore (fun x => first4 (H x)) H bytes)))

/-- debug builds of `from_file` + type check -/
def decodeBlockExactDbg (H : Bytes → Bytes) (expectedType : Option UInt8) (buf : Bytes) :
    Except Err (UInt8 × Bytes) :=
  resultOf (checkType expectedType (debugAssert (readBlockExactCore (fun x => first4 (H x)) H buf)))

/-! ### the same decoders with hash VALUES supplied as data (correspondence harness) -/

/-- The byte string the real code feeds to the header hasher, when it gets that far. -/
def hdrPrefixOf (bytes : Bytes) : Bytes := bytes.take prefixLen

/-- The stored 4-byte header checksum field. -/
def hdrHashFieldOf (bytes : Bytes) : Bytes := (bytes.drop prefixLen).take 4

/-- The payload `from_reader` hashes, when it gets that far: `data_length` bytes after the header. -/
def payloadOf (bytes : Bytes) : Bytes := (bytes.drop headerLen).take (leNat ((bytes.drop 21).take 4))

/-- The payload `from_file` hashes: everything after the header. -/
def payloadOfExact (buf : Bytes) : Bytes := buf.drop headerLen

/-- `decodeBlock` with the two hash evaluations replaced by given values: `hHeader` = the 4 bytes the real code
computes for `hdrPrefixOf bytes`, `hPayload` = the 16 bytes it computes for `payloadOf bytes`. -/
def decodeBlockWith (hHeader hPayload : Bytes) (expectedType : Option UInt8) (bytes : Bytes) :
    Except Err (UInt8 × Bytes) :=
  resultOf (decodeBlockCore (fun _ => hHeader) (fun _ => hPayload) expectedType bytes)

/-- `decodeBlockExact` with hash values: `hPayload` = the 16 bytes for `payloadOfExact buf`. -/
def decodeBlockExactWith (hHeader hPayload : Bytes) (expectedType : Option UInt8) (buf : Bytes) :
    Except Err (UInt8 × Bytes) :=
  resultOf (decodeBlockExactCore (fun _ => hHeader) (fun _ => hPayload) expectedType buf)

/-! ## blob frames -/

/-- `BLOB_HEADER_MAGIC` -/
def blobMagic : Bytes := [66, 76, 79, 66]

/-- `BLOB_HEADER_LEN` -/
abbrev blobHeaderLen : Nat := 38

structure BlobFrame where
  /-- 16 bytes -/
  checksum : Bytes
  seqno : Nat
  keyLen : Nat
  realLen : Nat
  onDiskLen : Nat
  key : Bytes
  value : Bytes
deriving DecidableEq, Repr, Inhabited

/-- a blob frame with every field given explicitly -/
def encodeBlobRaw (f : BlobFrame) : Bytes :=
  blobMagic ++ f.checksum ++ u64le f.seqno ++ u16le f.keyLen ++ u32le f.realLen ++ u32le f.onDiskLen
    ++ f.key ++ f.value

/-- `Writer::write(key, seqno, value)` (no compression) -/
def encodeBlob (H : Bytes → Bytes) (key : Bytes) (seqno : Nat) (value : Bytes) : Bytes :=
  encodeBlobRaw { checksum := H (key ++ value), seqno := seqno, keyLen := key.length,
                  realLen := value.length, onDiskLen := value.length, key := key, value := value }

/-- `Reader::get(key, vhandle)` with `keyLen = key.len()`, `onDiskSize = vhandle.on_disk_size`, `fileTail` = the
blob file from `vhandle.offset` on. Returns all fields read; `value` is what `get` returns. -/
def decodeBlobCore (h128 : Bytes → Bytes) (keyLen onDiskSize : Nat) (fileTail : Bytes) : Except Err BlobFrame :=
  let addSize := blobHeaderLen + keyLen
  match readN (onDiskSize + addSize) fileTail with
  | .error e => .error e
  | .ok (buf, _) =>
    match readN 4 buf with
    | .error e => .error e
    | .ok (magic, r1) =>
      if magic ≠ blobMagic then .error .invalidMagic else
      match readN 16 r1 with
      | .error e => .error e
      | .ok (ck, r2) =>
        match readN 8 r2 with
        | .error e => .error e
        | .ok (sq, r3) =>
          match readN 2 r3 with
          | .error e => .error e
          | .ok (kl, r4) =>
            match readN 4 r4 with
            | .error e => .error e
            | .ok (rl, r5) =>
              match readN 4 r5 with
              | .error e => .error e
              | .ok (dl, r6) =>
                match readN (leNat kl) r6 with
                | .error e => .error e
                | .ok (key, _) =>
                  let raw := buf.drop addSize
                  if h128 (key ++ raw) ≠ ck then .error .payloadChecksum else
                  .ok { checksum := ck, seqno := leNat sq, keyLen := leNat kl, realLen := leNat rl,
                        onDiskLen := leNat dl, key := key, value := raw }

def blobValueOf (r : Except Err BlobFrame) : Except Err Bytes :=
  match r with
  | .error e => .error e
  | .ok f => .ok f.value

def decodeBlobFull (H : Bytes → Bytes) (keyLen onDiskSize : Nat) (fileTail : Bytes) : Except Err BlobFrame :=
  decodeBlobCore H keyLen onDiskSize fileTail

/-- `Reader::get` (release build, no compression): the value bytes returned. -/
def decodeBlob (H : Bytes → Bytes) (keyLen onDiskSize : Nat) (fileTail : Bytes) : Except Err Bytes :=
  blobValueOf (decodeBlobFull H keyLen onDiskSize fileTail)

/-- the `debug_assert_eq!(real_val_len, value.len() as u32)` of debug builds -/
def blobDebugAssert (r : Except Err BlobFrame) : Except Err BlobFrame :=
  match r with
  | .error e => .error e
  | .ok f => if f.realLen ≠ f.value.length % 4294967296 then .error .panicDebugAssert else .ok f

def decodeBlobDbg (H : Bytes → Bytes) (keyLen onDiskSize : Nat) (fileTail : Bytes) : Except Err Bytes :=
  blobValueOf (blobDebugAssert (decodeBlobFull H keyLen onDiskSize fileTail))

/-- The byte string the reader hashes, when it gets that far: stored key (stored length) ++ raw data (offset by
the ARGUMENT's key length). -/
def blobHashInputOf (keyLen onDiskSize : Nat) (fileTail : Bytes) : Bytes :=
  let buf := fileTail.take (onDiskSize + (blobHeaderLen + keyLen))
  (buf.drop blobHeaderLen).take (leNat ((buf.drop 28).take 2)) ++ buf.drop (blobHeaderLen + keyLen)

/-- the stored checksum field of a blob frame -/
def blobChecksumFieldOf (fileTail : Bytes) : Bytes := (fileTail.drop 4).take 16

/-- `decodeBlob` with the hash evaluation replaced by a given value: `hValue` = the 16 bytes the real code
computes for `blobHashInputOf keyLen onDiskSize fileTail`. -/
def decodeBlobWith (hValue : Bytes) (keyLen onDiskSize : Nat) (fileTail : Bytes) : Except Err Bytes :=
  blobValueOf (decodeBlobCore (fun _ => hValue) keyLen onDiskSize fileTail)

/-! ## `current` and the version file -/

/-- content of `current` written by `persist_version` -/
def encodeCurrent (H : Bytes → Bytes) (versionId : Nat) (versionFileBytes : Bytes) : Bytes :=
  u64le versionId ++ H versionFileBytes ++ [0]

/-- `get_current_version`: the first 8 bytes of `current`. -/
def readCurrentId (currentBytes : Bytes) : Except Err Nat :=
  match readN 8 currentBytes with
  | .error e => .error e
  | .ok (idb, _) => .ok (leNat idb)

/-- What /repo/src/version/recovery.rs does NOW before parsing `v<id>`: nothing beyond reading the id (F1). -/
def recoverVersionIdNow (currentBytes : Bytes) (_versionFileBytes : Bytes) : Except Err Nat :=
  readCurrentId currentBytes

/-- `get_current_version_checksum` of the repair: u64, u128, u8 (must be 0). -/
def readCurrentChecksum (currentBytes : Bytes) : Except Err Bytes :=
  match readN 8 currentBytes with
  | .error e => .error e
  | .ok (_, r1) =>
    match readN 16 r1 with
    | .error e => .error e
    | .ok (ck, r2) =>
      match readByte r2 with
      | .error e => .error e
      | .ok (t, _) => if t ≠ 0 then .error .invalidChecksumType else .ok ck

/-- The repaired `recover` prologue with the hash value of the version file supplied by a function parameter. -/
def checkVersionFileCore (h128 : Bytes → Bytes) (currentBytes versionFileBytes : Bytes) : Except Err Nat :=
  match readCurrentId currentBytes with
  | .error e => .error e
  | .ok id =>
    match readCurrentChecksum currentBytes with
    | .error e => .error e
    | .ok ck => if h128 versionFileBytes ≠ ck then .error .versionChecksum else .ok id

/-- The repaired `recover` prologue: id of the version whose file `versionFileBytes` (the content of `v<id>`)
passed the whole-file checksum stored in `current`. -/
def checkVersionFile (H : Bytes → Bytes) (currentBytes versionFileBytes : Bytes) : Except Err Nat :=
  checkVersionFileCore H currentBytes versionFileBytes

def checkVersionFileWith (hFile : Bytes) (currentBytes versionFileBytes : Bytes) : Except Err Nat :=
  checkVersionFileCore (fun _ => hFile) currentBytes versionFileBytes

/-! ## a toy hash for examples -/

/-- wrap-around sum of the bytes, replicated to 16 bytes: a deliberately weak "hash" -/
def sumH (b : Bytes) : Bytes := List.replicate 16 (b.foldl (· + ·) 0)

end Lsm.Frame
