import LsmModel.Table.Codec
/-
  LsmModel.Table.CodecBack — BYTE-level model of the double-ended data-block decoder: `next`, `next_back`
  (restart-interval stack), `seek` / `seek_upper` (binary search over the binary index), and the data-block side
  (`DoubleEndedPeekable`, `Iter::seek*`, `DataBlock::point_read`).  Works on the SAME byte lists as `Codec.lean`
  and reuses its varint / item parsers.  Everything is computed from the BYTES (trailer fields, binary index
  offsets), never from an item list.

  MODELLING NOTES (paths relative to /repo/src)

  B1  Panics.  `unwrap!` is `expect("should read")` (lib.rs:63-67), so every short read / bad value type / slice out of
      range in the code below PANICS.  All model functions return `Option`: `none` = "the Rust code panics (or, for
      `get_unchecked` beyond the slice, is undefined)".  `parse_*` returning `None` (the `0xFF` trailer marker,
      data_block/mod.rs:34, 60, 126) is the INNER option: `parseFullAt : … → Option (Option PItem)`.
  B2  Parsed items (data_block/mod.rs:272-316).  The Rust `DataBlockParsedItem` holds offsets; `materialize` copies
      `bytes[prefix] ++ bytes[key]` and the value.  The model's `PItem` holds the materialised entry, the consumed
      length (`reader.position()`) and, for restart heads, `key_offset()` (= `key.0`, the only use of which is
      `base_key_offset`, decoder.rs:374, 472).  A truncated item's prefix is `data[base .. base+shared]`
      (mod.rs:172-175): `decodeTrunc (data.drop base) …`, i.e. `(data.drop base).take shared` — on malformed input the
      model truncates where Rust would index out of range.  `compare_key` (mod.rs:281-290, `compare_prefixed_slice`)
      is modelled as the lexicographic comparison of the materialised key with the needle.
  B3  `Decoder::new` (table/block/decoder.rs:87-126): trailer = last 31 bytes (trailer.rs:41-75); reads
      restart_interval u8, step u8, binary_index_len u32 LE, binary_index_offset u32 LE.  lo = {offset 0, remaining 0,
      base None}; hi = {offset 0, ptr_idx = binary_index_len, stack [], base None}.  `ptr_idx == usize::MAX` (the
      wrapped sentinel, decoder.rs:294, 496-506) is `hiPtr = none`.
  B4  Binary index reader (binary_index/reader.rs): `new` slices `bytes[off .. off + len*step]` (panics if out of range),
      `len() = size / step` (panics for step 0), `get(idx)` reads u16 LE if `step == 2`, else u32 LE, at `idx*step`.
  B5  `next` (decoder.rs:442-483): stops iff `hi.base.is_some() && lo.offset >= hi.offset`; restart head iff
      `remaining_in_interval == 0`; on `Some` advances `lo.offset` and (restart) sets `lo.base`; the remaining counter
      is updated EVEN IF the parse returned `None` (476-480).  `usize::from(ri) - 1` underflows for ri = 0: `none`.
  B6  `next_back` (489-511), `consume_stack_top` (413-436), `fill_stack` (353-411) transcribed statement by statement:
      the stack holds the item offsets of ONE restart interval; top is popped; a popped offset below `lo.offset`
      (when `lo.offset > 0`) yields `None` (and stays popped); the popped item is a restart head iff the stack is
      now empty; when the stack is empty `ptr_idx` is decremented (wrapping) and the previous interval is scanned
      forward (`parse_full`, then up to `ri-1` × `parse_truncated`, stopping at the marker).
  B7  `partition_point` / `partition_point_2` (153-256): `usize::midpoint(l, r) = (l+r)/2`; the loop is given fuel
      `binary_index_len + 1`.  `left == 0` returns the literal `(0, 0)` (not `get(0)`).  `get_key_at` (137-151) is
      `parse_restart_key` (mod.rs:27-56): no value-type validation, `expect` panics at the marker or short key.
  B8  `seek` / `seek_upper` (265-333).  `Iter::seek*` (data_block/iter.rs:37-176) use `second_partition = false`,
      predicates `head_key < needle` (seek, seek_exclusive) and `head_key <= needle` (seek_upper, …_exclusive); the
      head's seqno is ignored.  The linear scans go through `DoubleEndedPeekable` (double_ended_peekable.rs), which is
      modelled with its two `MaybePeeked` slots (`none` = `Unpeeked`).  Scan loops get fuel `data.length + 1`
      (every iteration consumes an item of ≥ 1 byte).
  B9  `DataBlock::point_read` (mod.rs:412-472) is modelled on the binary-search path (no hash index / `MARKER_CONFLICT`).
      The hash-index fast path (`seek_to_offset(binary_index.get(idx))`) is NOT modelled here (HashIndex.lean models
      the index itself); the correspondence checks that real blocks WITH a hash index answer like this model.
      point_read returns the first item, from the seek position, with key = needle and `item.seqno < seqno`.
  B10 NOT modelled: index blocks (`second_partition = true` callers live in table/index_block), fixed-width integer
      wrap-arounds, `get_unchecked` UB (treated as panic/empty), the hash index fast path.
-/
namespace Lsm.CodecBack
open Lsm Lsm.Codec

/-! ### little helpers -/

/-- little-endian read of `n` bytes -/
def readLE : Nat → Bytes → Option Nat
  | 0, _ => some 0
  | _ + 1, [] => none
  | n + 1, b :: r => (readLE n r).map (fun v => b.toNat + 256 * v)

def cmpKey (a b : Bytes) : Ordering :=
  if a < b then .lt else if a = b then .eq else .gt

/-- B2 -/
structure PItem where
  e : Entry Bytes
  keyOff : Nat
  len : Nat
deriving Repr, DecidableEq

/-- position of the key inside a restart head: after type byte, seqno varint, key-len varint -/
def fullKeyPos (bs : Bytes) : Nat :=
  match bs with
  | [] => 0
  | _ :: r =>
    match decodeVarint r with
    | none => 0
    | some (_, r1) =>
      match decodeVarint r1 with
      | none => 0
      | some (_, r2) => bs.length - r2.length

/-- `parse_full` at `off` -/
def parseFullAt (data : Bytes) (off : Nat) : Option (Option PItem) :=
  match data.drop off with
  | [] => none
  | t :: r =>
    if t = 255 then some none
    else
      match decodeFull (t :: r) with
      | none => none
      | some (e, rest) => some (some ⟨e, off + fullKeyPos (t :: r), (t :: r).length - rest.length⟩)

/-- `parse_truncated` at `off` with `base_key_offset = base` -/
def parseTruncAt (data : Bytes) (off base : Nat) : Option (Option PItem) :=
  match data.drop off with
  | [] => none
  | t :: r =>
    if t = 255 then some none
    else
      match decodeTrunc (data.drop base) (t :: r) with
      | none => none
      | some (e, rest) => some (some ⟨e, 0, (t :: r).length - rest.length⟩)

/-- `get_key_at` = `parse_restart_key(..).expect(..)` -/
def restartKeyAt (data : Bytes) (pos : Nat) : Option (Bytes × Nat) :=
  match data.drop pos with
  | [] => none
  | t :: r =>
    if t = 255 then none
    else
      match decodeVarint r with
      | none => none
      | some (seqno, r1) =>
        match decodeVarint r1 with
        | none => none
        | some (klen, r2) =>
          match takeExact klen r2 with
          | none => none
          | some (k, _) => some (k, seqno)

/-! ### the decoder -/

/-- B3 -/
structure Dec where
  data : Bytes
  ri : Nat
  step : Nat
  binLen : Nat
  binOff : Nat
  loOff : Nat := 0
  loRem : Nat := 0
  loBase : Option Nat := none
  hiOff : Nat := 0
  hiPtr : Option Nat
  hiStack : List Nat := []
  hiBase : Option Nat := none
deriving Repr

/-- `Decoder::new` -/
def Dec.new (data : Bytes) : Option Dec :=
  if data.length < trailerSize then none
  else
    match data.drop (data.length - trailerSize) with
    | ri :: step :: r =>
      match readLE 4 r, readLE 4 (r.drop 4) with
      | some bl, some bo =>
        some { data := data, ri := ri.toNat, step := step.toNat, binLen := bl, binOff := bo, hiPtr := some bl }
      | _, _ => none
    | _ => none

/-- B4 `Reader::new(..).get(idx)` -/
def Dec.binGet (d : Dec) (idx : Nat) : Option Nat :=
  let w := if d.step = 2 then 2 else 4
  if d.data.length < d.binOff + d.binLen * d.step ∨ d.binLen * d.step < idx * d.step + w then none
  else readLE w (d.data.drop (d.binOff + idx * d.step))

/-- the `for _ in 1..restart_interval` loop of `fill_stack` -/
def Dec.fillLoop : Nat → Dec → Option Dec
  | 0, d => some d
  | n + 1, d =>
    match d.hiBase with
    | none => none
    | some base =>
      match parseTruncAt d.data d.hiOff base with
      | none => none
      | some none => some d
      | some (some it) => Dec.fillLoop n { d with hiOff := d.hiOff + it.len, hiStack := d.hiOff :: d.hiStack }

/-- `fill_stack` -/
def Dec.fillStack (d : Dec) : Option Dec :=
  match d.hiPtr with
  | none => none
  | some ptr =>
    match d.binGet ptr with
    | none => none
    | some off =>
      match parseFullAt d.data off with
      | none => none
      | some none => Dec.fillLoop (d.ri - 1) { d with hiOff := off }
      | some (some it) =>
        Dec.fillLoop (d.ri - 1)
          { d with hiOff := off + it.len, hiBase := some it.keyOff, hiStack := off :: d.hiStack }

/-- `consume_stack_top` -/
def Dec.consumeTop (d : Dec) : Option (Dec × Option PItem) :=
  match d.hiStack with
  | [] => some (d, none)
  | off :: st =>
    let d := { d with hiStack := st }
    if d.loOff > 0 ∧ off < d.loOff then some (d, none)
    else
      let d := { d with hiOff := off }
      if st.isEmpty then (parseFullAt d.data off).map (fun r => (d, r))
      else
        match d.hiBase with
        | none => none
        | some base => (parseTruncAt d.data off base).map (fun r => (d, r))

/-- `DoubleEndedIterator::next_back` -/
def Dec.nextBack (d : Dec) : Option (Dec × Option PItem) :=
  match d.consumeTop with
  | none => none
  | some (d, some it) => some (d, some it)
  | some (d, none) =>
    match d.hiPtr with
    | none => some (d, none)
    | some 0 => some ({ d with hiPtr := none }, none)
    | some (p + 1) =>
      match Dec.fillStack { d with hiPtr := some p } with
      | none => none
      | some d => d.consumeTop

/-- `Iterator::next` -/
def Dec.next (d : Dec) : Option (Dec × Option PItem) :=
  if d.hiBase.isSome ∧ d.loOff ≥ d.hiOff then some (d, none)
  else if d.loRem = 0 then
    if d.ri = 0 then none
    else
      match parseFullAt d.data d.loOff with
      | none => none
      | some none => some ({ d with loRem := d.ri - 1 }, none)
      | some (some it) =>
        some ({ d with loOff := d.loOff + it.len, loBase := some it.keyOff, loRem := d.ri - 1 }, some it)
  else
    match d.loBase with
    | none => none
    | some base =>
      match parseTruncAt d.data d.loOff base with
      | none => none
      | some none => some ({ d with loRem := d.loRem - 1 }, none)
      | some (some it) => some ({ d with loOff := d.loOff + it.len, loRem := d.loRem - 1 }, some it)

/-! ### binary search (B7) -/

/-- the `while left < right` loop; returns the final `left` -/
def Dec.bsearch (d : Dec) (pred : Bytes → Nat → Bool) : Nat → Nat → Nat → Option Nat
  | 0, l, r => if l < r then none else some l
  | f + 1, l, r =>
    if l < r then
      let mid := (l + r) / 2
      match d.binGet mid with
      | none => none
      | some off =>
        match restartKeyAt d.data off with
        | none => none
        | some (k, s) => if pred k s then Dec.bsearch d pred f (mid + 1) r else Dec.bsearch d pred f l mid
    else some l

/-- `binary_index.len()` with the panics of `Reader::new` -/
def Dec.binIdxLen (d : Dec) : Option Nat :=
  if d.step = 0 ∨ d.data.length < d.binOff + d.binLen * d.step then none else some (d.binLen * d.step / d.step)

/-- `partition_point` -/
def Dec.partitionPoint (d : Dec) (pred : Bytes → Nat → Bool) : Option (Option (Nat × Nat)) :=
  match d.binIdxLen with
  | none => none
  | some len =>
    if len = 0 then some none
    else
      match d.bsearch pred (len + 1) 0 len with
      | none => none
      | some left =>
        if left = 0 then some (some (0, 0))
        else if left = len then (d.binGet (len - 1)).map (fun off => some (off, len - 1))
        else (d.binGet (left - 1)).map (fun off => some (off, left - 1))

/-- `partition_point_2` -/
def Dec.partitionPoint2 (d : Dec) (pred : Bytes → Nat → Bool) : Option (Option (Nat × Nat)) :=
  match d.binIdxLen with
  | none => none
  | some len =>
    if len = 0 then some none
    else
      match d.bsearch pred (len + 1) 0 len with
      | none => none
      | some left =>
        if left = len then (d.binGet (len - 1)).map (fun off => some (off, len - 1))
        else (d.binGet left).map (fun off => some (off, left))

/-- `Decoder::seek` -/
def Dec.seek (d : Dec) (pred : Bytes → Nat → Bool) (second : Bool) : Option (Dec × Bool) :=
  match (if second then d.partitionPoint2 pred else d.partitionPoint pred) with
  | none => none
  | some none => some (d, false)
  | some (some (off, _)) =>
    if second ∧ d.ri = 1 then
      match restartKeyAt d.data off with
      | none => none
      | some (k, s) =>
        if pred k s then
          some ({ d with loOff := d.data.length, loRem := 0, loBase := none,
                         hiOff := d.data.length, hiPtr := none, hiStack := [], hiBase := some 0 }, false)
        else some ({ d with loOff := off }, true)
    else some ({ d with loOff := off }, true)

/-- `Decoder::seek_upper` -/
def Dec.seekUpper (d : Dec) (pred : Bytes → Nat → Bool) (second : Bool) : Option (Dec × Bool) :=
  match (if second then d.partitionPoint2 pred else d.partitionPoint pred) with
  | none => none
  | some none => some (d, false)
  | some (some (off, idx)) =>
    (Dec.fillStack { d with hiOff := off, hiPtr := some idx, hiStack := [], hiBase := none }).map (fun d => (d, true))

/-! ### `data_block::Iter` = `DoubleEndedPeekable<Decoder>` (B8) -/

structure Iter where
  dec : Dec
  front : Option (Option PItem) := none
  back : Option (Option PItem) := none
deriving Repr

def Iter.new (data : Bytes) : Option Iter := (Dec.new data).map (fun d => { dec := d })

/-- `MaybePeeked::into_peeked_value` / `peeked_value_ref` -/
def peekedValue : Option (Option PItem) → Option PItem
  | some (some x) => some x
  | _ => none

/-- `DoubleEndedPeekable::next` -/
def Iter.next (it : Iter) : Option (Iter × Option PItem) :=
  match it.front with
  | some (some x) => some ({ it with front := none }, some x)
  | some none => some ({ it with front := none, back := none }, peekedValue it.back)
  | none =>
    match it.dec.next with
    | none => none
    | some (d, some x) => some ({ it with dec := d }, some x)
    | some (d, none) => some ({ it with dec := d, back := none }, peekedValue it.back)

/-- `DoubleEndedPeekable::next_back` -/
def Iter.nextBack (it : Iter) : Option (Iter × Option PItem) :=
  match it.back with
  | some (some x) => some ({ it with back := none }, some x)
  | some none => some ({ it with back := none, front := none }, peekedValue it.front)
  | none =>
    match it.dec.nextBack with
    | none => none
    | some (d, some x) => some ({ it with dec := d }, some x)
    | some (d, none) => some ({ it with dec := d, front := none }, peekedValue it.front)

/-- `DoubleEndedPeekable::peek` -/
def Iter.peek (it : Iter) : Option (Iter × Option PItem) :=
  match it.front with
  | some (some x) => some (it, some x)
  | some none => some (it, peekedValue it.back)
  | none =>
    match it.dec.next with
    | none => none
    | some (d, some x) => some ({ it with dec := d, front := some (some x) }, some x)
    | some (d, none) => some ({ it with dec := d, front := some none }, peekedValue it.back)

/-- `DoubleEndedPeekable::peek_back` -/
def Iter.peekBack (it : Iter) : Option (Iter × Option PItem) :=
  match it.back with
  | some (some x) => some (it, some x)
  | some none => some (it, peekedValue it.front)
  | none =>
    match it.dec.nextBack with
    | none => none
    | some (d, some x) => some ({ it with dec := d, back := some (some x) }, some x)
    | some (d, none) => some ({ it with dec := d, back := some none }, peekedValue it.front)

/-- forward linear scan of `seek` (`excl = false`) / `seek_exclusive` (`excl = true`) -/
def Iter.scanFwd (needle : Bytes) (excl : Bool) : Nat → Iter → Option (Iter × Bool)
  | 0, _ => none
  | f + 1, it =>
    match it.peek with
    | none => none
    | some (it, none) => some (it, false)
    | some (it, some x) =>
      match cmpKey x.e.key needle, excl with
      | .eq, false => some (it, true)
      | .gt, false => some (it, false)
      | .gt, true => some (it, true)
      | _, _ =>
        match it.next with
        | some (it, some _) => Iter.scanFwd needle excl f it
        | _ => none

/-- backward linear scan of `seek_upper` / `seek_upper_exclusive` -/
def Iter.scanBwd (needle : Bytes) (excl : Bool) : Nat → Iter → Option (Iter × Bool)
  | 0, _ => none
  | f + 1, it =>
    match it.peekBack with
    | none => none
    | some (it, none) => some (it, false)
    | some (it, some x) =>
      match cmpKey x.e.key needle, excl with
      | .eq, false => some (it, true)
      | .lt, false => some (it, false)
      | .lt, true => some (it, true)
      | _, _ =>
        match it.nextBack with
        | some (it, some _) => Iter.scanBwd needle excl f it
        | _ => none

/-- `Iter::seek` (`excl = false`) / `Iter::seek_exclusive` (`excl = true`) -/
def Iter.seek (it : Iter) (needle : Bytes) (excl : Bool) : Option (Iter × Bool) :=
  match it.dec.seek (fun k _ => decide (k < needle)) false with
  | none => none
  | some (d, false) => some ({ it with dec := d }, false)
  | some (d, true) => Iter.scanFwd needle excl (d.data.length + 1) { it with dec := d }

/-- `Iter::seek_upper` / `Iter::seek_upper_exclusive` -/
def Iter.seekUpper (it : Iter) (needle : Bytes) (excl : Bool) : Option (Iter × Bool) :=
  match it.dec.seekUpper (fun k _ => decide (k < needle) || decide (k = needle)) false with
  | none => none
  | some (d, false) => some ({ it with dec := d }, false)
  | some (d, true) => Iter.scanBwd needle excl (d.data.length + 1) { it with dec := d }

/-- pull according to a word -/
def Iter.run : Iter → List Dir → Option (List (Option (Entry Bytes)))
  | _, [] => some []
  | it, .F :: w =>
    match it.next with
    | none => none
    | some (it, r) => (Iter.run it w).map (fun l => r.map (·.e) :: l)
  | it, .B :: w =>
    match it.nextBack with
    | none => none
    | some (it, r) => (Iter.run it w).map (fun l => r.map (·.e) :: l)

/-- `iter.rev().collect()` with fuel -/
def Iter.drainBack : Nat → Iter → Option (List (Entry Bytes))
  | 0, _ => none
  | f + 1, it =>
    match it.nextBack with
    | none => none
    | some (_, none) => some []
    | some (it, some x) => (Iter.drainBack f it).map (x.e :: ·)

/-- `iter.collect()` with fuel -/
def Iter.drainFwd : Nat → Iter → Option (List (Entry Bytes))
  | 0, _ => none
  | f + 1, it =>
    match it.next with
    | none => none
    | some (_, none) => some []
    | some (it, some x) => (Iter.drainFwd f it).map (x.e :: ·)

/-- `DataBlock::iter().rev().collect()` -/
def decodeBlockBack (data : Bytes) : Option (List (Entry Bytes)) :=
  match Iter.new data with
  | none => none
  | some it => Iter.drainBack (data.length + 1) it

/-- the `for item in iter` loop of `point_read` -/
def Iter.pointScan (needle : Bytes) (seqno : Nat) : Nat → Iter → Option (Option (Entry Bytes))
  | 0, _ => none
  | f + 1, it =>
    match it.next with
    | none => none
    | some (_, none) => some none
    | some (it, some x) =>
      match cmpKey x.e.key needle with
      | .gt => some none
      | .lt => Iter.pointScan needle seqno f it
      | .eq => if x.e.seqno ≥ seqno then Iter.pointScan needle seqno f it else some (some x.e)

/-- `DataBlock::point_read(needle, seqno)` on the binary-search path (B9) -/
def pointRead (data : Bytes) (needle : Bytes) (seqno : Nat) : Option (Option (Entry Bytes)) :=
  match Iter.new data with
  | none => none
  | some it =>
    match it.seek needle false with
    | none => none
    | some (_, false) => some none
    | some (it, true) => Iter.pointScan needle seqno (data.length + 1) it

end Lsm.CodecBack
