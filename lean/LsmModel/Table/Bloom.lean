/-
  LsmModel.Table.Bloom — the standard Bloom filter of a table
  (src/table/filter/standard_bloom/{builder,mod}.rs, src/table/filter/bit_array/{builder,reader}.rs).

  MODELLING NOTES
  * `secondaryHash`  = `secondary_hash` (standard_bloom/builder.rs:10-13):
      `h1.wrapping_shr(32).wrapping_mul(0x51_7c_c1_b7_27_22_0a_95)`.  `wrapping_shr(32)` on u64 is a plain
      logical shift by 32 (the shift amount is reduced mod 64, 32 < 64); Lean's `>>>` on `UInt64` reduces the
      amount mod 64 as well.  `*` and `+` on `UInt64` are the wrapping operations.
  * `setLoop` = the `for i in 1..=(self.k as u64)` loop of `Builder::set_with_hash` (builder.rs:153-168):
        idx = h1 % (m as u64);  enable_bit(idx);  h1 = h1.wrapping_add(h2);  h2 = h2.wrapping_mul(i);
    `containsLoop` = the loop of `StandardBloomFilterReader::contains_hash` (mod.rs:102-121), which is written
    separately in the Rust code but with the same body except `if !has_bit(idx) { return false }`.
    Both loops are transcribed separately; `FilterLemmas` proves that both walk `probeSeq`.
    NOTE (as the code is): `h2` is multiplied by the loop counter `i` *starting at i = 1*, so after j rounds
      h2_j = h2_0 * j!  (mod 2^64)   and   h1_j = h1_0 + h2_0 * (0! + 1! + … + (j-1)!)  (mod 2^64).
    From j ≥ 66 on, j! ≡ 0 (mod 2^64): the probe index stops moving.  Harmless for correctness (both sides do
    the same); k is ≤ ~35 for every bpk ≤ 50.  The model does exactly what the code does.
  * The loop counter: Rust iterates a `u64` range `1..=k`; the model iterates `fuel = k` times carrying
    `i : UInt64` starting at 1 and incrementing.  Identical for k < 2^64 (k is a `usize`).
  * `idx = h1 % (self.m as u64)` is modelled as `h1.toNat % m` with `m : Nat`.  Identical for 0 < m < 2^64
    (m is a `usize`).  m = 0: Rust panics (remainder by zero); the model is total, theorems assume `0 < m`.
    `with_bpk` (builder.rs:94-129) and `with_fp_rate` (builder.rs:58-86) compute m, k with f32 arithmetic; both
    force `k ≥ 1` (`.max(1)`), assert `n > 0`; `m` is a multiple of 8 and the byte array has exactly m/8 bytes
    (with_bpk: `m = bytes*8`; with_fp_rate: `calculate_m` rounds to a multiple of 8, capacity `m/8`).
    `with_bpk` with 0 < bpk < 1 gives `bpk as usize = 0`, m = 0 ⇒ the first `set_with_hash` panics
    (remainder by zero).  The model takes m and k as parameters; the float computation is NOT modelled.
  * `bits : List Bool` of length m is the bit array; `enable_bit(idx)` = `bits.set idx true`, `has_bit(idx)` =
    `bits.getD idx false`.  The Rust code stores bit idx in byte idx/8 at mask `0b1000_0000 >> (idx % 8)`
    (bit_array/builder.rs:5-12,36-44; reader.rs:5-14,32-41), i.e. MSB first.  `toBytes` gives that packing and
    `readBit` the reader's access; `FilterLemmas.readBit_toBytes` links them to `bits`.
    Out-of-range byte index: Rust `expect("should be in bounds")` panics; cannot happen since idx < m = 8*bytes.
  * The serialized header (magic, filter type, hash type, m, k as u64 LE; builder.rs:33-54, mod.rs:38-91) is not
    modelled: the reader is taken to see the same m, k and bit array as the builder wrote.
  * `get_hash` = `crate::hash::hash64` = xxh3_64 (src/hash.rs:2-4).  Not modelled: every function here takes the
    64-bit hash VALUE; the theorems quantify over all 2^64 values.
-/
namespace Lsm.Bloom

/-- `secondary_hash` (standard_bloom/builder.rs:10) -/
def secondaryHash (h1 : UInt64) : UInt64 := (h1 >>> 32) * 0x517cc1b727220a95

structure Filter where
  m : Nat
  k : Nat
  bits : List Bool
deriving DecidableEq, Repr

/-- `Builder::with_*` after the float computation: m zero bits -/
def empty (m k : Nat) : Filter := { m, k, bits := List.replicate m false }

/-- loop of `Builder::set_with_hash` (builder.rs:156-167); `fuel` = remaining iterations, `i` = loop counter -/
def setLoop (m : Nat) : (fuel : Nat) → (i h1 h2 : UInt64) → List Bool → List Bool
  | 0, _, _, _, bits => bits
  | fuel + 1, i, h1, h2, bits =>
    let idx := h1.toNat % m
    let bits := bits.set idx true
    setLoop m fuel (i + 1) (h1 + h2) (h2 * i) bits

/-- `Builder::set_with_hash` -/
def setWithHash (f : Filter) (h : UInt64) : Filter :=
  { f with bits := setLoop f.m f.k 1 h (secondaryHash h) f.bits }

/-- loop of `StandardBloomFilterReader::contains_hash` (mod.rs:105-118) -/
def containsLoop (m : Nat) (bits : List Bool) : (fuel : Nat) → (i h1 h2 : UInt64) → Bool
  | 0, _, _, _ => true
  | fuel + 1, i, h1, h2 =>
    let idx := h1.toNat % m
    if !(bits.getD idx false) then false
    else containsLoop m bits fuel (i + 1) (h1 + h2) (h2 * i)

/-- `StandardBloomFilterReader::contains_hash` -/
def containsHash (f : Filter) (h : UInt64) : Bool :=
  containsLoop f.m f.bits f.k 1 h (secondaryHash h)

/-- filter construction as the table writer does it: all key hashes are inserted into a fresh filter -/
def build (m k : Nat) (hashes : List UInt64) : Filter :=
  hashes.foldl setWithHash (empty m k)

/-- the sequence of bit indices the double-hashing scheme visits (specification of both loops) -/
def probeSeq (m : Nat) : (fuel : Nat) → (i h1 h2 : UInt64) → List Nat
  | 0, _, _, _ => []
  | fuel + 1, i, h1, h2 => (h1.toNat % m) :: probeSeq m fuel (i + 1) (h1 + h2) (h2 * i)

/-- the probe indices of a hash value in a filter with parameters m, k -/
def probes (m k : Nat) (h : UInt64) : List Nat := probeSeq m k 1 h (secondaryHash h)

/-! ### byte packing (bit_array) -/

/-- one byte from eight bits, the first at mask 0x80 (`BIT_MASK >> idx`, bit_array/builder.rs:5-12) -/
def pack8 (b0 b1 b2 b3 b4 b5 b6 b7 : Bool) : UInt8 :=
  (if b0 then 0x80 else 0) ||| (if b1 then 0x40 else 0) ||| (if b2 then 0x20 else 0) ||| (if b3 then 0x10 else 0) |||
  (if b4 then 0x08 else 0) ||| (if b5 then 0x04 else 0) ||| (if b6 then 0x02 else 0) ||| (if b7 then 0x01 else 0)

/-- byte number `byteIdx` of the bit array -/
def packByte (bits : List Bool) (byteIdx : Nat) : UInt8 :=
  pack8 (bits.getD (8 * byteIdx) false) (bits.getD (8 * byteIdx + 1) false) (bits.getD (8 * byteIdx + 2) false)
    (bits.getD (8 * byteIdx + 3) false) (bits.getD (8 * byteIdx + 4) false) (bits.getD (8 * byteIdx + 5) false)
    (bits.getD (8 * byteIdx + 6) false) (bits.getD (8 * byteIdx + 7) false)

/-- the byte array `Builder::bytes()` holds for the bit list (⌈len/8⌉ bytes) -/
def toBytes (bits : List Bool) : List UInt8 :=
  (List.range ((bits.length + 7) / 8)).map (packByte bits)

/-- `BitArrayReader::get` (bit_array/reader.rs:32-41) with `get_bit` (reader.rs:8-14) -/
def readBit (bytes : List UInt8) (idx : Nat) : Bool :=
  let byte := bytes.getD (idx / 8) 0
  let mask : UInt8 := (0x80 : UInt8) >>> (UInt8.ofNat (idx % 8))
  decide ((byte &&& mask) > 0)

end Lsm.Bloom
