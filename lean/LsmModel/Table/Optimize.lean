import LsmModel.Table.Run
/-
  LsmModel.Table.Optimize — `optimize_runs` (src/version/optimize.rs) and `Run::push` (src/version/run.rs).
-/
namespace Lsm
variable {K : Type} [LT K] [DecidableLT K] [DecidableEq K]

/-- `Run::push`: append, then stable sort by `min` — ordered insertion after all elements with `lo ≤ t.lo` -/
def insertByLo (t : TableM K) : Run K → Run K
  | [] => [t]
  | x :: xs => if t.lo < x.lo then t :: x :: xs else x :: insertByLo t xs

def runOverlaps (t : TableM K) (r : Run K) : Bool := r.any (fun x => t.overlaps x)

/-- `rposition(overlaps).map(|i| i + 1)` with `0` for `None`: number of leading runs up to and including the last
    one that overlaps `t` -/
def afterLastOverlap (t : TableM K) : List (Run K) → Nat
  | [] => 0
  | r :: rs =>
    let n := afterLastOverlap t rs
    if n > 0 then n + 1 else if runOverlaps t r then 1 else 0

/-- push into run `i`, or open a new run at the end if there is no run `i` -/
def placeAt (t : TableM K) : Nat → List (Run K) → List (Run K)
  | _, [] => [[t]]
  | 0, r :: rs => insertByLo t r :: rs
  | i + 1, r :: rs => r :: placeAt t i rs

def place (runs : List (Run K)) (t : TableM K) : List (Run K) :=
  placeAt t (afterLastOverlap t runs) runs

/-- `optimize_runs` -/
def optimizeRuns (runs : List (Run K)) : List (Run K) :=
  if runs.length ≤ 1 then runs else runs.flatten.foldl place []

end Lsm
