import LsmModel.Table.Codec
import LsmModel.Table.Blocks
/-
  LsmModel.Table.IndexBlock — BYTE-level model of ONE index block (a block of `KeyedBlockHandle`s) and the
  item-level model of its double-ended, seekable iterator.

  MODELLING NOTES (paths relative to /repo/src/table)

  X1  `KeyedBlockHandle` (index_block/block_handle.rs:68-78) = end key of the block pointed to, seqno of its last item,
      `BlockHandle { offset: u64, size: u32 }` (20-26).  Model: `KHandle` with `Nat` fields; the fixed widths are
      well-formedness (`WfHandle`: offset < 2^64, size < 2^32, seqno < 2^64, key length < 2^16), the round trip itself
      does not need them (varints are unbounded in the model, C1 of Codec.lean).
  X2  `encode_full_into` (block_handle.rs:134-156):  [marker u8 = 0] [offset varint] [size varint] [seqno varint]
      [key_len varint] [end key].  `encode_truncated_into` / `parse_truncated` are `unimplemented!()` (158-167,
      242-250): the index block is ALWAYS written with restart interval 1 (index_block/mod.rs:114-120,
      `Encoder::new(writer, items.len(), 1, 0.0, first_key)`), so every handle is a restart head, no key is prefix
      truncated, the binary index has one entry per handle, and there is no hash index (ratio 0.0).  A block whose
      trailer announces a restart interval other than 1 would make the Rust decoder panic on the second item; the
      model returns `none` for it.
  X3  The generic `Encoder::write` (block/encoder.rs:122-159) with `restart_interval = 1`: `item_count % 1 == 0` always,
      so each `write` pushes `writer.len()` to the binary index and calls `encode_full_into` = `encStepH`.
      `Trailer::write` = `Lsm.Codec.encFinish 1` (reused unchanged: marker 0xFF, binary index with 2- or 4-byte
      little-endian offsets, the fixed 31 bytes, C4/C5 of Codec.lean).  `IndexBlock::encode_into` panics on an empty
      slice (index_block/mod.rs:111-112): `encodeIndexBlock [] = none`.
  X4  `parse_full` (block_handle.rs:175-206): first byte `0xFF` (`TRAILER_START_MARKER`) = end of items; ANY other
      marker value is accepted (it is not compared with 0); then offset, size, seqno, key_len varints and `key_len`
      key bytes.  `decodeHandle` is that plus `materialize` (index_block/mod.rs:49-61, `prefix = None`).
  X5  Forward iteration (block/decoder.rs:439-484) = `decodeFwd`: start at offset 0, parse, advance, stop at `0xFF`.
      Backward iteration (decoder.rs:353-411 `fill_stack`, 413-436 `consume_stack_top`, 489-511 `next_back`) goes
      through the binary index: `ptr_idx` starts at `binary_index_len` (decoder.rs:115), is decremented, the restart
      head at `binary_index.get(ptr_idx)` (binary_index/reader.rs:32-47: u16 or u32 little endian at
      `binary_index_offset + idx * step_size`) is parsed.  With restart interval 1 the stack holds exactly one
      offset.  `decodeBwd` transcribes this on the raw bytes (trailer fields read at `len - 31 + {0,1,2,6}`).
  X6  Seeks: `Iter::seek` / `Iter::seek_upper` (index_block/iter.rs:25-41) are modelled at ITEM level exactly as in
      LsmModel.Table.Blocks I2-I4 (`Lsm.Blocks.idxPred`, `idxPredUpper`, `ppoint`, `bsearch`): byte offsets
      of restart heads are strictly increasing in the item number, so every comparison of offsets in the decoder
      (`lo.offset >= hi.offset`, decoder.rs:443-447; `offset < lo.offset`, 416-418) is a comparison of item numbers.
      `BIter` is the decoder state at that level (`lo` = item number of `lo_scanner.offset`, `hi` = item number of
      `hi_scanner.offset` once `base_key_offset` is `Some`, `ptr` = `hi_scanner.ptr_idx` with `none` = `usize::MAX`,
      `stack`), `BIter.next` / `BIter.nextBack` / `BIter.seek` / `BIter.seekUpper` transcribe decoder.rs:265-333, 413-511.
      NOTE on seqnos: `seek(needle, seqno)` skips a handle whose end key EQUALS the needle iff its seqno is >= the
      requested seqno (iter.rs:27-31): the block ends in a version of `needle` that is invisible at `seqno`, and all
      older (visible) versions sort after it, i.e. in a later block.  `seek_upper` ignores its seqno argument.
  X7  `DoubleEndedPeekable` (double_ended_peekable.rs) wraps the decoder inside `index_block::Iter`; nothing in the
      crate peeks an index iterator, and with both slots `Unpeeked` `next`/`next_back` are the inner calls (120-145).
      Not modelled.
-/
namespace Lsm.IndexBlock
open Lsm Lsm.Codec Lsm.Blocks

/-- `KeyedBlockHandle` -/
structure KHandle where
  endKey : Bytes
  seqno : Nat
  offset : Nat
  size : Nat
deriving DecidableEq, Repr, Inhabited

/-- the fixed widths of the Rust fields -/
def WfHandle (h : KHandle) : Prop :=
  h.offset < 2 ^ 64 ∧ h.size < 2 ^ 32 ∧ h.seqno < 2 ^ 64 ∧ h.endKey.length < 2 ^ 16

instance (h : KHandle) : Decidable (WfHandle h) := by unfold WfHandle; exact inferInstance

def KHandle.toIE (h : KHandle) : IndexEntry Bytes := ⟨h.endKey, h.seqno⟩

/-! ### one handle -/

/-- `encode_full_into` (X2) -/
def encodeHandle (h : KHandle) : Bytes :=
  0 :: (encodeVarint h.offset ++ (encodeVarint h.size ++ (encodeVarint h.seqno ++
    (encodeVarint h.endKey.length ++ h.endKey))))

/-- `parse_full` + `materialize` after the marker byte (X4); the `0xFF` test is done by the caller -/
def decodeHandle (bs : Bytes) : Option (KHandle × Bytes) :=
  match bs with
  | [] => none
  | _ :: r =>
    match decodeVarint r with
    | none => none
    | some (offset, r) =>
      match decodeVarint r with
      | none => none
      | some (size, r) =>
        match decodeVarint r with
        | none => none
        | some (seqno, r) =>
          match decodeVarint r with
          | none => none
          | some (klen, r) =>
            match takeExact klen r with
            | none => none
            | some (key, r) => some (⟨key, seqno, offset, size⟩, r)

/-! ### block encoder -/

/-- `Encoder::write` with restart interval 1 (X3) -/
def encStepH (s : EncState) (h : KHandle) : EncState :=
  { out := s.out ++ encodeHandle h
    count := s.count + 1
    base := h.endKey
    binIdx := s.binIdx ++ [s.out.length] }

/-- `IndexBlock::encode_into` on a non-empty slice -/
def encodeIndexBlock' (hs : List KHandle) : Bytes := encFinish 1 (hs.foldl encStepH {})

/-- `IndexBlock::encode_into`; `none` = the `expect("chunk should not be empty")` panic -/
def encodeIndexBlock (hs : List KHandle) : Option Bytes :=
  if hs.isEmpty then none else some (encodeIndexBlock' hs)

/-! ### forward decoding -/

/-- `Decoder::next` repeated until the trailer marker (X5) -/
def decodeFwdGo : Nat → Bytes → Option (List KHandle)
  | 0, _ => none
  | fuel + 1, bytes =>
    match bytes with
    | [] => none
    | t :: _ =>
      if t = 255 then some []
      else
        match decodeHandle bytes with
        | some (h, rest) => (decodeFwdGo fuel rest).map (h :: ·)
        | none => none

/-- little-endian reads -/
def rd16 (bs : Bytes) : Option Nat :=
  match bs with
  | a :: b :: _ => some (a.toNat + 256 * b.toNat)
  | _ => none

def rd32 (bs : Bytes) : Option Nat :=
  match bs with
  | a :: b :: c :: d :: _ => some (a.toNat + 256 * b.toNat + 65536 * c.toNat + 16777216 * d.toNat)
  | _ => none

/-- the trailer fields the decoder caches (decoder.rs:87-101): restart interval, step size, binary index len, offset -/
structure TrailerInfo where
  ri : Nat
  step : Nat
  binLen : Nat
  binOff : Nat
  itemCount : Nat
deriving Repr

def readTrailer (bytes : Bytes) : Option TrailerInfo :=
  if bytes.length < trailerSize then none
  else
    let t := bytes.drop (bytes.length - trailerSize)
    match t with
    | ri :: step :: r =>
      match rd32 r, rd32 (r.drop 4), rd32 (r.drop 25) with
      | some binLen, some binOff, some cnt => some ⟨ri.toNat, step.toNat, binLen, binOff, cnt⟩
      | _, _, _ => none
    | _ => none

/-- `IndexBlock::iter().collect()`; a restart interval ≠ 1 would reach `parse_truncated` = `unimplemented!()` -/
def decodeFwd (bytes : Bytes) : Option (List KHandle) :=
  match readTrailer bytes with
  | none => none
  | some t => if t.ri = 1 then decodeFwdGo (bytes.length + 1) bytes else none

/-- `IndexBlock::len()` -/
def blockLen (bytes : Bytes) : Option Nat := (readTrailer bytes).map (·.itemCount)

/-! ### backward decoding through the binary index -/

/-- `binary_index::Reader::get` -/
def binGet (bytes : Bytes) (t : TrailerInfo) (idx : Nat) : Option Nat :=
  if t.step = 2 then rd16 (bytes.drop (t.binOff + idx * 2))
  else if t.step = 4 then rd32 (bytes.drop (t.binOff + idx * 4))
  else none

/-- `fill_stack` + `consume_stack_top` for restart number `idx` (restart interval 1) -/
def decodeAt (bytes : Bytes) (t : TrailerInfo) (idx : Nat) : Option KHandle :=
  match binGet bytes t idx with
  | none => none
  | some off =>
    match bytes.drop off with
    | [] => none
    | m :: r => if m = 255 then none else (decodeHandle (m :: r)).map (·.1)

/-- `next_back` repeated: restart numbers `n-1, n-2, …, 0` -/
def decodeBwdGo (bytes : Bytes) (t : TrailerInfo) : Nat → Option (List KHandle)
  | 0 => some []
  | n + 1 =>
    match decodeAt bytes t n with
    | none => none
    | some h => (decodeBwdGo bytes t n).map (h :: ·)

/-- `IndexBlock::iter().rev().collect()` -/
def decodeBwd (bytes : Bytes) : Option (List KHandle) :=
  match readTrailer bytes with
  | none => none
  | some t => if t.ri = 1 then decodeBwdGo bytes t t.binLen else none

/-! ### the seekable double-ended iterator at item level (X6) -/

/-- the predicate of `Iter::seek` -/
def predLo (k : Bytes) (S : Nat) (h : KHandle) : Bool := idxPred k S h.toIE

/-- the predicate of `Iter::seek_upper` -/
def predHi (k : Bytes) (h : KHandle) : Bool := idxPredUpper k h.toIE

/-- decoder state over the handle list `hs` of the block; item numbers stand for byte offsets, `hs.length` for the
    offset of the trailer marker and `hs.length + 1` for `block.data.len()` -/
structure BIter where
  hs : List KHandle
  lo : Nat := 0
  /-- `hi_scanner.offset`; only meaningful when `base` -/
  hi : Nat := 0
  /-- `hi_scanner.base_key_offset.is_some()` -/
  base : Bool := false
  /-- `hi_scanner.ptr_idx`, `none` = `usize::MAX` -/
  ptr : Option Nat
  stack : List Nat := []
deriving Repr

/-- `Decoder::new` -/
def BIter.new (hs : List KHandle) : BIter := { hs := hs, ptr := some hs.length }

/-- `partition_point_2` (decoder.rs:210-256): `(left or len-1)`; `none` for an empty binary index.  The loop is the
    literal `bsearch` of Blocks.lean. -/
def pp2 (p : KHandle → Bool) (hs : List KHandle) : Option Nat :=
  if hs.length = 0 then none
  else
    let left := bsearch p hs (hs.length + 1) 0 hs.length
    if left = hs.length then some (hs.length - 1) else some left

/-- `Decoder::seek(pred, true)` with restart interval 1 (decoder.rs:265-304) -/
def BIter.seek (it : BIter) (p : KHandle → Bool) : Bool × BIter :=
  match pp2 p it.hs with
  | none => (false, it)
  | some idx =>
    match it.hs[idx]? with
    | some h =>
      if p h then
        (false, { it with lo := it.hs.length + 1, hi := it.hs.length + 1, ptr := none, stack := [], base := true })
      else (true, { it with lo := idx })
    | none => (false, it)

/-- `fill_stack` (decoder.rs:353-411), restart interval 1: parse the head at `ptr_idx`; at the trailer marker nothing is pushed -/
def BIter.fillStack (it : BIter) (idx : Nat) : BIter :=
  if idx < it.hs.length then { it with hi := idx + 1, base := true, stack := it.stack ++ [idx] }
  else { it with hi := idx }

/-- `Decoder::seek_upper(pred, true)` (decoder.rs:309-333) -/
def BIter.seekUpper (it : BIter) (p : KHandle → Bool) : Bool × BIter :=
  match pp2 p it.hs with
  | none => (false, it)
  | some idx => (true, ({ it with hi := idx, ptr := some idx, stack := [], base := false } : BIter).fillStack idx)

/-- `Decoder::next` (decoder.rs:442-483) -/
def BIter.next (it : BIter) : Option KHandle × BIter :=
  if it.base && decide (it.lo ≥ it.hi) then (none, it)
  else
    match it.hs[it.lo]? with
    | some h => (some h, { it with lo := it.lo + 1 })
    | none => (none, it)

/-- `consume_stack_top` (decoder.rs:413-436) -/
def BIter.consumeTop (it : BIter) : Option KHandle × BIter :=
  match it.stack.reverse with
  | [] => (none, it)
  | top :: restRev =>
    let it := { it with stack := restRev.reverse }
    if it.lo > 0 ∧ top < it.lo then (none, it)
    else (it.hs[top]?, { it with hi := top })

/-- `Decoder::next_back` (decoder.rs:489-511) -/
def BIter.nextBack (it : BIter) : Option KHandle × BIter :=
  match it.consumeTop with
  | (some h, it) => (some h, it)
  | (none, it) =>
    match it.ptr with
    | none => (none, it)
    | some 0 => (none, { it with ptr := none })
    | some (p + 1) => (({ it with ptr := some p } : BIter).fillStack p).consumeTop

/-- pull according to a word -/
def BIter.run : BIter → List Dir → List (Option KHandle)
  | _, [] => []
  | it, .F :: w => let r := it.next; r.1 :: BIter.run r.2 w
  | it, .B :: w => let r := it.nextBack; r.1 :: BIter.run r.2 w

/-- `OwnedIndexBlockIter` after optional `seek_lower` / `seek_upper` as the readers apply them
    (block_index/two_level.rs:87-99, volatile.rs:118-127): lower first, `none` as soon as a seek returns `false` -/
def BIter.open (hs : List KHandle) (lo : Option (Bytes × Nat)) (hi : Option Bytes) : Option BIter :=
  let it := BIter.new hs
  let it? : Option BIter := match lo with
    | none => some it
    | some (k, S) => let r := it.seek (predLo k S); if r.1 then some r.2 else none
  match it? with
  | none => none
  | some it =>
    match hi with
    | none => some it
    | some k => let r := it.seekUpper (predHi k); if r.1 then some r.2 else none

/-! ### the same iterator as a window of the handle list (Blocks I4) -/

/-- the items `[a ..= b]` a seeked iterator still has to deliver, for arbitrary seek predicates: `a` = number of leading
    items satisfying `pLo` (`none` = `seek` returned `false`: all items satisfy it), `b` = min(number of leading items
    satisfying `pHi`, len-1) (`none` only on an empty block).  Same formula as `Lsm.Blocks.rInit`. -/
def windowP {α : Type} (pLo pHi : Option (α → Bool)) (l : List α) : Option (List α) :=
  let a? : Option Nat := match pLo with
    | some p => if ppoint p l ≥ l.length then none else some (ppoint p l)
    | none => some 0
  match a? with
  | none => none
  | some a =>
    match pHi with
    | none => some (l.drop a)
    | some q => if l.length = 0 then none else some ((l.take (min (ppoint q l) (l.length - 1) + 1)).drop a)

/-- bounds as the readers store them: `lo = (key, seqno)`, `hi = key` (the seqno of `seek_upper` is ignored) -/
def loPred (lo : Option (Bytes × Nat)) : Option (KHandle → Bool) := lo.map (fun b => predLo b.1 b.2)
def hiPred (hi : Option Bytes) : Option (KHandle → Bool) := hi.map predHi

/-- the handles a block iterator delivers after `seek_lower(lo)` / `seek_upper(hi)` -/
def window (hs : List KHandle) (lo : Option (Bytes × Nat)) (hi : Option Bytes) : Option (List KHandle) :=
  windowP (loPred lo) (hiPred hi) hs

end Lsm.IndexBlock
