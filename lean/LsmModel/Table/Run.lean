import LsmModel.Basic
/-
  LsmModel.Table.Run — tables as seen by the version layer, runs, and the run lookup functions
  (src/key_range.rs, src/version/run.rs).
-/
namespace Lsm
variable {K : Type}

/-- A table as the version layer sees it: id, recorded key range (`metadata.key_range`), content, global seqno. -/
structure TableM (K : Type) where
  id : Nat
  lo : K
  hi : K
  entries : List (Entry K)
  gseq : Nat := 0
deriving DecidableEq, Repr

/-- A run: list of tables (meant to be disjoint and ascending by `lo`). -/
abbrev Run (K : Type) := List (TableM K)

section
variable [LT K] [DecidableLT K] [DecidableEq K]

/-- `KeyRange::overlaps_with_key_range`: `end1 >= start2 && start1 <= end2` -/
def TableM.overlaps (a b : TableM K) : Bool := !decide (a.hi < b.lo) && !decide (b.hi < a.lo)

/-- `KeyRange::contains_key` -/
def TableM.containsKey (t : TableM K) (k : K) : Bool := !decide (k < t.lo) && !decide (t.hi < k)

/-- `KeyRange::contains_range` (self = [lo,hi] given as a pair) -/
def rangeContains (lo hi : K) (t : TableM K) : Bool := !decide (t.lo < lo) && !decide (hi < t.hi)

/-- `slice::partition_point` for a predicate that is true on a prefix: index of the first element failing it -/
def partitionPoint {α : Type} (p : α → Bool) : List α → Nat
  | [] => 0
  | x :: xs => if p x then partitionPoint p xs + 1 else 0

/-- `Run::get_for_key` -/
def getForKey (r : Run K) (k : K) : Option (TableM K) :=
  let idx := partitionPoint (fun t : TableM K => decide (t.hi < k)) r
  match r[idx]? with
  | some t => if !decide (k < t.lo) then some t else none
  | none => none

/-- `Run::range_overlap_indexes` -/
def rangeOverlapIndexes (r : Run K) (lo hi : Bound K) : Option (Nat × Nat) :=
  let l := match lo with
    | .unb => 0
    | .incl s => partitionPoint (fun t : TableM K => decide (t.hi < s)) r
    | .excl s => partitionPoint (fun t : TableM K => !decide (s < t.hi)) r
  if l ≥ r.length then none
  else
    let trunc := r.drop l
    let h? : Option Nat := match hi with
      | .unb => some (r.length - 1)
      | .incl e =>
        let idx := l + partitionPoint (fun t : TableM K => !decide (e < t.lo)) trunc
        if idx = 0 then none else some (idx - 1)
      | .excl e =>
        let idx := l + partitionPoint (fun t : TableM K => decide (t.lo < e)) trunc
        if idx = 0 then none else some (idx - 1)
    match h? with
    | none => none
    | some h => if l > h then none else some (l, h)

/-- `Run::get_overlapping` with a key range `[lo, hi]` -/
def getOverlapping (r : Run K) (lo hi : K) : List (TableM K) :=
  match rangeOverlapIndexes r (.incl lo) (.incl hi) with
  | none => []
  | some (a, b) => (r.drop a).take (b - a + 1)

/-- `trim_slice` in `Run::get_contained` -/
def trimSlice {α : Type} (p : α → Bool) (s : List α) : List α :=
  let start := (s.findIdx? p).getD s.length
  let stop := match (s.reverse.findIdx? p) with
    | some i => s.length - i
    | none => start
  (s.drop start).take (stop - start)

/-- `Run::get_contained` -/
def getContained (r : Run K) (lo hi : K) : List (TableM K) :=
  match rangeOverlapIndexes r (.incl lo) (.incl hi) with
  | none => []
  | some (a, b) => trimSlice (rangeContains lo hi) ((r.drop a).take (b - a + 1))

/-- run invariant (RUN): non-empty; every table has `lo ≤ hi`; consecutive tables `hi < lo'` (⇒ disjoint, ascending) -/
def runOkB : Run K → Bool
  | [] => false
  | [t] => !decide (t.hi < t.lo)
  | a :: b :: rest => !decide (a.hi < a.lo) && decide (a.hi < b.lo) && runOkB (b :: rest)

end
end Lsm
