import LsmModel.Table.Codec
import LsmModel.Tree.Manifest
/-
  LsmModel.Table.Meta — the META block of a table file: which properties the writer records and how recovery parses them.

  MODELLING NOTES (paths relative to /repo/src/table)
  M1  Writer (writer/mod.rs:417-494): 29 items `InternalValue::from_components(name, value, 0, Value)` in ascending byte order of the
      names (the `debug_assert is_sorted` at 497-501 = `names_sorted` below), encoded as ONE data block with restart interval 1 and
      hash ratio 0.0 (`DataBlock::encode_into(&mut buf, &meta_items, 1, 0.0)`, 506) and framed as `BlockType::Meta`, uncompressed (508-513).
      Integer properties are `to_le_bytes` of u64 (counts, sizes, seqnos, table id), u128 (`created_at`, nanoseconds), u8 (restart
      intervals, initial level); `compression#*` is `CompressionType::encode_into_vec` (compression.rs:41-54: tag 0 = None, 1 = Lz4);
      `data_block_hash_ratio` is the 4 bytes of an f32 and `crate_version` a string — both opaque byte strings here (never parsed).
  M2  Recovery (meta.rs:78-224, `ParsedMeta::load_with_handle`): every property is fetched with `block.point_read(name, SeqNo::MAX)`,
      i.e. the FIRST item whose user key equals the name (`lookup`; the byte-level seek of `point_read` is Codec / CodecBack's subject);
      a missing property panics (`expect` / `unwrap_or_else(panic!)`) — model: `none`.  `table_version` must be `[3]`, `filter_hash_type`
      and `checksum_type` must be `[0]` (Xxh3), `restart_interval#index` (first byte) must be 1 — otherwise `assert_eq!` panics (`none`).
      `read_u64!` reads the first 8 bytes of the value little endian (`readLE 8`), `created_at` the first 16, `read_u8!` the first byte;
      shorter values are `UnexpectedEof` (`none`).  Key range = the two values verbatim.  Compression tags other than 0 / 1 are
      `InvalidTag` (`none`).  NOT read back: block_count#filter is read and discarded; crate_version, data_block_hash_ratio,
      index_keys_have_seqno, initial_level, key_count, prefix_truncation#*, restart_interval#data, user_data_size are written only.
  M3  Tie to the code: `ia tables` reads the real meta block of every generated table file, sends its items to `metaparse` (model parse
      must equal the real `table.metadata` fields) and asks `metaitems` for the model's item list built from the real field values
      (must equal the real items one by one, i.e. the block is byte-identical by `c12_block_codec_roundtrip`'s encoder).
-/
namespace Lsm.Meta
open Lsm
open Lsm.Frame (leBytes leNat)
open Lsm.Manifest (readLE)

abbrev Bytes := Codec.Bytes

/-! ### property names (ASCII), in the order the writer lists them -/

/-- `"block_count#data"` -/
def kBlockCountData : Bytes := [98, 108, 111, 99, 107, 95, 99, 111, 117, 110, 116, 35, 100, 97, 116, 97]
/-- `"block_count#filter"` -/
def kBlockCountFilter : Bytes := [98, 108, 111, 99, 107, 95, 99, 111, 117, 110, 116, 35, 102, 105, 108, 116, 101, 114]
/-- `"block_count#index"` -/
def kBlockCountIndex : Bytes := [98, 108, 111, 99, 107, 95, 99, 111, 117, 110, 116, 35, 105, 110, 100, 101, 120]
/-- `"checksum_type"` -/
def kChecksumType : Bytes := [99, 104, 101, 99, 107, 115, 117, 109, 95, 116, 121, 112, 101]
/-- `"compression#data"` -/
def kCompressionData : Bytes := [99, 111, 109, 112, 114, 101, 115, 115, 105, 111, 110, 35, 100, 97, 116, 97]
/-- `"compression#index"` -/
def kCompressionIndex : Bytes := [99, 111, 109, 112, 114, 101, 115, 115, 105, 111, 110, 35, 105, 110, 100, 101, 120]
/-- `"crate_version"` -/
def kCrateVersion : Bytes := [99, 114, 97, 116, 101, 95, 118, 101, 114, 115, 105, 111, 110]
/-- `"created_at"` -/
def kCreatedAt : Bytes := [99, 114, 101, 97, 116, 101, 100, 95, 97, 116]
/-- `"data_block_hash_ratio"` -/
def kDataBlockHashRatio : Bytes := [100, 97, 116, 97, 95, 98, 108, 111, 99, 107, 95, 104, 97, 115, 104, 95, 114, 97, 116, 105, 111]
/-- `"file_size"` -/
def kFileSize : Bytes := [102, 105, 108, 101, 95, 115, 105, 122, 101]
/-- `"filter_hash_type"` -/
def kFilterHashType : Bytes := [102, 105, 108, 116, 101, 114, 95, 104, 97, 115, 104, 95, 116, 121, 112, 101]
/-- `"index_keys_have_seqno"` -/
def kIndexKeysHaveSeqno : Bytes := [105, 110, 100, 101, 120, 95, 107, 101, 121, 115, 95, 104, 97, 118, 101, 95, 115, 101, 113, 110, 111]
/-- `"initial_level"` -/
def kInitialLevel : Bytes := [105, 110, 105, 116, 105, 97, 108, 95, 108, 101, 118, 101, 108]
/-- `"item_count"` -/
def kItemCount : Bytes := [105, 116, 101, 109, 95, 99, 111, 117, 110, 116]
/-- `"key#max"` -/
def kKeyMax : Bytes := [107, 101, 121, 35, 109, 97, 120]
/-- `"key#min"` -/
def kKeyMin : Bytes := [107, 101, 121, 35, 109, 105, 110]
/-- `"key_count"` -/
def kKeyCount : Bytes := [107, 101, 121, 95, 99, 111, 117, 110, 116]
/-- `"prefix_truncation#data"` -/
def kPrefixTruncationData : Bytes := [112, 114, 101, 102, 105, 120, 95, 116, 114, 117, 110, 99, 97, 116, 105, 111, 110, 35, 100, 97, 116, 97]
/-- `"prefix_truncation#index"` -/
def kPrefixTruncationIndex : Bytes := [112, 114, 101, 102, 105, 120, 95, 116, 114, 117, 110, 99, 97, 116, 105, 111, 110, 35, 105, 110, 100, 101, 120]
/-- `"restart_interval#data"` -/
def kRestartIntervalData : Bytes := [114, 101, 115, 116, 97, 114, 116, 95, 105, 110, 116, 101, 114, 118, 97, 108, 35, 100, 97, 116, 97]
/-- `"restart_interval#index"` -/
def kRestartIntervalIndex : Bytes := [114, 101, 115, 116, 97, 114, 116, 95, 105, 110, 116, 101, 114, 118, 97, 108, 35, 105, 110, 100, 101, 120]
/-- `"seqno#max"` -/
def kSeqnoMax : Bytes := [115, 101, 113, 110, 111, 35, 109, 97, 120]
/-- `"seqno#min"` -/
def kSeqnoMin : Bytes := [115, 101, 113, 110, 111, 35, 109, 105, 110]
/-- `"table_id"` -/
def kTableId : Bytes := [116, 97, 98, 108, 101, 95, 105, 100]
/-- `"table_version"` -/
def kTableVersion : Bytes := [116, 97, 98, 108, 101, 95, 118, 101, 114, 115, 105, 111, 110]
/-- `"tombstone_count"` -/
def kTombstoneCount : Bytes := [116, 111, 109, 98, 115, 116, 111, 110, 101, 95, 99, 111, 117, 110, 116]
/-- `"user_data_size"` -/
def kUserDataSize : Bytes := [117, 115, 101, 114, 95, 100, 97, 116, 97, 95, 115, 105, 122, 101]
/-- `"weak_tombstone_count"` -/
def kWeakTombstoneCount : Bytes := [119, 101, 97, 107, 95, 116, 111, 109, 98, 115, 116, 111, 110, 101, 95, 99, 111, 117, 110, 116]
/-- `"weak_tombstone_reclaimable"` -/
def kWeakTombstoneReclaimable : Bytes := [119, 101, 97, 107, 95, 116, 111, 109, 98, 115, 116, 111, 110, 101, 95, 114, 101, 99, 108, 97, 105, 109, 97, 98, 108, 101]

/-- everything the writer records -/
structure TableMeta where
  dataBlockCount : Nat
  filterBlockCount : Nat
  indexBlockCount : Nat
  dataCompression : Nat      -- tag: 0 none, 1 lz4
  indexCompression : Nat
  crateVersion : Bytes
  createdAt : Nat            -- u128 nanoseconds
  hashRatio : Bytes          -- f32, 4 bytes, opaque
  fileSize : Nat
  initialLevel : Nat         -- u8
  itemCount : Nat
  keyMax : Bytes
  keyMin : Bytes
  keyCount : Nat
  riData : Nat               -- u8
  riIndex : Nat              -- u8
  seqnoMax : Nat
  seqnoMin : Nat
  tableId : Nat
  tombstoneCount : Nat
  userDataSize : Nat
  weakTombstoneCount : Nat
  weakReclaimable : Nat
deriving DecidableEq, Repr

/-- what `ParsedMeta` keeps -/
structure Parsed where
  id : Nat
  createdAt : Nat
  dataBlockCount : Nat
  indexBlockCount : Nat
  keyMin : Bytes
  keyMax : Bytes
  seqnoMin : Nat
  seqnoMax : Nat
  fileSize : Nat
  itemCount : Nat
  tombstoneCount : Nat
  weakTombstoneCount : Nat
  weakReclaimable : Nat
  dataCompression : Nat
  indexCompression : Nat
deriving DecidableEq, Repr

/-- the field widths the Rust types impose -/
def TableMeta.Bounded (m : TableMeta) : Prop :=
  m.dataBlockCount < 2 ^ 64 ∧ m.filterBlockCount < 2 ^ 64 ∧ m.indexBlockCount < 2 ^ 64 ∧ m.dataCompression < 2 ∧
  m.indexCompression < 2 ∧ m.createdAt < 2 ^ 128 ∧ m.fileSize < 2 ^ 64 ∧ m.itemCount < 2 ^ 64 ∧ m.seqnoMax < 2 ^ 64 ∧
  m.seqnoMin < 2 ^ 64 ∧ m.tableId < 2 ^ 64 ∧ m.tombstoneCount < 2 ^ 64 ∧ m.weakTombstoneCount < 2 ^ 64 ∧
  m.weakReclaimable < 2 ^ 64 ∧ m.riIndex = 1

instance (m : TableMeta) : Decidable m.Bounded := by unfold TableMeta.Bounded; infer_instance

def TableMeta.view (m : TableMeta) : Parsed :=
  { id := m.tableId, createdAt := m.createdAt, dataBlockCount := m.dataBlockCount, indexBlockCount := m.indexBlockCount,
    keyMin := m.keyMin, keyMax := m.keyMax, seqnoMin := m.seqnoMin, seqnoMax := m.seqnoMax, fileSize := m.fileSize,
    itemCount := m.itemCount, tombstoneCount := m.tombstoneCount, weakTombstoneCount := m.weakTombstoneCount,
    weakReclaimable := m.weakReclaimable, dataCompression := m.dataCompression, indexCompression := m.indexCompression }

/-- `meta(key, value)` (writer/mod.rs:417-419) -/
def item (k v : Bytes) : Entry Bytes := ⟨k, 0, .value, v⟩

/-- `meta_items` (writer/mod.rs:421-494) -/
def metaItems (m : TableMeta) : List (Entry Bytes) :=
  [ item kBlockCountData (leBytes 8 m.dataBlockCount),
    item kBlockCountFilter (leBytes 8 m.filterBlockCount),
    item kBlockCountIndex (leBytes 8 m.indexBlockCount),
    item kChecksumType [0],
    item kCompressionData [UInt8.ofNat m.dataCompression],
    item kCompressionIndex [UInt8.ofNat m.indexCompression],
    item kCrateVersion m.crateVersion,
    item kCreatedAt (leBytes 16 m.createdAt),
    item kDataBlockHashRatio m.hashRatio,
    item kFileSize (leBytes 8 m.fileSize),
    item kFilterHashType [0],
    item kIndexKeysHaveSeqno [1],
    item kInitialLevel (leBytes 1 m.initialLevel),
    item kItemCount (leBytes 8 m.itemCount),
    item kKeyMax m.keyMax,
    item kKeyMin m.keyMin,
    item kKeyCount (leBytes 8 m.keyCount),
    item kPrefixTruncationData [1],
    item kPrefixTruncationIndex [1],
    item kRestartIntervalData (leBytes 1 m.riData),
    item kRestartIntervalIndex (leBytes 1 m.riIndex),
    item kSeqnoMax (leBytes 8 m.seqnoMax),
    item kSeqnoMin (leBytes 8 m.seqnoMin),
    item kTableId (leBytes 8 m.tableId),
    item kTableVersion [3],
    item kTombstoneCount (leBytes 8 m.tombstoneCount),
    item kUserDataSize (leBytes 8 m.userDataSize),
    item kWeakTombstoneCount (leBytes 8 m.weakTombstoneCount),
    item kWeakTombstoneReclaimable (leBytes 8 m.weakReclaimable) ]

/-- the meta block payload -/
def encodeMetaBlock (m : TableMeta) : Bytes := Codec.encodeBlock 1 (metaItems m)

/-- `block.point_read(name, SeqNo::MAX)`: the value of the first item with that user key -/
def lookup (name : Bytes) (items : List (Entry Bytes)) : Option Bytes :=
  (items.find? (fun e => e.key == name)).map (·.val)

/-- `read_u64!` / `read_u128` / `read_u8!` -/
def readField (w : Nat) (name : Bytes) (items : List (Entry Bytes)) : Option Nat :=
  match lookup name items with
  | none => none
  | some v => (readLE w v).map (·.1)

/-- `CompressionType::decode_from` on the first byte -/
def readCompression (name : Bytes) (items : List (Entry Bytes)) : Option Nat :=
  match lookup name items with
  | some (b :: _) => if b.toNat < 2 then some b.toNat else none
  | _ => none

/-- `ParsedMeta::load_with_handle` after the block has been decoded -/
def parseMeta (items : List (Entry Bytes)) : Option Parsed :=
  if lookup kTableVersion items ≠ some [3] then none else
  if lookup kFilterHashType items ≠ some [0] then none else
  if lookup kChecksumType items ≠ some [0] then none else
  if readField 1 kRestartIntervalIndex items ≠ some 1 then none else
  match readField 8 kTableId items, readField 8 kItemCount items, readField 8 kTombstoneCount items,
        readField 8 kBlockCountData items, readField 8 kBlockCountIndex items, readField 8 kBlockCountFilter items,
        readField 8 kFileSize items, readField 8 kWeakTombstoneCount items, readField 8 kWeakTombstoneReclaimable items,
        readField 16 kCreatedAt items, lookup kKeyMin items, lookup kKeyMax items,
        readField 8 kSeqnoMin items, readField 8 kSeqnoMax items,
        readCompression kCompressionData items, readCompression kCompressionIndex items with
  | some id, some ic, some tc, some dbc, some ibc, some _, some fs, some wtc, some wr, some ca, some kmin, some kmax,
    some smin, some smax, some dc, some ixc =>
    some { id := id, createdAt := ca, dataBlockCount := dbc, indexBlockCount := ibc, keyMin := kmin, keyMax := kmax,
           seqnoMin := smin, seqnoMax := smax, fileSize := fs, itemCount := ic, tombstoneCount := tc,
           weakTombstoneCount := wtc, weakReclaimable := wr, dataCompression := dc, indexCompression := ixc }
  | _, _, _, _, _, _, _, _, _, _, _, _, _, _, _, _ => none

/-- recovery from the block bytes -/
def parseMetaBlock (bs : Bytes) : Option Parsed := (Codec.decodeBlock bs).bind parseMeta

/-- byte-wise lexicographic `<` on names (`is_sorted_by_key(|kv| &kv.key)` on user keys) -/
def bytesLt : Bytes → Bytes → Bool
  | [], [] => false
  | [], _ :: _ => true
  | _ :: _, [] => false
  | a :: as, b :: bs => if a.toNat < b.toNat then true else if b.toNat < a.toNat then false else bytesLt as bs

def ascending : List Bytes → Bool
  | a :: b :: r => bytesLt a b && ascending (b :: r)
  | _ => true

end Lsm.Meta
