/-
  LsmModel.Table.HashIndex — the hash index embedded in a data block, and the block/blob cache key
  (src/table/block/hash_index/{mod,builder,reader}.rs, src/table/block/{encoder,trailer}.rs,
   src/table/data_block/mod.rs `point_read`, src/cache.rs).

  MODELLING NOTES
  * Markers: `MARKER_FREE = u8::MAX - 1 = 254`, `MARKER_CONFLICT = u8::MAX = 255` (hash_index/mod.rs:27-28);
    `MAX_POINTERS_FOR_HASH_INDEX = 254` (builder.rs:9).
  * `calculate_bucket_position` (mod.rs:35-41): `(hash64(key) % u64::from(bucket_count)) as usize`.
    Modelled as `hash.toNat % buckets.length` on the 64-bit hash VALUE (xxh3_64 itself is not modelled; all
    theorems quantify over arbitrary hash values / hash functions).  Identical for bucket_count < 2^32
    (`bucket_count` is a u32; the builder derives it as `self.0.len() as u32`, builder.rs:59-61, the reader as
    `self.0.len() as u32`, reader.rs:47-51).  bucket_count = 0: the builder asserts (builder.rs:70), the reader
    is never constructed (`get_hash_index_reader` returns `None` when the stored length is 0,
    data_block/mod.rs:388-393).  The model is total (`getD … MARKER_FREE`), theorems assume a non-empty index.
  * `setBucket` = `Builder::set` (builder.rs:64-106); the match arms are tried in the Rust order:
      CONFLICT → unchanged;  FREE → store pos;  x == pos → unchanged;  otherwise → CONFLICT.
    The `debug_assert!(binary_index_pos <= 253)` (builder.rs:65-68) is not an `assert!`: in release builds a
    position 254 would be stored as "FREE" and 255 as "CONFLICT".  The model does what the release code does
    (see `example`s in Props/C11); the only caller guards with `restart_idx < 254` (encoder.rs:148).
  * `getRaw` = `Reader::get` (reader.rs:46-58), which returns the raw bucket byte.  The three-way
    interpretation is done by the caller `DataBlock::point_read` (data_block/mod.rs:413-436):
      MARKER_FREE ⇒ `return None`;  MARKER_CONFLICT ⇒ binary search (`iter.seek(needle)`);
      idx ⇒ `seek_to_offset(binary_index.get(idx))`, then the linear scan (mod.rs:449-469) which runs to the end of
      the block (not only to the end of the restart interval).
    `decode` + `Lookup` model this match; `get = decode ∘ getRaw`.
  * Which keys are registered: `Encoder::write` (encoder.rs:122-159) calls `hash_index_builder.set(item.key(),
    restart_idx as u8)` for EVERY item (not only restart heads), with `restart_idx = restart_count - 1` = index of
    the binary-index pointer of the restart interval the item lies in — provided `bucket_count() > 0 &&
    restart_idx < 254`.  Items with restart_idx ≥ 254 are silently NOT registered.  `encWrite`/`encode` transcribe
    the counter logic (`item_count.is_multiple_of(restart_interval)` ⇒ `restart_count += 1`).
    restart_interval = 0 is not modelled (`Encoder::new` divides by it, encoder.rs:91 ⇒ panic).
    A data block holds several versions of the same user key as separate items with the same key bytes
    (`item.key()` is the user key): they are all registered; if they straddle a restart boundary the bucket becomes
    CONFLICT.
  * Whether the index is written: `Trailer::write` (trailer.rs:92-111) writes it iff
    `bucket_count() > 0 && binary_index_len <= 254`, where `binary_index_len` = number of `insert` calls of the
    binary index builder (binary_index/builder.rs:15-17,34) = `restart_count` (one insert per increment,
    encoder.rs:128-136).  Otherwise `hash_index_len = 0` is stored and the reader sees no hash index
    (data_block/mod.rs:388-393) ⇒ `point_read` uses binary search.  `indexWritten` models the condition;
    `FilterLemmas.encode_written_all_registered` shows: written ⇒ no registration was skipped.
    Bucket count: `with_hash_ratio(item_count, ratio)` (builder.rs:23-51): ratio = 0 ⇒ 0 buckets ⇒ never
    written; ratio > 0 ⇒ `max(1, (item_count * ratio) as u32)` (f32 arithmetic, NOT modelled; bucket count is a
    parameter of the model).
  * Cache key (src/cache.rs:11-12,20-27): `struct CacheKey(u8, u64, u64, u64)` = (tag, root/tree id, table id,
    offset) with derived `Eq`/`Hash` (componentwise).  Blocks: `(TAG_BLOCK=0, id.tree_id(), id.table_id(),
    *offset)` (cache.rs:118,129); blobs: `(TAG_BLOB=1, vlog_id, vhandle.blob_file_id, vhandle.offset)`
    (cache.rs:142,154) where `vlog_id` is the owning tree's id (vlog/accessor.rs:27,48).
    Tree ids come from a process-global `static AtomicU64` counter (tree/inner.rs:28-31), drawn at create
    (inner.rs:87) and at recover (tree/mod.rs:947): two live `Tree` objects in one process never share an id, also
    when they share one `Cache`; ids are not persisted (a re-opened tree gets a fresh id, so entries of the old
    instance are never hit).  Table ids and blob-file ids are per-tree counters and may coincide numerically
    across trees and with each other — the tree id and the tag component separate them.  (Counter wrap-around
    after 2^64 opens is ignored.)
-/
namespace Lsm.HashIndex

def MARKER_FREE : UInt8 := 254
def MARKER_CONFLICT : UInt8 := 255
def MAX_POINTERS : Nat := 254

/-- `calculate_bucket_position` on the hash value -/
def bucketOf (bucketCount : Nat) (hash : UInt64) : Nat := hash.toNat % bucketCount

/-- `Builder::with_bucket_count` -/
def emptyIndex (bucketCount : Nat) : List UInt8 := List.replicate bucketCount MARKER_FREE

/-- `Builder::set` (builder.rs:64-106) on the hash value of the key -/
def setBucket (buckets : List UInt8) (hash : UInt64) (pos : UInt8) : List UInt8 :=
  let b := bucketOf buckets.length hash
  let cur := buckets.getD b MARKER_FREE
  if cur = MARKER_CONFLICT then buckets
  else if cur = MARKER_FREE then buckets.set b pos
  else if cur = pos then buckets
  else buckets.set b MARKER_CONFLICT

/-- first-order form: registrations are (hash value of the key, binary-index position) in insertion order -/
def buildH (bucketCount : Nat) (entries : List (UInt64 × UInt8)) : List UInt8 :=
  entries.foldl (fun bs e => setBucket bs e.1 e.2) (emptyIndex bucketCount)

/-- `Reader::get` (reader.rs:46-58): the raw bucket byte -/
def getRaw (buckets : List UInt8) (hash : UInt64) : UInt8 :=
  buckets.getD (bucketOf buckets.length hash) MARKER_FREE

inductive Lookup where
  | found (pos : UInt8)
  | conflicted
  | notFound
deriving DecidableEq, Repr

/-- the `match` in `DataBlock::point_read` (data_block/mod.rs:414-436) -/
def decode (b : UInt8) : Lookup :=
  if b = MARKER_FREE then .notFound
  else if b = MARKER_CONFLICT then .conflicted
  else .found b

def getH (buckets : List UInt8) (hash : UInt64) : Lookup := decode (getRaw buckets hash)

/-! ### key-level forms (any hash function) -/

/-- the hash index built from (key, position) registrations under a hash function -/
def build {Key : Type} (bucketCount : Nat) (hashOf : Key → UInt64) (entries : List (Key × UInt8)) : List UInt8 :=
  buildH bucketCount (entries.map (fun e => (hashOf e.1, e.2)))

def get {Key : Type} (buckets : List UInt8) (hashOf : Key → UInt64) (key : Key) : Lookup :=
  getH buckets (hashOf key)

/-! ### the block encoder's registrations (encoder.rs:122-159, trailer.rs:92-111) -/

structure EncState where
  itemCount : Nat
  restartCount : Nat
  buckets : List UInt8
deriving DecidableEq, Repr

/-- the part of `Encoder::write` that concerns counters and the hash index, on the hash of `item.key()` -/
def encWrite (interval : Nat) (s : EncState) (h : UInt64) : EncState :=
  let rc := if s.itemCount % interval = 0 then s.restartCount + 1 else s.restartCount
  let restartIdx := rc - 1
  let buckets :=
    if 0 < s.buckets.length ∧ restartIdx < MAX_POINTERS then setBucket s.buckets h (UInt8.ofNat restartIdx)
    else s.buckets
  { itemCount := s.itemCount + 1, restartCount := rc, buckets }

/-- all items of a block written in order -/
def encode (bucketCount interval : Nat) (itemHashes : List UInt64) : EncState :=
  itemHashes.foldl (encWrite interval) { itemCount := 0, restartCount := 0, buckets := emptyIndex bucketCount }

/-- `Trailer::write`: is the hash index written into the block? (`binary_index_len` = restart_count) -/
def indexWritten (s : EncState) : Bool := decide (0 < s.buckets.length) && decide (s.restartCount ≤ MAX_POINTERS)

/-- what `get_hash_index_reader` yields for the finished block -/
def blockIndex (s : EncState) : Option (List UInt8) := if indexWritten s then some s.buckets else none

/-- the registrations the encoder WOULD make without the `restart_idx < 254` guard (ghost, for the theorems):
    item number i (0-based) goes to restart interval i / interval -/
def idealRegs (interval : Nat) (itemHashes : List UInt64) : List (UInt64 × Nat) :=
  itemHashes.zipIdx.map (fun p => (p.1, p.2 / interval))

/-- `idealRegs` with the positions cast as the encoder does (`restart_idx as u8`) (ghost, for the theorems) -/
def regs8 (interval : Nat) (itemHashes : List UInt64) : List (UInt64 × UInt8) :=
  (idealRegs interval itemHashes).map (fun e => (e.1, UInt8.ofNat e.2))

/-- number of restart intervals begun after `c` items, ⌈c / interval⌉ (ghost, for the theorems) -/
def restartsAfter (interval c : Nat) : Nat := if c = 0 then 0 else (c - 1) / interval + 1

/-- the hash-index part of `point_read`: `absent` = "return None immediately", `binarySearch` = `iter.seek(needle)`
    over the whole block (also when the block has no hash index), `scanFrom i` = start the linear scan at the head of
    restart interval i (`seek_to_offset(binary_index.get(i))`) -/
inductive ReadPlan where
  | absent
  | binarySearch
  | scanFrom (restartIdx : Nat)
deriving DecidableEq, Repr

def pointReadPlan (index : Option (List UInt8)) (hash : UInt64) : ReadPlan :=
  match index with
  | none => .binarySearch
  | some buckets =>
    match getH buckets hash with
    | .notFound => .absent
    | .conflicted => .binarySearch
    | .found p => .scanFrom p.toNat

end Lsm.HashIndex

namespace Lsm.Cache

def TAG_BLOCK : UInt8 := 0
def TAG_BLOB : UInt8 := 1

/-- `struct CacheKey(u8, u64, u64, u64)` (cache.rs:20-21), equality/hash derived componentwise -/
structure CacheKey where
  tag : UInt8
  rootId : UInt64
  tableId : UInt64
  offset : UInt64
deriving DecidableEq, Repr

/-- what is being cached -/
inductive Ref where
  | block (treeId tableId offset : UInt64)
  | blob (treeId blobFileId offset : UInt64)
deriving DecidableEq, Repr

/-- `get_block`/`insert_block` (cache.rs:118,129) and `get_blob`/`insert_blob` (cache.rs:142,154) -/
def Ref.key : Ref → CacheKey
  | .block t f o => ⟨TAG_BLOCK, t, f, o⟩
  | .blob t f o => ⟨TAG_BLOB, t, f, o⟩

end Lsm.Cache
