import LsmModel.Basic
/-
  LsmModel.Table.Blocks — the table (SSTable) writer and its read paths at ITEM granularity.

  MODELLING NOTES (every interpretation of the Rust code; paths relative to /repo/src/table)

  WRITER (writer/mod.rs)
  W1  `Writer::write` (243-296) is `wstep`; `Writer::finish` (371-374: `self.spill_block()`) is `wfinish`;
      `writeTable bs sizeOf items = wfinish (items.foldl (wstep bs sizeOf) {})`.
  W2  Spill rule (284-290): `chunk_size += user_key.len() + value_len; chunk.push(item);` and only THEN
      `if chunk_size >= data_block_size { spill_block() }`.  So the test is made AFTER adding the item, with `>=`,
      and the measure is NOT the encoded size: it is `key.len() + value.len()` of the raw item
      (no seqno/type/varint overhead, no prefix truncation).  `sizeOf` abstracts that measure; to match the real
      writer instantiate `sizeOf e := e.key.length + e.val.length` (`realSizeOf`).  Consequences proved below:
      no block is empty; with `bs = 0` every item is its own block.
  W3  `spill_block` (303-366) is `spill`: nothing happens on an empty chunk (304-306); the index gets
      `KeyedBlockHandle::new(last.key.user_key, last.key.seqno, ..)` (332-337) — the LAST item's user key and seqno;
      `item_count += chunk.len()` (341), `data_block_count += 1` (342), `last_key = chunk.pop().key.user_key` (349-359),
      chunk cleared, `chunk_size = 0` (362-363).  File offsets/sizes of the handles are not modelled (the block list
      position stands for the handle).
  W4  Metadata bookkeeping in `write`: `tombstone_count` counts `is_tombstone()` = Tombstone|WeakTombstone (249-251,
      value_type.rs:27); `weak_tombstone_count` (253-255); `weak_tombstone_reclaimable_count` counts a `Value` item whose
      immediately preceding item (`previous_item`, 286) is a WeakTombstone of the same user key (257-264);
      `key_count` / `current_key` (267-269): one per run of equal user keys; the filter registration
      `filter_writer.register_key` happens in the same branch (275-277), i.e. ONCE PER DISTINCT USER KEY (not per item),
      and only if `bloom_policy.is_active()` — the model always records the registered keys in `filterKeys`;
      `first_key` (280-282); seqno min/max (292-293) with initial values `SeqNo::MAX` / `0` (writer/meta.rs:51-52)
      — `u64Max` here; they are updated AFTER the possible spill, which is irrelevant for the final value.
  W5  `item_count` and `last_key` are updated at spill time in the real writer.  `writerMeta` is the same bookkeeping
      done per item (no block structure); `writeTable_meta` (BlockLemmas) proves
      `(writeTable bs sizeOf items).mdata = writerMeta items` for all `bs`, `sizeOf`.  `data_block_count` is kept outside
      `Meta` (`TableImage.dataBlockCount`) because it is the only metadata field that depends on the block size.
  W6  `finish` returns `None` (file deleted) when `item_count = 0` (377-380): `writeTable _ _ []` is the empty image.

  INDEX (index_block/iter.rs, block/decoder.rs, block_index/full.rs)
  I1  Only the FULL block index is modelled (`FullBlockIndex`, the writer's default, writer/mod.rs:125).  The index block
      is always written with restart interval 1 (index_block/mod.rs:117), so every index entry is a restart head and
      the binary index enumerates all entries.  The two-level / volatile variants (block_index/two_level.rs, volatile.rs)
      reuse the same `seek`/`seek_upper` on each partition and are NOT modelled.
  I2  `Iter::seek(needle, seqno)` (index_block/iter.rs:25-35) runs `Decoder::seek(pred, second_partition = true)` with
      `pred(end_key, s) = end_key < needle || (end_key == needle && s >= seqno)` = `idxPred`.
      `partition_point_2` (decoder.rs:210-256) binary-searches the number `left` of leading entries satisfying `pred`
      and returns entry `left`, or the LAST entry if `left == len`; in the latter case `seek` re-tests `pred` on that
      entry (decoder.rs:278-299: `second_partition && restart_interval == 1 && pred(..)`), marks both scanners
      exhausted and returns `false`.  Net effect = `seekLower`: position at the first entry NOT satisfying `pred`,
      i.e. the first block whose end satisfies  `end.key > k ∨ (end.key = k ∧ end.seqno < S)`  — "end ≥ (k,S)" in
      internal-key order, where a block ending in `(k, s)` with `s ≥ S` is still considered BEFORE the needle;
      `false` when there is none.  The binary search is modelled by `ppoint` (number of leading `true`s), which is what
      a binary search computes for a predicate that is monotone on the list: `bsearch` below is the literal loop,
      `bsearch_full` (BlockLemmas) proves `bsearch p l = ppoint p l` for monotone `p`, and `idxPred_mono` /
      `idxPredUpper_mono` prove monotonicity on the (ascending) index of a written table (`c12_index_bsearch`).
  I3  `Iter::seek_upper(needle, _)` (iter.rs:37-41): `pred = end_key <= needle`, `partition_point_2`: entry number
      `min(left, len-1)`; returns `true` whenever the index is non-empty.  The upper scanner starts there: `seekUpperIdx`.
  I4  After `seek`(lower) and `seek_upper` the index decoder is a double-ended iterator over the entries
      `[a ..= b]` (empty if `a > b`): forward `next` stops at `lo.offset >= hi.offset` (decoder.rs:443-447), backward
      `consume_stack_top` stops at `offset < lo.offset` (decoder.rs:416-418).  Modelled as the list `(hs.take (b+1)).drop a`.

  POINT READ (mod.rs:229-340, data_block/mod.rs:412-472, data_block/iter.rs:37-76)
  P1  `Table::point_read` (317-340) is `pointRead`: `forward_reader(key, seqno)` = `seekLower`; `None` if it fails;
      then for each block handle from there: `block.point_read(key, seqno)`; `Some` → return; otherwise
      `if block_handle.end_key() > key { return None }` (334) else continue with the NEXT block (`pointLoop`).
  P2  `DataBlock::point_read` (412-472) without hash index (hash ratio 0.0 is the default; the hash index only
      short-cuts the seek) is `blockPointRead`: `iter.seek(needle)` positions at the restart interval whose head is the
      last head `< needle` (iter.rs:41-47, partition_point 153-207) and then skips items with key `< needle`; it gives up
      (`None`) at the first key `> needle` or at the end.  The loop 449-469 then walks on: `Greater → None`,
      `Less → continue`, `Equal`: `item.seqno >= seqno → continue` else return the item.  At item granularity both
      phases are one left-to-right walk; the restart-interval jump is `blockSeekRi`, proved equal to the plain walk
      (`blockSeekRi_dropWhile`) for sorted blocks.
  P3  `Table::get` (229-311) is `tableGet`: `seqno.saturating_sub(global_seqno)`; early `None` if
      `metadata.seqnos.0 >= seqno` (241-243); filter consulted (`filterOk` abstracts `maybe_contains_hash`);
      then `point_read`; the returned item's seqno is shifted back by `global_seqno` (328).
      `pointRead`, `scan`, `rangeRun` are stated for `global_seqno = 0`.

  SCAN (scanner.rs): `Scanner` reads `metadata.data_block_count` blocks in file order and yields every item: `scan`.

  RANGE (iter.rs, mod.rs:391-422)
  R1  `Table::range` creates `Iter` with `range = (lo?, hi?)`; `Iter::next` (170-292) is `rNext`, `next_back` (296-413)
      is `rNextBack`; state = `RState` (`index_iter` as the list of remaining handles, `lo_data_block`, `hi_data_block`
      as the lists of remaining items, `index_initialized`).  `lo_offset`/`hi_offset` are write-only in the Rust code.
  R2  Lazy index initialisation (186-221, 312-342) is `rInit`: `seek_lower(key, u64::MAX)` for a lower bound (both
      Included and Excluded use the bare key), then `seek_upper(key, u64::MAX)`; `ok = false` ⇒ both block readers
      dropped, `None` returned, and (by I2) the index iterator is exhausted.  NOTE `seek_lower(key, u64::MAX)` uses
      `s >= u64::MAX` for blocks ending in exactly `key`: a block whose last item is `(key, seqno = u64::MAX)` is
      skipped.  The range theorem therefore assumes seqnos `< u64::MAX` (`example_seqno_max` in Props/C12 shows the
      assumption is needed).
  R3  A freshly loaded data block gets `seek_lower_bound` then `seek_upper_bound` on the forward path (272-277) and the
      opposite order on the backward path (393-398).  At item granularity a block reader is a double-ended list;
      `seek` (data_block/iter.rs:37-76) pops items with key `< needle` from the front, `seek_exclusive` (115-145) pops
      `≤ needle`; `seek_upper` (78-113) pops items `> needle` from the back, `seek_upper_exclusive` (147-176) pops
      `≥ needle`; the boolean results are ignored by `table::Iter`.  `clipF` / `clipB` are the two orders.
      The byte-level interplay of `LoScanner`/`HiScanner`/`DoubleEndedPeekable` inside one block is NOT modelled here.
  R4  `next`: (1) pop from `lo_data_block` if it yields; (2) init; (3) loop over `index_iter.next()`: load, clip, pop the
      first item, store the reader in `lo_data_block` (REPLACING the previous one), return the item if any, else continue;
      when the index is exhausted pop from the FRONT of `hi_data_block`; if that yields nothing set both readers to
      `None`.  `next_back` is the mirror image.

  CHECKED AGAINST THE IMPLEMENTATION (outside Lean, /tmp/prover_o/scratch/CmpT.lean + /tmp/prover_o_rs):
      `writeTable bs realSizeOf`, `scan`, the metadata incl. `dataBlockCount`, `tableGet`, `rangeRun` agree with
      `table::Writer` (+`use_data_block_size(bs)`, restart intervals 1..16) / `Table::recover` / `scan` / `get` /
      `range` on 1100 random tables (block sizes 0..4096, version slabs spanning blocks, ~100 gets and 12-20 random
      double-ended ranged scans each).
-/
namespace Lsm.Blocks
open Lsm

variable {K : Type}

/-- `SeqNo::MAX` -/
def u64Max : Nat := 18446744073709551615

abbrev Block (K : Type) := List (Entry K)

/-- `KeyedBlockHandle` without the file position: `end_key` and `seqno` of the last item of the block. -/
structure IndexEntry (K : Type) where
  endKey : K
  seqno : Nat
deriving DecidableEq, Repr, Inhabited

/-- the part of `writer::meta::Metadata` that does not depend on the block size -/
structure Meta (K : Type) where
  itemCount : Nat := 0
  keyCount : Nat := 0
  tombstoneCount : Nat := 0
  weakTombstoneCount : Nat := 0
  weakTombstoneReclaimable : Nat := 0
  firstKey : Option K := none
  lastKey : Option K := none
  minSeqno : Nat := u64Max
  maxSeqno : Nat := 0
deriving DecidableEq, Repr, Inhabited

/-- what ends up in the table file -/
structure TableImage (K : Type) where
  blocks : List (Block K) := []
  index : List (IndexEntry K) := []
  dataBlockCount : Nat := 0
  mdata : Meta K := {}
  filterKeys : List K := []
deriving DecidableEq, Repr, Inhabited

/-- the measure the real writer uses for `sizeOf` (W2) -/
def realSizeOf (e : Entry (List UInt8)) : Nat := e.key.length + e.val.length

/-! ### Writer -/

/-- `Writer` (the fields that matter) -/
structure WState (K : Type) where
  blocks : List (Block K) := []
  index : List (IndexEntry K) := []
  dataBlockCount : Nat := 0
  chunk : List (Entry K) := []
  chunkSize : Nat := 0
  mdata : Meta K := {}
  currentKey : Option K := none
  previousItem : Option (K × VT) := none
  filterKeys : List K := []
deriving Repr

section Writer
variable [DecidableEq K]

/-- per-item bookkeeping of `Writer::write` that does not touch the chunk (W4); shared by `wstep` and `writerMeta` -/
structure Acct (K : Type) where
  mdata : Meta K := {}
  currentKey : Option K := none
  previousItem : Option (K × VT) := none
  filterKeys : List K := []
deriving Repr

/-- writer/mod.rs:249-282, 286.  Every `x += 1` under a condition is written `x + (if c then 1 else 0)`. -/
def acctStep (a : Acct K) (e : Entry K) : Acct K :=
  let m := a.mdata
  let newKey : Bool := decide (some e.key ≠ a.currentKey)
  let reclaim : Bool :=
    decide (e.vt = .value) &&
      (match a.previousItem with
       | some (pk, pt) => decide (pt = .weak) && decide (pk = e.key)
       | none => false)
  { mdata :=
      { m with
        tombstoneCount := m.tombstoneCount + (if e.isTomb then 1 else 0)
        weakTombstoneCount := m.weakTombstoneCount + (if e.vt = .weak then 1 else 0)
        weakTombstoneReclaimable := m.weakTombstoneReclaimable + (if reclaim then 1 else 0)
        keyCount := m.keyCount + (if newKey then 1 else 0)
        firstKey := if m.firstKey.isNone then some e.key else m.firstKey }
    currentKey := if newKey then some e.key else a.currentKey
    previousItem := some (e.key, e.vt)
    filterKeys := if newKey then a.filterKeys ++ [e.key] else a.filterKeys }

/-- writer/mod.rs:292-293 -/
def seqnoStep (m : Meta K) (e : Entry K) : Meta K :=
  { m with minSeqno := min m.minSeqno e.seqno, maxSeqno := max m.maxSeqno e.seqno }

/-- `Writer::spill_block` (W3) -/
def spill (s : WState K) : WState K :=
  match s.chunk.getLast? with
  | none => s
  | some last =>
    { s with
      blocks := s.blocks ++ [s.chunk]
      index := s.index ++ [⟨last.key, last.seqno⟩]
      dataBlockCount := s.dataBlockCount + 1
      mdata := { s.mdata with itemCount := s.mdata.itemCount + s.chunk.length, lastKey := some last.key }
      chunk := []
      chunkSize := 0 }

/-- `Writer::write` (W1, W2, W4) -/
def wstep (bs : Nat) (sizeOf : Entry K → Nat) (s : WState K) (e : Entry K) : WState K :=
  let a := acctStep ⟨s.mdata, s.currentKey, s.previousItem, s.filterKeys⟩ e
  let s1 : WState K :=
    { s with
      mdata := a.mdata, currentKey := a.currentKey, previousItem := a.previousItem, filterKeys := a.filterKeys
      chunkSize := s.chunkSize + sizeOf e
      chunk := s.chunk ++ [e] }
  let s2 := if s1.chunkSize ≥ bs then spill s1 else s1
  { s2 with mdata := seqnoStep s2.mdata e }

/-- `Writer::finish`: the final `spill_block` -/
def wfinish (s : WState K) : TableImage K :=
  let s := spill s
  { blocks := s.blocks, index := s.index, dataBlockCount := s.dataBlockCount, mdata := s.mdata, filterKeys := s.filterKeys }

/-- The table written from a stream (W1). -/
def writeTable (blockSize : Nat) (sizeOf : Entry K → Nat) (items : List (Entry K)) : TableImage K :=
  wfinish (items.foldl (wstep blockSize sizeOf) {})

/-- the writer's metadata bookkeeping done per item, without any block structure (W5) -/
def metaStep (a : Acct K) (e : Entry K) : Acct K :=
  let a := acctStep a e
  { a with mdata := seqnoStep { a.mdata with itemCount := a.mdata.itemCount + 1, lastKey := some e.key } e }

def writerAcct (items : List (Entry K)) : Acct K := items.foldl metaStep {}

/-- streaming metadata as the Writer computes it -/
def writerMeta (items : List (Entry K)) : Meta K := (writerAcct items).mdata

/-- keys handed to `filter_writer.register_key` -/
def writerFilterKeys (items : List (Entry K)) : List K := (writerAcct items).filterKeys

/-! ### Declarative metadata -/

/-- number of adjacent pairs (weak tombstone, value) on the same user key -/
def reclaimablePairs : List (Entry K) → Nat
  | [] => 0
  | [_] => 0
  | a :: b :: t =>
    (if a.vt = .weak ∧ b.vt = .value ∧ a.key = b.key then 1 else 0) + reclaimablePairs (b :: t)

/-- remove duplicates keeping first occurrences (own definition to keep the model import-free and first-order) -/
def dedupKeys : List K → List K
  | [] => []
  | k :: ks => k :: (dedupKeys ks).filter (fun x => x ≠ k)

/-- metadata of a stream, declaratively -/
def declMeta (items : List (Entry K)) : Meta K :=
  { itemCount := items.length
    keyCount := (dedupKeys (items.map (·.key))).length
    tombstoneCount := items.countP (·.isTomb)
    weakTombstoneCount := items.countP (fun e => e.vt = .weak)
    weakTombstoneReclaimable := reclaimablePairs items
    firstKey := items.head?.map (·.key)
    lastKey := items.getLast?.map (·.key)
    minSeqno := match (items.map (·.seqno)).min? with
      | some m => min u64Max m
      | none => u64Max
    maxSeqno := match (items.map (·.seqno)).max? with
      | some m => m
      | none => 0 }

end Writer

/-! ### Index seeks -/
section Reads
variable [LT K] [DecidableLT K] [DecidableEq K]

/-- number of leading elements satisfying `p` (what `partition_point*` binary-searches, I2) -/
def ppoint {α : Type} (p : α → Bool) : List α → Nat
  | [] => 0
  | x :: xs => if p x then ppoint p xs + 1 else 0

/-- literal transcription of the binary search loop of `partition_point{,_2}` (decoder.rs:173-192, 226-245)
    on a list, with `fuel` bounding the iterations; returns `left`. -/
def bsearch {α : Type} (p : α → Bool) (l : List α) : Nat → Nat → Nat → Nat
  | 0, left, _ => left
  | fuel + 1, left, right =>
    if left < right then
      let mid := (left + right) / 2
      match l[mid]? with
      | some x => if p x then bsearch p l fuel (mid + 1) right else bsearch p l fuel left mid
      | none => left
    else left

/-- the predicate of `index_block::Iter::seek` (I2) -/
def idxPred (k : K) (S : Nat) (ie : IndexEntry K) : Bool :=
  decide (ie.endKey < k) || (decide (ie.endKey = k) && decide (S ≤ ie.seqno))

/-- the predicate of `index_block::Iter::seek_upper` (I3): `end_key <= needle` -/
def idxPredUpper (k : K) (ie : IndexEntry K) : Bool := !decide (k < ie.endKey)

/-- `seek_lower`: position of the first entry failing `idxPred`; `none` = `false` (iterator exhausted) -/
def seekLowerIdx (index : List (IndexEntry K)) (k : K) (S : Nat) : Option Nat :=
  let left := ppoint (idxPred k S) index
  if left ≥ index.length then none else some left

/-- `seek_upper`: `min(left, len-1)`; `none` only for an empty index -/
def seekUpperIdx (index : List (IndexEntry K)) (k : K) : Option Nat :=
  if index.length = 0 then none
  else some (min (ppoint (idxPredUpper k) index) (index.length - 1))

/-! ### Point read -/

/-- `DataBlock::point_read` (P2) -/
def blockPointRead (k : K) (S : Nat) : Block K → Option (Entry K)
  | [] => none
  | e :: rest =>
    if e.key < k then blockPointRead k S rest          -- Ordering::Less: continue
    else if k < e.key then none                         -- Ordering::Greater
    else if S ≤ e.seqno then blockPointRead k S rest    -- item.seqno >= seqno: continue
    else some e

/-- the restart-interval jump of `data_block::Iter::seek` (P2): with restart interval `ri`, the heads are the items
    at positions `0, ri, 2·ri, …`; `partition_point` returns head number `max(left-1, 0)` (clamped to the last) where
    `left` = number of leading heads with key `< needle`; the scan starts at that head. -/
def restartHeads (ri : Nat) (b : Block K) : List (Entry K) :=
  (List.range ((b.length + ri - 1) / ri)).filterMap (fun i => b[i * ri]?)

def blockSeekRi (ri : Nat) (k : K) (b : Block K) : Block K :=
  let heads := restartHeads ri b
  let left := ppoint (fun h : Entry K => decide (h.key < k)) heads
  let idx := if left = 0 then 0 else if left = heads.length then heads.length - 1 else left - 1
  (b.drop (idx * ri)).dropWhile (fun e => decide (e.key < k))

/-- the loop of `Table::point_read` (P1) over the handles from the seek position on -/
def pointLoop (k : K) (S : Nat) : List (IndexEntry K × Block K) → Option (Entry K)
  | [] => none
  | (ie, b) :: rest =>
    match blockPointRead k S b with
    | some e => some e
    | none => if k < ie.endKey then none else pointLoop k S rest

/-- `Table::point_read` (P1) -/
def pointRead (t : TableImage K) (k : K) (S : Nat) : Option (Entry K) :=
  match seekLowerIdx t.index k S with
  | none => none
  | some i => pointLoop k S ((t.index.zip t.blocks).drop i)

/-- `Table::get` (P3); `filterOk` stands for `maybe_contains_hash` of the table's filter (true = "maybe") -/
def tableGet (t : TableImage K) (gseq : Nat) (filterOk : K → Bool) (k : K) (S : Nat) : Option (Entry K) :=
  let S' := S - gseq
  if t.mdata.minSeqno ≥ S' then none
  else if !filterOk k then none
  else (pointRead t k S').map (fun e => { e with seqno := e.seqno + gseq })

/-! ### Full scan -/

/-- `Scanner` -/
def scan (t : TableImage K) : List (Entry K) := (t.blocks.take t.dataBlockCount).flatten

/-! ### Ranged double-ended iteration -/

def dropWhileBack {α : Type} (p : α → Bool) (l : List α) : List α := (l.reverse.dropWhile p).reverse

/-- `seek_lower_bound` on a block reader (R3) -/
def seekLowerBound (lo : Bound K) (b : List (Entry K)) : List (Entry K) :=
  match lo with
  | .incl x => b.dropWhile (fun e => decide (e.key < x))
  | .excl x => b.dropWhile (fun e => !decide (x < e.key))
  | .unb => b

/-- `seek_upper_bound` on a block reader (R3) -/
def seekUpperBound (hi : Bound K) (b : List (Entry K)) : List (Entry K) :=
  match hi with
  | .incl x => dropWhileBack (fun e => decide (x < e.key)) b
  | .excl x => dropWhileBack (fun e => !decide (e.key < x)) b
  | .unb => b

/-- forward path: lower then upper -/
def clipF (lo hi : Bound K) (b : Block K) : List (Entry K) := seekUpperBound hi (seekLowerBound lo b)
/-- backward path: upper then lower -/
def clipB (lo hi : Bound K) (b : Block K) : List (Entry K) := seekLowerBound lo (seekUpperBound hi b)

def boundKey? : Bound K → Option K
  | .incl k => some k
  | .excl k => some k
  | .unb => none

/-- `table::Iter` -/
structure RState (K : Type) where
  idx : List (IndexEntry K × Block K)
  lo : Option (List (Entry K)) := none
  hi : Option (List (Entry K)) := none
  init : Bool := false
deriving Repr

/-- lazy index initialisation (R2, I4); `none` = `ok == false` -/
def rInit (hs : List (IndexEntry K × Block K)) (lo hi : Bound K) : Option (List (IndexEntry K × Block K)) :=
  let index := hs.map (·.1)
  let a? : Option Nat := match boundKey? lo with
    | some k => seekLowerIdx index k u64Max
    | none => some 0
  match a? with
  | none => none
  | some a =>
    match boundKey? hi with
    | none => some (hs.drop a)
    | some k =>
      match seekUpperIdx index k with
      | none => none
      | some b => some ((hs.take (b + 1)).drop a)

/-- the `loop` of `Iter::next` (R4) -/
def nextLoop (lo hi : Bound K) (st : RState K) : List (IndexEntry K × Block K) → Option (Entry K) × RState K
  | [] =>
    match st.hi with
    | some (x :: r) => (some x, { st with idx := [], hi := some r })
    | _ => (none, { st with idx := [], lo := none, hi := none })
  | (_, b) :: rest =>
    match clipF lo hi b with
    | x :: r => (some x, { st with idx := rest, lo := some r })
    | [] => nextLoop lo hi { st with lo := some [] } rest

/-- the `loop` of `Iter::next_back`; the handles are passed REVERSED -/
def backLoop (lo hi : Bound K) (st : RState K) : List (IndexEntry K × Block K) → Option (Entry K) × RState K
  | [] =>
    match st.lo.map List.reverse with
    | some (x :: r) => (some x, { st with idx := [], lo := some r.reverse })
    | _ => (none, { st with idx := [], lo := none, hi := none })
  | (_, b) :: rest =>
    match (clipB lo hi b).reverse with
    | x :: r => (some x, { st with idx := rest.reverse, hi := some r.reverse })
    | [] => backLoop lo hi { st with hi := some [] } rest

/-- index initialisation inside `next`/`next_back`; `none` = return `None` -/
def rEnsureInit (lo hi : Bound K) (st : RState K) : Option (RState K) :=
  if st.init then some st
  else match rInit st.idx lo hi with
    | some idx' => some { st with idx := idx', init := true }
    | none => none

/-- `Iter::next` -/
def rNext (lo hi : Bound K) (st : RState K) : Option (Entry K) × RState K :=
  match st.lo with
  | some (x :: r) => (some x, { st with lo := some r })
  | _ =>
    match rEnsureInit lo hi st with
    | none => (none, { st with idx := [], lo := none, hi := none, init := true })
    | some st => nextLoop lo hi st st.idx

/-- `Iter::next_back` -/
def rNextBack (lo hi : Bound K) (st : RState K) : Option (Entry K) × RState K :=
  match st.hi.map List.reverse with
  | some (x :: r) => (some x, { st with hi := some r.reverse })
  | _ =>
    match rEnsureInit lo hi st with
    | none => (none, { st with idx := [], lo := none, hi := none, init := true })
    | some st => backLoop lo hi st st.idx.reverse

def rRun (lo hi : Bound K) : RState K → List Dir → List (Option (Entry K))
  | _, [] => []
  | st, .F :: w => let (o, st') := rNext lo hi st; o :: rRun lo hi st' w
  | st, .B :: w => let (o, st') := rNextBack lo hi st; o :: rRun lo hi st' w

/-- `Table::range((lo, hi))` driven by the word `w` -/
def rangeRun (t : TableImage K) (lo hi : Bound K) (w : List Dir) : List (Option (Entry K)) :=
  rRun lo hi { idx := t.index.zip t.blocks } w

end Reads
end Lsm.Blocks
