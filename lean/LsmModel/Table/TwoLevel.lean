import LsmModel.Table.IndexBlock
/-
  LsmModel.Table.TwoLevel — the index WRITERS (full / partitioned) and the block index READERS (full, volatile, two-level).

  MODELLING NOTES (paths relative to /repo/src/table)

  T1  `FullIndexWriter` (writer/index/full.rs): `register_data_block` pushes the handle (44-55); `finish` writes ONE index
      block with all handles into the "tli" section (57-66).  Model: the flat handle list itself.
  T2  `PartitionedIndexWriter` (writer/index/partitioned.rs).  `register_data_block` (161-182):
      `buffer_size += end_key.len() + size_of::<KeyedBlockHandle>()`, push, and `cut_index_block` iff
      `buffer_size >= partition_size`.  `size_of::<KeyedBlockHandle>()` is a platform constant (`hsz`, observed by the
      harness with `std::mem::size_of`).  `finish` (184-203) cuts the rest iff `buffer_size > 0`.  `cut_index_block`
      (49-101) encodes the buffered handles as one index block, and pushes to the top-level list a handle with the END KEY
      AND SEQNO OF THE LAST buffered handle (69-79) and the partition's file position / on-disk size; clears the buffer.
      Model: `pwStep` / `pwFinish` / `cutPartitions`; the top-level entry of a partition is `tliEntry` (key and seqno; the
      offset/size of the partition block are file-layout data observed, not computed).  `u32` wrap-around of
      `buffer_size` is not modelled.  The top-level index is itself ONE index block (103-139, section "tli"), the
      partitions are concatenated in section "index".
  T3  Readers.  All three (`block_index/{full,volatile,two_level}.rs`) iterate `OwnedIndexBlockIter`s (block_index/iter.rs)
      = `index_block::Iter` + `materialize`; a block iterator after its seeks is the list window `IndexBlock.windowP`
      (X6; the decoder-level state machine is `IndexBlock.BIter`).
      * full.rs: `seek_lower`/`seek_upper` act on the block iterator at once; `forward_reader` = `iter` + `seek_lower`,
        `None` if it returns `false` (22-33).  `flatRun`.
      * volatile.rs: `seek_lower`/`seek_upper` only STORE the bound and return `true` (88-98); the first `next`/`next_back`
        loads the block, applies the stored seeks (`return None` if one fails, WITHOUT caching the iterator) and keeps
        the iterator (100-176).  `VIter`.
      * two_level.rs: `seek_lower`/`seek_upper` only store the bound (102-112).  `next` (114-173): (1) pull from
        `lo_consumer`; (2) `init_tli` if needed (82-99: seek the top-level block with the stored bounds, `false` = return
        `None`); (3) `tli.next()`: load that partition, apply both stored seeks to it (`return None` if one fails — the
        top-level iterator HAS been advanced and `lo_consumer` is left as it was), pull its first handle, store the
        iterator as `lo_consumer` (even when it yielded nothing), return the handle if any; (4) otherwise pull from the
        FRONT of `hi_consumer`.  `next_back` (176-235) is the mirror image.  `TLIter`.
        `load_block` of a top-level handle is modelled as pairing every top-level entry with the handle list of the
        partition it points to (`top : List (α × List α)`).  I/O errors (`fail_iter!`) are not modelled.
      `BlockIndexImpl::forward_reader` (block_index/mod.rs:101-121) returns `None` for the full index when the seek fails,
      but always `Some(iterator)` for the volatile / two-level index (their `seek_lower` returns `true`); the iterator then
      yields nothing.  `Table::point_read` (mod.rs:317-340) treats both the same.
-/
namespace Lsm.TwoLevel
open Lsm Lsm.Codec Lsm.Blocks Lsm.IndexBlock

/-! ### writers -/

/-- `PartitionedIndexWriter` state: finished partitions, buffered handles, `buffer_size` -/
structure PW (α : Type) where
  done : List (List α) := []
  buf : List α := []
  bufSize : Nat := 0
deriving Repr

/-- `cut_index_block` -/
def PW.cut {α : Type} (s : PW α) : PW α := { done := s.done ++ [s.buf], buf := [], bufSize := 0 }

/-- `register_data_block`; `sz h` = `end_key.len() + size_of::<KeyedBlockHandle>()` -/
def pwStep {α : Type} (sz : α → Nat) (psize : Nat) (s : PW α) (h : α) : PW α :=
  let s := { s with bufSize := s.bufSize + sz h, buf := s.buf ++ [h] }
  if s.bufSize ≥ psize then s.cut else s

/-- `finish` -/
def pwFinish {α : Type} (s : PW α) : List (List α) := if s.bufSize > 0 then s.cut.done else s.done

/-- the partitions the writer produces for the handle list `hs` -/
def cutPartitions {α : Type} (sz : α → Nat) (psize : Nat) (hs : List α) : List (List α) :=
  pwFinish (hs.foldl (pwStep sz psize) {})

/-- accounted size of a handle (T2) -/
def handleSize (hsz : Nat) (h : KHandle) : Nat := h.endKey.length + hsz

/-- key and seqno of the top-level entry of a partition: those of its last handle -/
def tliEntry (p : List KHandle) : Option (IndexEntry Bytes) := p.getLast?.map KHandle.toIE

/-! ### readers -/

/-- `None` forever -/
def nones {β : Type} (w : List Dir) : List (Option β) := w.map (fun _ => none)

/-- the flat (full) index: seek, then double-ended consumption of the window; a failed seek = nothing to deliver -/
def flatRunP {α : Type} (pLo pHi : Option (α → Bool)) (l : List α) (w : List Dir) : List (Option α) :=
  match windowP pLo pHi l with
  | none => nones w
  | some win => bothEnds win w

def flatRun (hs : List KHandle) (lo : Option (Bytes × Nat)) (hi : Option Bytes) (w : List Dir) : List (Option KHandle) :=
  flatRunP (loPred lo) (hiPred hi) hs w

/-- pop the last element -/
def popBack {α : Type} (l : List α) : Option (α × List α) :=
  match l.getLast? with
  | some x => some (x, l.dropLast)
  | none => none

/-- `volatile::Iter` -/
structure VIter (α : Type) where
  block : List α
  inner : Option (List α) := none

def VIter.next {α : Type} (pLo pHi : Option (α → Bool)) (st : VIter α) : Option α × VIter α :=
  match st.inner with
  | some (x :: r) => (some x, { st with inner := some r })
  | some [] => (none, st)
  | none =>
    match windowP pLo pHi st.block with
    | none => (none, st)
    | some (x :: r) => (some x, { st with inner := some r })
    | some [] => (none, { st with inner := some [] })

def VIter.nextBack {α : Type} (pLo pHi : Option (α → Bool)) (st : VIter α) : Option α × VIter α :=
  match st.inner with
  | some l =>
    match popBack l with
    | some (x, r) => (some x, { st with inner := some r })
    | none => (none, st)
  | none =>
    match windowP pLo pHi st.block with
    | none => (none, st)
    | some l =>
      match popBack l with
      | some (x, r) => (some x, { st with inner := some r })
      | none => (none, { st with inner := some [] })

def VIter.run {α : Type} (pLo pHi : Option (α → Bool)) : VIter α → List Dir → List (Option α)
  | _, [] => []
  | st, .F :: w => let r := st.next pLo pHi; r.1 :: VIter.run pLo pHi r.2 w
  | st, .B :: w => let r := st.nextBack pLo pHi; r.1 :: VIter.run pLo pHi r.2 w

/-- `two_level::Iter`; `top` = the top-level block: each entry with the partition it points to -/
structure TLIter (α : Type) where
  top : List (α × List α)
  tli : Option (List (α × List α)) := none
  loC : Option (List α) := none
  hiC : Option (List α) := none

/-- a bound applied to the top-level entries -/
def onTop {α : Type} (p : Option (α → Bool)) : Option (α × List α → Bool) := p.map (fun f e => f e.1)

/-- `init_tli` if `tli` is `None`; `none` = it returned `false` -/
def TLIter.ensureInit {α : Type} (pLo pHi : Option (α → Bool)) (st : TLIter α) : Option (TLIter α) :=
  match st.tli with
  | some _ => some st
  | none =>
    match windowP (onTop pLo) (onTop pHi) st.top with
    | none => none
    | some t => some { st with tli := some t }

/-- step (4) of `next` -/
def TLIter.fallHi {α : Type} (st : TLIter α) : Option α × TLIter α :=
  match st.hiC with
  | some (x :: r) => (some x, { st with hiC := some r })
  | _ => (none, st)

/-- last step of `next_back` -/
def TLIter.fallLo {α : Type} (st : TLIter α) : Option α × TLIter α :=
  match st.loC with
  | some l =>
    match popBack l with
    | some (x, r) => (some x, { st with loC := some r })
    | none => (none, st)
  | none => (none, st)

def TLIter.nextInit {α : Type} (pLo pHi : Option (α → Bool)) (st : TLIter α) : Option α × TLIter α :=
  match st.tli with
  | some (e :: rest) =>
    let st := { st with tli := some rest }
    match windowP pLo pHi e.2 with
    | none => (none, st)
    | some (x :: r) => (some x, { st with loC := some r })
    | some [] => ({ st with loC := some [] } : TLIter α).fallHi
  | _ => st.fallHi

/-- `Iter::next` -/
def TLIter.next {α : Type} (pLo pHi : Option (α → Bool)) (st : TLIter α) : Option α × TLIter α :=
  match st.loC with
  | some (x :: r) => (some x, { st with loC := some r })
  | _ =>
    match st.ensureInit pLo pHi with
    | none => (none, st)
    | some st => st.nextInit pLo pHi

def TLIter.backInit {α : Type} (pLo pHi : Option (α → Bool)) (st : TLIter α) : Option α × TLIter α :=
  match st.tli.bind popBack with
  | some (e, rest) =>
    let st := { st with tli := some rest }
    match windowP pLo pHi e.2 with
    | none => (none, st)
    | some l =>
      match popBack l with
      | some (x, r) => (some x, { st with hiC := some r })
      | none => ({ st with hiC := some [] } : TLIter α).fallLo
  | none => st.fallLo

/-- `Iter::next_back` -/
def TLIter.nextBack {α : Type} (pLo pHi : Option (α → Bool)) (st : TLIter α) : Option α × TLIter α :=
  match st.hiC.bind popBack with
  | some (x, r) => (some x, { st with hiC := some r })
  | none =>
    match st.ensureInit pLo pHi with
    | none => (none, st)
    | some st => st.backInit pLo pHi

def TLIter.run {α : Type} (pLo pHi : Option (α → Bool)) : TLIter α → List Dir → List (Option α)
  | _, [] => []
  | st, .F :: w => let r := st.next pLo pHi; r.1 :: TLIter.run pLo pHi r.2 w
  | st, .B :: w => let r := st.nextBack pLo pHi; r.1 :: TLIter.run pLo pHi r.2 w

/-- the two-level index over `top` with bounds `lo`, `hi`, pulled according to `w` -/
def twoLevelRun (top : List (KHandle × List KHandle)) (lo : Option (Bytes × Nat)) (hi : Option Bytes) (w : List Dir) :
    List (Option KHandle) :=
  TLIter.run (loPred lo) (hiPred hi) { top := top } w

def volatileRun (hs : List KHandle) (lo : Option (Bytes × Nat)) (hi : Option Bytes) (w : List Dir) : List (Option KHandle) :=
  VIter.run (loPred lo) (hiPred hi) { block := hs } w

end Lsm.TwoLevel
