import LsmModel.Basic
/-
  LsmModel.Table.Codec — BYTE-level model of ONE data block: encoder, forward decoder.

  MODELLING NOTES (paths relative to /repo/src/table)

  C1  Varints (`varint-rs` 2.2.1, `write_varint!` lib.rs:270-290, `read_varint!` lib.rs:84-105): unsigned LEB128,
      low 7 bits first, continuation bit 0x80; zero is the single byte 0.  `encodeVarint` transcribes the writer
      (`while value >= 0x80 { write (value & 0x7f) | 0x80; value >>= 7 }; write value & 0x7f`), with the recursion made
      structural by a fuel argument initialised with the value itself.  `decodeVarint` transcribes the reader
      (`decoded |= (next & 0x7f) << shift; if next & 0x80 != 0 { shift += 7 } else return`), on `Nat`, with
      `|` written as `+` (the bit ranges are disjoint) and `<< shift` as `* 2^shift`.  The fixed widths (u16 for key
      lengths, u32 for value lengths, u64 for seqnos; data_block/mod.rs:204-215, 231-260) are not modelled: the
      `as u16` / `as u32` casts are the identity for the lengths the API allows (keys ≤ 65535 bytes, values < 2^32),
      and a reader-side shift overflow can only happen on malformed input.
  C2  Item layout (data_block/mod.rs:194-264).  Restart head (`encode_full_into`):
        [value_type u8] [seqno varint] [key_len varint] [key] ( [val_len varint] [val] )?
      truncated item (`encode_truncated_into`):
        [value_type u8] [seqno varint] [shared_len varint] [rest_len varint] [key[shared..]] ( [val_len varint] [val] )?
      The value part is written iff `!is_tombstone()` (212, 257), so for Tombstone/WeakTombstone the value bytes are
      NOT stored; the decoder returns the empty value (`Slice::empty`, 309-312).  Round trips therefore need
      `e.isTomb → e.val = []` (`WfEntry`), which is what `InternalValue::new_tombstone`/`new_weak_tombstone` build.
  C3  Prefix truncation is against the RESTART HEAD of the current interval, not the previous item: the encoder keeps
      `base_key`, set only when a restart head is written (block/encoder.rs:122-144: `self.base_key = item.key()` in the
      restart branch; `longest_shared_prefix_length(self.base_key, item.key())` otherwise).  `sharedPrefixLen` is
      `longest_shared_prefix_length` (util.rs).  An item is a restart head iff `item_count % restart_interval == 0`
      (`is_multiple_of`, encoder.rs:124-127; for `ri = 0` that is `item_count == 0`, same as Lean's `% 0`).
  C4  Binary index (block/binary_index/builder.rs): the byte offset (`writer.len()`) of every restart head, pushed when
      `restart_interval > 0` (encoder.rs:130-136); written after the marker as u16 LE each if the LAST offset fits u16,
      else u32 LE each (`step_size` 2 / 4).
  C5  Trailer (block/trailer.rs:75-170): `0xFF` marker (`TRAILER_START_MARKER`), binary index, [hash index — not
      modelled: `hash_index_ratio = 0.0` is the writer default (writer/mod.rs:114) and then `bucket_count = 0`],
      then the fixed 31 bytes:  restart_interval u8, step_size u8, binary_index_len u32, binary_index_offset u32,
      hash_index_len u32 (0), hash_index_offset u32 (0), prefix-truncation flag u8 = 1, fixed-key-size u8 0 + u16 0,
      fixed-value-size u8 0 + u32 0, item_count u32.  All integers little endian.
  C6  Forward decoding (block/decoder.rs:85-126, 439-484; data_block/mod.rs:58-191): the restart interval is read from
      the first trailer byte (`len - 31`); iteration starts at offset 0; an item is parsed as a restart head iff
      `remaining_in_interval == 0` (then `remaining := ri - 1`, else `remaining -= 1`); a truncated item's key is
      `data[base_key_offset .. base_key_offset + shared] ++ rest` where `base_key_offset` is the key position of the
      last restart head — modelled as `base.take shared ++ rest`; the first byte `0xFF` where an item should start
      ends the iteration.  Malformed input (premature end, unknown value type) makes the Rust code return `None`
      from `unwrap!`/panic; the model returns `none` for the whole block.
      Backward iteration, `seek`/`seek_upper` over the binary index and the hash index are NOT modelled at byte level
      (their item-level behaviour is in LsmModel.Table.Blocks).
  C7  CHECKED AGAINST THE IMPLEMENTATION (outside Lean, /tmp/prover_o/scratch/Cmp.lean + /tmp/prover_o_rs):
      `encodeBlock ri items` is byte-identical to `DataBlock::encode_into_vec(&items, ri, 0.0)` on 400 random blocks
      (ri ∈ {1,2,3,4,16,255}, keys up to 300 bytes, values up to 20000 bytes, seqnos up to 2^64-1, blocks beyond
      65535 bytes so that the binary index switches to 4-byte offsets).  Keys must be non-empty on the Rust side
      (`InternalValue::new` asserts it, value.rs:45); the model does not need that.
-/
namespace Lsm.Codec
open Lsm

abbrev Bytes := List UInt8

/-! ### varint -/

def varintGo : Nat → Nat → Bytes
  | 0, n => [UInt8.ofNat n]
  | f + 1, n =>
    if n < 128 then [UInt8.ofNat n]
    else UInt8.ofNat (n % 128 + 128) :: varintGo f (n / 128)

/-- `write_u{16,32,64}_varint` -/
def encodeVarint (n : Nat) : Bytes := varintGo n n

/-- `read_u{16,32,64}_varint` from the front of a byte list: value and the remaining bytes -/
def decodeVarintGo : Nat → Nat → Bytes → Option (Nat × Bytes)
  | _, _, [] => none
  | shift, acc, b :: rest =>
    let acc' := acc + (b.toNat % 128) * 2 ^ shift
    if b.toNat ≥ 128 then decodeVarintGo (shift + 7) acc' rest else some (acc', rest)

def decodeVarint (bs : Bytes) : Option (Nat × Bytes) := decodeVarintGo 0 0 bs

/-! ### one item -/

/-- `longest_shared_prefix_length` -/
def sharedPrefixLen : Bytes → Bytes → Nat
  | a :: as, b :: bs => if a = b then sharedPrefixLen as bs + 1 else 0
  | _, _ => 0

/-- value part: present iff not a tombstone -/
def encodeValPart (e : Entry Bytes) : Bytes :=
  if e.isTomb then [] else encodeVarint e.val.length ++ e.val

/-- `encode_full_into` -/
def encodeFull (e : Entry Bytes) : Bytes :=
  e.vt.toByte :: (encodeVarint e.seqno ++ (encodeVarint e.key.length ++ (e.key ++ encodeValPart e)))

/-- `encode_truncated_into` -/
def encodeTrunc (shared : Nat) (e : Entry Bytes) : Bytes :=
  e.vt.toByte :: (encodeVarint e.seqno ++ (encodeVarint shared ++
    (encodeVarint (e.key.length - shared) ++ (e.key.drop shared ++ encodeValPart e))))

/-- take exactly `n` bytes -/
def takeExact (n : Nat) (bs : Bytes) : Option (Bytes × Bytes) :=
  if bs.length < n then none else some (bs.take n, bs.drop n)

def isTombVT (vt : VT) : Bool := vt == .tomb || vt == .weak

/-- value part of `parse_full` / `parse_truncated` -/
def decodeValPart (vt : VT) (bs : Bytes) : Option (Val × Bytes) :=
  if isTombVT vt then some ([], bs)
  else
    match decodeVarint bs with
    | none => none
    | some (vlen, r) => takeExact vlen r

/-- `parse_full` + `materialize` (the `0xFF` test is done by the caller) -/
def decodeFull (bs : Bytes) : Option (Entry Bytes × Bytes) :=
  match bs with
  | [] => none
  | t :: r =>
    match VT.ofByte? t with
    | none => none
    | some vt =>
      match decodeVarint r with
      | none => none
      | some (seqno, r) =>
        match decodeVarint r with
        | none => none
        | some (klen, r) =>
          match takeExact klen r with
          | none => none
          | some (key, r) =>
            match decodeValPart vt r with
            | none => none
            | some (val, r) => some (⟨key, seqno, vt, val⟩, r)

/-- `parse_truncated` + `materialize` with the restart head's key `base` -/
def decodeTrunc (base : Bytes) (bs : Bytes) : Option (Entry Bytes × Bytes) :=
  match bs with
  | [] => none
  | t :: r =>
    match VT.ofByte? t with
    | none => none
    | some vt =>
      match decodeVarint r with
      | none => none
      | some (seqno, r) =>
        match decodeVarint r with
        | none => none
        | some (shared, r) =>
          match decodeVarint r with
          | none => none
          | some (restLen, r) =>
            match takeExact restLen r with
            | none => none
            | some (restKey, r) =>
              match decodeValPart vt r with
              | none => none
              | some (val, r) => some (⟨base.take shared ++ restKey, seqno, vt, val⟩, r)

/-! ### block encoder -/

def le16 (n : Nat) : Bytes := [UInt8.ofNat (n % 256), UInt8.ofNat (n / 256 % 256)]
def le32 (n : Nat) : Bytes :=
  [UInt8.ofNat (n % 256), UInt8.ofNat (n / 256 % 256), UInt8.ofNat (n / 65536 % 256), UInt8.ofNat (n / 16777216 % 256)]

/-- `Encoder` -/
structure EncState where
  out : Bytes := []
  count : Nat := 0
  base : Bytes := []
  binIdx : List Nat := []
deriving Repr

/-- `Encoder::write` -/
def encStep (ri : Nat) (s : EncState) (e : Entry Bytes) : EncState :=
  if s.count % ri = 0 then
    { out := s.out ++ encodeFull e
      count := s.count + 1
      base := e.key
      binIdx := if ri > 0 then s.binIdx ++ [s.out.length] else s.binIdx }
  else
    { s with
      out := s.out ++ encodeTrunc (sharedPrefixLen s.base e.key) e
      count := s.count + 1 }

/-- `binary_index::Builder::write` -/
def encodeBinIdx (offs : List Nat) : Nat × Bytes :=
  let step := if offs.getLast?.getD 0 ≤ 65535 then 2 else 4
  (step, if step = 2 then offs.flatMap le16 else offs.flatMap le32)

/-- the fixed 31 bytes -/
def encodeTrailer (ri step binLen binOff count : Nat) : Bytes :=
  [UInt8.ofNat ri, UInt8.ofNat step] ++ le32 binLen ++ le32 binOff ++ le32 0 ++ le32 0 ++
    [1, 0, 0, 0, 0, 0, 0, 0, 0] ++ le32 count

def trailerSize : Nat := 31

/-- `Trailer::write` -/
def encFinish (ri : Nat) (s : EncState) : Bytes :=
  let out := s.out ++ [255]
  let binOff := out.length
  let (step, bin) := encodeBinIdx s.binIdx
  out ++ bin ++ encodeTrailer ri step s.binIdx.length binOff s.count

/-- `DataBlock::encode_into(items, restart_interval, hash_index_ratio = 0.0)` -/
def encodeBlock (ri : Nat) (items : List (Entry Bytes)) : Bytes :=
  encFinish ri (items.foldl (encStep ri) {})

/-! ### block decoder (forward iteration) -/

/-- `Decoder::next` repeated until the trailer marker; `rem` = `remaining_in_interval`, `base` = restart head key -/
def decodeItems : Nat → Nat → Nat → Bytes → Bytes → Option (List (Entry Bytes))
  | 0, _, _, _, _ => none
  | fuel + 1, ri, rem, base, bytes =>
    match bytes with
    | [] => none
    | t :: _ =>
      if t = 255 then some []
      else if rem = 0 then
        match decodeFull bytes with
        | some (e, rest) => (decodeItems fuel ri (ri - 1) e.key rest).map (e :: ·)
        | none => none
      else
        match decodeTrunc base bytes with
        | some (e, rest) => (decodeItems fuel ri (rem - 1) base rest).map (e :: ·)
        | none => none

/-- `DataBlock::iter().collect()` on the raw block bytes -/
def decodeBlock (bytes : Bytes) : Option (List (Entry Bytes)) :=
  if bytes.length < trailerSize then none
  else
    match (bytes.drop (bytes.length - trailerSize)).head? with
    | none => none
    | some b => decodeItems (bytes.length + 1) b.toNat 0 [] bytes

/-- the size an item adds to the encoded block (not what the writer's spill rule measures, see Blocks W2) -/
def encodedSizeFull (e : Entry Bytes) : Nat := (encodeFull e).length

end Lsm.Codec
