/-
  LsmModel.Basic — entries, internal-key order, sources, point lookup in a source, bounds.

  Anchors in /repo: src/key.rs (InternalKey: Ord), src/value_type.rs, src/value.rs, src/memtable/mod.rs.
  Model files import nothing (the driver must link as a plain lean_exe).

  Keys are an arbitrary type `K` carrying a decidable linear order; the driver instantiates
  `K := List UInt8` whose `<` is the lexicographic order (= `Ord for Slice`).
-/
namespace Lsm

/-- Value bytes. -/
abbrev Val := List UInt8

/-- `ValueType` (u8 tags 0, 1, 2, 4). -/
inductive VT where
  | value | tomb | weak | indir
deriving DecidableEq, Repr, Inhabited

def VT.toByte : VT → UInt8
  | .value => 0 | .tomb => 1 | .weak => 2 | .indir => 4

/-- `TryFrom<u8> for ValueType` -/
def VT.ofByte? (b : UInt8) : Option VT :=
  if b = 0 then some .value else if b = 1 then some .tomb else if b = 2 then some .weak
  else if b = 4 then some .indir else none

/-- `InternalValue` -/
structure Entry (K : Type) where
  key : K
  seqno : Nat
  vt : VT
  val : Val
deriving DecidableEq, Repr, Inhabited

variable {K : Type}

/-- `InternalValue::is_tombstone` (strong or weak). -/
def Entry.isTomb (e : Entry K) : Bool := e.vt == .tomb || e.vt == .weak

section Order
variable [LT K] [DecidableLT K] [DecidableEq K]

/-- `impl Ord for InternalKey`: user key ascending, then seqno DEscending; the value type is not compared. -/
def ikLt (a b : Entry K) : Bool :=
  decide (a.key < b.key) || (decide (a.key = b.key) && decide (b.seqno < a.seqno))

/-- same `(user key, seqno)` — what the skip list treats as equal -/
def ikEq (a b : Entry K) : Bool := decide (a.key = b.key) && decide (a.seqno = b.seqno)

/-- A *source*: strictly ascending w.r.t. `ikLt` (hence no two entries equal on `(key, seqno)`). -/
def IsSource (l : List (Entry K)) : Prop := l.Pairwise (fun a b => ikLt a b = true)

/-- executable version of `IsSource` for the driver (adjacent check; equivalent by transitivity) -/
def isSourceB : List (Entry K) → Bool
  | [] => true
  | [_] => true
  | a :: b :: t => ikLt a b && isSourceB (b :: t)

/-- `seqno_filter`: visibility of an entry at snapshot `S`. -/
def visible (S : Nat) (e : Entry K) : Bool := decide (e.seqno < S)

/-- The newest entry of `k` visible at `S` in one source (first match in internal-key order). -/
def newest (l : List (Entry K)) (k : K) (S : Nat) : Option (Entry K) :=
  l.find? (fun e => decide (e.key = k) && visible S e)

/-- `ignore_tombstone_value` + `.map(|x| x.value)` for non-indirect values. -/
def live (o : Option (Entry K)) : Option (Entry K) :=
  match o with
  | some e => if e.isTomb then none else some e
  | none => none

/-- `Memtable::insert`: crossbeam `SkipMap::insert` replaces an entry with an equal key `(user key, seqno)`. -/
def memInsert (e : Entry K) : List (Entry K) → List (Entry K)
  | [] => [e]
  | x :: xs =>
    if ikLt e x then e :: x :: xs
    else if ikEq e x then e :: xs
    else x :: memInsert e xs

/-- `Memtable::get`: `S = 0 ⇒ none`; lower bound `(k, S-1)`, first item, must have the same user key. -/
def memGet (l : List (Entry K)) (k : K) (S : Nat) : Option (Entry K) :=
  if S = 0 then none
  else
    -- range(InternalKey(k, S-1) ..).next(): first entry not less than (k, S-1) in ikLt order
    match l.find? (fun e => !(decide (e.key < k) || (decide (e.key = k) && decide (S - 1 < e.seqno)))) with
    | some e => if e.key = k then some e else none
    | none => none

/-- `get_highest_seqno` of a memtable (fetch_max over inserts; `none` when empty). -/
def maxSeqno (l : List (Entry K)) : Option Nat :=
  l.foldl (fun acc e => match acc with | none => some e.seqno | some m => some (max m e.seqno)) none

end Order

/-- `std::ops::Bound` -/
inductive Bound (K : Type) where
  | incl (k : K) | excl (k : K) | unb
deriving DecidableEq, Repr

section Bounds
variable [LT K] [DecidableLT K] [DecidableEq K]

def Bound.okLo (b : Bound K) (k : K) : Bool :=
  match b with
  | .incl x => !decide (k < x)
  | .excl x => decide (x < k)
  | .unb => true

def Bound.okHi (b : Bound K) (k : K) : Bool :=
  match b with
  | .incl x => !decide (x < k)
  | .excl x => decide (k < x)
  | .unb => true

/-- key inside `(lo, hi)` -/
def inBounds (lo hi : Bound K) (k : K) : Bool := lo.okLo k && hi.okHi k

end Bounds

/-- iteration direction: `next` / `next_back` -/
inductive Dir where
  | F | B
deriving DecidableEq, Repr

/-- consume a list from both ends according to a word; `none` once exhausted -/
def bothEnds {α : Type} : List α → List Dir → List (Option α)
  | _, [] => []
  | l, .F :: w => match l with
    | [] => none :: bothEnds [] w
    | h :: t => some h :: bothEnds t w
  | l, .B :: w => match l.reverse with
    | [] => none :: bothEnds [] w
    | h :: t => some h :: bothEnds t.reverse w

end Lsm
