import LsmModel.Lemmas.BlobLemmas
/-!
# C09 — blob garbage statistics (the fragmentation map) are exact; only unreferenced blob files are dead

Model: `LsmModel/Tree/Blob.lean` (namespace `Lsm.Blob`), a transcription of `FragmentationMap`
(`src/blob_tree/gc.rs`: `merge_into`, `prune`, `stale_bytes`, `on_dropped`), of the statistics part of
`Version::{with_dropped, with_merge, with_new_l0_run}` (`src/version/mod.rs`), of `BlobFile::{is_dead, is_stale}`,
`BlobFileList::prune_dead`, `MultiWriter::register_blob` and of the pointer rewrite of a relocating compaction.

Vocabulary
* `Frag = (len, bytes, onDisk)`: number of stale blobs, stale uncompressed bytes, stale on-disk bytes; `+` componentwise.
* `FragMap`: blob file id ↦ `Frag` (association list; `lookup` = entry, absent = zero; all statements are about `lookup`,
  i.e. extensional — plus `keys … .Nodup`, the hash-map invariant, which every operation preserves).
* `Ptr = (file, off, size, onDisk)`: a blob indirection stored in a table — also used for "a blob of a file".
* `blobs : Nat → List Ptr`: content of every blob file (all blobs ever written to it).
* `R : List Ptr`: the pointers stored in the tables of the current version (the reference multiset).
* SPECIFICATION `garbageOf (blobs f) R`: the blobs of file `f` that no pointer of `R` points to, summed.
* `Exact blobs m R := ∀ f, lookup m f = garbageOf (blobs f) R`.

Standing hypotheses (each is used; none can be dropped, see the counterexamples at the end)
* `StoreWF blobs`: the blobs of a file are pairwise different (they have distinct offsets) and carry their file's id;
* `RefsWF blobs R`: every pointer of `R` points to an existing blob of its file (no dangling pointer — that is C08);
* the dropped pointers `D` are duplicate free and `D ⊆ R` (a compaction drops items it read from its input tables, each
  once). For the form "`R.filter (· ∉ D)`" nothing has to be assumed about duplicates in `R`; for the form that matches
  the compaction stream ("dropped ++ survivors is a permutation of the input": `(D ++ R').Perm R`) one needs `R.Nodup`
  — every blob is referenced at most once in a version — and then `D.Nodup`, `D ⊆ R` follow.

Results
* `c09_on_dropped_exact`(`_perm`): `merge_into` of the drop callback's diff keeps exactness (all three components).
* `c09_with_dropped_exact`: the repaired `with_dropped` (per-table linked-file summaries built by `register_blob`) keeps
  exactness, INCLUDING on-disk bytes; `c09_with_dropped_legacy_partial`: the ORIGINAL code (finding F2:
  `on_disk_bytes` not accumulated in the `and_modify` arm) is exact for `len` and `bytes` only and under-counts
  `on_disk_bytes`; the `decide` counterexample is the F2 replay (two dropped tables linking the same blob file).
* `c09_prune_keeps_present`, `c09_prune_exact`: `prune` removes exactly the entries of files not in the list.
* `c09_stale_bytes_sum`, `c09_stale_bytes_exact`: `stale_bytes()` = Σ recorded on-disk bytes = Σ garbage on-disk bytes.
* `c09_dead_unreferenced`: `is_dead` compares BYTES (`x.bytes == total_uncompressed_bytes`), so "dead ⇒ unreferenced"
  needs every blob of the file to have positive size — stated explicitly; with a zero-size blob it is FALSE
  (counterexample below). `c09_unreferenced_dead_partial`: exact ∧ unreferenced ⇒ dead needs the file to be non-empty:
  `is_dead` is `get(id).is_some_and(…)`, an absent entry is never dead, and an empty unreferenced file has no entry
  (counterexample below). `c09_dead_iff_unreferenced` combines both. `c09_prune_dead_safe`: `prune_dead` only
  extracts unreferenced files.
* `c09_relocation_exact`, `c09_with_merge_exact`, `c09_new_blob_file_exact`: rewriting a blob file / a merge commit
  (merge diff, then prune against the new list) / adding fresh fully-referenced blob files keep exactness.
-/
namespace Lsm
open Blob

/-! ### the drop callback + `merge_into` -/

/-- **C09, `on_dropped` + `merge_into`.** `base` exact for `R`; a compaction drops the duplicate-free pointer list
    `D ⊆ R`, the callback sums them up into a fresh map, the diff is merged into `base`: the result is exact for the
    remaining references. -/
theorem c09_on_dropped_exact (blobs : Nat → List Ptr) (base : FragMap) (R D : List Ptr)
    (hs : StoreWF blobs) (hR : RefsWF blobs R) (hex : Exact blobs base R)
    (hD : D.Nodup) (hDR : ∀ p ∈ D, p ∈ R) :
    Exact blobs (mergeInto (D.foldl onDropped []) base) (R.filter (fun p => decide (p ∉ D))) :=
  c09_exact_drop hs hR hex hD hDR (c09_lookup_merge_dropped D base)

/-- The same in the shape delivered by the compaction stream: the dropped items `D` and the surviving references `R'`
    together are a permutation of the old references `R`, each blob being referenced at most once (`R.Nodup`). -/
theorem c09_on_dropped_exact_perm (blobs : Nat → List Ptr) (base : FragMap) (R D R' : List Ptr)
    (hs : StoreWF blobs) (hR : RefsWF blobs R) (hex : Exact blobs base R)
    (hnd : R.Nodup) (hperm : (D ++ R').Perm R) :
    Exact blobs (mergeInto (D.foldl onDropped []) base) R' := by
  have hnd' : (D ++ R').Nodup := hperm.nodup_iff.2 hnd
  rw [List.nodup_append] at hnd'
  have hmem : ∀ b, b ∈ R ↔ b ∈ D ∨ b ∈ R' := fun b => by rw [← hperm.mem_iff, List.mem_append]
  refine c09_exact_congr
    (c09_on_dropped_exact blobs base R D hs hR hex hnd'.1 (fun p hp => (hmem p).2 (Or.inl hp))) ?_
  intro b
  simp only [List.mem_filter, decide_eq_true_eq, hmem]
  constructor
  · rintro ⟨h | h, hn⟩
    · exact absurd h hn
    · exact h
  · intro h
    exact ⟨Or.inr h, fun hd => hnd'.2.2 b hd b h rfl⟩

/-- `merge_into` adds maps pointwise (`diff` a hash map: distinct keys) and keeps the hash-map invariant. -/
theorem c09_merge_into_pointwise (diff other : FragMap) (hd : (keys diff).Nodup) (ho : (keys other).Nodup) :
    (∀ f, lookup (mergeInto diff other) f = lookup other f + lookup diff f) ∧
    (keys (mergeInto diff other)).Nodup :=
  ⟨c09_lookup_mergeInto_nodup diff other hd, c09_keys_mergeInto_nodup diff ho⟩

/-! ### `with_dropped` -/

/-- `register_blob`: the linked-file summary of a table records, per blob file, the sum over the table's pointers
    into that file (all three components), with distinct keys. -/
theorem c09_links_summary (ptrs : List Ptr) :
    (∀ f, lookup (linksOf ptrs) f = fragSum (ptrs.filter (fun p => decide (p.file = f)))) ∧
    (keys (linksOf ptrs)).Nodup :=
  ⟨c09_lookup_linksOf ptrs, c09_keys_linksOf_nodup ptrs⟩

/-- **C09, `with_dropped` (repaired code).** Dropping the tables whose pointer lists are `Ds` (each duplicate free,
    pairwise disjoint, each `⊆ R`) and accumulating every table's linked-blob-file summary is exact for `R` minus
    their union — for `len`, `bytes` AND `onDisk`. -/
theorem c09_with_dropped_exact (blobs : Nat → List Ptr) (base : FragMap) (R : List Ptr) (Ds : List (List Ptr))
    (hs : StoreWF blobs) (hR : RefsWF blobs R) (hex : Exact blobs base R)
    (hnd : ∀ D ∈ Ds, D.Nodup) (hdisj : Ds.Pairwise (fun D₁ D₂ => ∀ p ∈ D₁, p ∉ D₂))
    (hsub : ∀ D ∈ Ds, ∀ p ∈ D, p ∈ R) :
    Exact blobs (withDroppedStats base Ds) (R.filter (fun p => decide (p ∉ Ds.flatten))) :=
  c09_exact_drop hs hR hex (c09_flatten_nodup hnd hdisj)
    (fun p hp => by obtain ⟨D, hD, hpD⟩ := List.mem_flatten.1 hp; exact hsub D hD p hpD)
    (c09_lookup_withDroppedStats base Ds)

/-- the loop body of the repaired `with_dropped` is `merge_into` of the summary -/
theorem c09_with_dropped_is_merge (m : FragMap) (links : List (Nat × Frag)) :
    accumulateDropped m links = mergeInto links m :=
  c09_accumulateDropped_eq_mergeInto m links

/-- **The original `with_dropped` (F2), what does hold:** `len` and `bytes` are exact, `onDisk` is only a lower
    bound of the on-disk garbage. (That `onDisk` is NOT exact: `C09Example.legacy_undercounts` below.) -/
theorem c09_with_dropped_legacy_partial (blobs : Nat → List Ptr) (base : FragMap) (R : List Ptr)
    (Ds : List (List Ptr)) (hs : StoreWF blobs) (hR : RefsWF blobs R) (hex : Exact blobs base R)
    (hnd : ∀ D ∈ Ds, D.Nodup) (hdisj : Ds.Pairwise (fun D₁ D₂ => ∀ p ∈ D₁, p ∉ D₂))
    (hsub : ∀ D ∈ Ds, ∀ p ∈ D, p ∈ R) (f : Nat) :
    let g := garbageOf (blobs f) (R.filter (fun p => decide (p ∉ Ds.flatten)))
    (lookup (withDroppedStatsLegacy base Ds) f).len = g.len ∧
    (lookup (withDroppedStatsLegacy base Ds) f).bytes = g.bytes ∧
    (lookup (withDroppedStatsLegacy base Ds) f).onDisk ≤ g.onDisk := by
  have h := c09_legacyRel_withDropped (c09_legacyRel_refl base) Ds f
  rw [c09_with_dropped_exact blobs base R Ds hs hR hex hnd hdisj hsub f] at h
  exact h

/-! ### `prune` -/

/-- **C09, `prune`.** An entry survives iff its file is in the blob file list, with its value unchanged; nothing
    else happens to the map (it is the filtered list), and the hash-map invariant is kept. -/
theorem c09_prune_keeps_present (m : FragMap) (files : List Nat) :
    (∀ f, find? (prune m files) f = if f ∈ files then find? m f else none) ∧
    keys (prune m files) = (keys m).filter (fun g => decide (g ∈ files)) ∧
    ((keys m).Nodup → (keys (prune m files)).Nodup) :=
  ⟨c09_find_prune m files, c09_keys_prune m files, fun h => c09_keys_prune_nodup h files⟩

/-- `prune` keeps exactness, the content of the pruned files being forgotten with their entries. -/
theorem c09_prune_exact (blobs : Nat → List Ptr) (m : FragMap) (R : List Ptr) (files : List Nat)
    (hex : Exact blobs m R) :
    Exact (fun f => if f ∈ files then blobs f else []) (prune m files) R :=
  c09_prune_exact' hex files

/-! ### `stale_bytes` -/

/-- **C09, `stale_bytes()`** is the sum of the recorded on-disk bytes over the entries. -/
theorem c09_stale_bytes_sum (m : FragMap) : staleBytes m = (m.map (fun e => e.2.onDisk)).sum :=
  c09_staleBytes_eq_sum m

/-- With exact statistics (a hash map: distinct keys; `files` any duplicate-free list of blob file ids that covers
    the keys) `stale_bytes()` is the total on-disk garbage. -/
theorem c09_stale_bytes_exact (blobs : Nat → List Ptr) (m : FragMap) (R : List Ptr) (files : List Nat)
    (hex : Exact blobs m R) (hk : (keys m).Nodup) (hn : files.Nodup) (hsub : ∀ g ∈ keys m, g ∈ files) :
    staleBytes m = (files.map (fun f => (garbageOf (blobs f) R).onDisk)).sum := by
  rw [c09_staleBytes_files hk hn hsub]
  congr 1
  apply List.map_congr_left
  intro f _
  rw [hex f]

/-! ### `is_dead` -/

/-- **C09, dead ⇒ unreferenced.** `is_dead` compares the recorded stale BYTES with the file's
    `total_uncompressed_bytes`. With exact statistics, if every blob of the file has positive size then no reference
    points into a dead file. -/
theorem c09_dead_unreferenced (blobs : Nat → List Ptr) (m : FragMap) (R : List Ptr) (f : Nat)
    (hR : RefsWF blobs R) (hex : Exact blobs m R) (hpos : ∀ b ∈ blobs f, 0 < b.size)
    (hdead : isDead m f (totalOf (blobs f)).bytes = true) :
    ∀ p ∈ R, p.file ≠ f := by
  intro p hp hpf
  have hb := (c09_isDead_iff.1 hdead).2
  rw [hex f] at hb
  have hsum := congrArg Frag.bytes (c09_garbage_add_referenced (blobs f) R)
  simp only [c09_add_bytes] at hsum
  have hnil := c09_fragSum_bytes_zero (l := (blobs f).filter (fun b => decide (b ∈ R))) (by omega)
    (fun b hb => hpos b (List.mem_filter.1 hb).1)
  have : p ∈ (blobs f).filter (fun b => decide (b ∈ R)) := by
    rw [List.mem_filter]; exact ⟨hpf ▸ hR p hp, by simpa using hp⟩
  rw [hnil] at this
  simp at this

/-- **C09, unreferenced ⇒ dead** (minimal extra hypothesis: the file is not empty — `is_dead` is
    `is_some_and`, and exact statistics have no entry for an empty file; see `C09Example.empty_file_not_dead`). -/
theorem c09_unreferenced_dead_partial (blobs : Nat → List Ptr) (m : FragMap) (R : List Ptr) (f : Nat)
    (hs : StoreWF blobs) (hex : Exact blobs m R) (hne : blobs f ≠ [])
    (hunref : ∀ p ∈ R, p.file ≠ f) :
    isDead m f (totalOf (blobs f)).bytes = true := by
  have hg : garbageOf (blobs f) R = totalOf (blobs f) :=
    c09_garbage_unreferenced (fun b hb hbR => hunref b hbR (hs.file f b hb))
  rw [c09_isDead_iff, hex f, hg]
  refine ⟨?_, rfl⟩
  apply Classical.byContradiction
  intro hk
  have h0 := c09_lookup_of_not_mem hk
  rw [hex f, hg] at h0
  cases hb : blobs f with
  | nil => exact hne hb
  | cons b bs =>
    rw [hb] at h0
    have := congrArg Frag.len h0
    simp [totalOf] at this

/-- the same with "the entry exists" instead of "the file is not empty" -/
theorem c09_unreferenced_dead_of_entry (blobs : Nat → List Ptr) (m : FragMap) (R : List Ptr) (f : Nat)
    (hs : StoreWF blobs) (hex : Exact blobs m R) (hk : f ∈ keys m) (hunref : ∀ p ∈ R, p.file ≠ f) :
    isDead m f (totalOf (blobs f)).bytes = true := by
  rw [c09_isDead_iff, hex f,
    c09_garbage_unreferenced (fun b hb hbR => hunref b hbR (hs.file f b hb))]
  exact ⟨hk, rfl⟩

/-- **C09, dead ⇔ unreferenced**, for a non-empty file all of whose blobs have positive size. -/
theorem c09_dead_iff_unreferenced (blobs : Nat → List Ptr) (m : FragMap) (R : List Ptr) (f : Nat)
    (hs : StoreWF blobs) (hR : RefsWF blobs R) (hex : Exact blobs m R)
    (hne : blobs f ≠ []) (hpos : ∀ b ∈ blobs f, 0 < b.size) :
    isDead m f (totalOf (blobs f)).bytes = true ↔ ∀ p ∈ R, p.file ≠ f :=
  ⟨c09_dead_unreferenced blobs m R f hR hex hpos, c09_unreferenced_dead_partial blobs m R f hs hex hne⟩

/-- `prune_dead` only extracts unreferenced blob files (safety of dropping them from the version): `files` lists
    the version's blob files with their `total_uncompressed_bytes`. -/
theorem c09_prune_dead_safe (blobs : Nat → List Ptr) (m : FragMap) (R : List Ptr) (files : List (Nat × Nat))
    (hR : RefsWF blobs R) (hex : Exact blobs m R)
    (htot : ∀ t ∈ files, t.2 = (totalOf (blobs t.1)).bytes)
    (hpos : ∀ t ∈ files, ∀ b ∈ blobs t.1, 0 < b.size) :
    ∀ t ∈ deadFiles m files, ∀ p ∈ R, p.file ≠ t.1 := by
  intro t ht
  obtain ⟨hmem, hd⟩ := List.mem_filter.1 ht
  rw [htot t hmem] at hd
  exact c09_dead_unreferenced blobs m R t.1 hR hex (hpos t hmem) hd

/-- a dead file is stale for every threshold `num / den ≤ 1` (if it has any bytes) -/
theorem c09_dead_is_stale (m : FragMap) (f t num den : Nat) (ht : 0 < t) (hth : num ≤ den)
    (hdead : isDead m f t = true) : isStale m f t num den = true := by
  unfold isDead at hdead
  unfold isStale
  cases h : find? m f with
  | none => simp [h] at hdead
  | some x =>
    have hx : x.bytes = t := by simpa [h] using hdead
    have hn : ¬ (t = 0 ∧ x.bytes = 0) := by omega
    show (if t = 0 ∧ x.bytes = 0 then false else decide (num * t ≤ x.bytes * den)) = true
    rw [if_neg hn, decide_eq_true_eq, hx, Nat.mul_comm t den]
    exact Nat.mul_le_mul_right t hth

/-! ### relocation, merge commit, new blob files -/

/-- **C09, relocation.** The blob file `old` is rewritten: every referenced blob of it is re-issued (same `size`,
    same `on_disk_size`) into the fresh file `nw`, the pointers are redirected, `old` leaves the blob file list
    (`old ∉ files'`) and the map is pruned against the new list `files'`. The statistics stay exact; the new file
    has no garbage and `old`'s entry is gone. -/
theorem c09_relocation_exact (blobs : Nat → List Ptr) (m : FragMap) (R : List Ptr) (old nw : Nat)
    (off : Ptr → Nat) (files' : List Nat)
    (hs : StoreWF blobs) (hex : Exact blobs m R) (hne : nw ≠ old) (hfresh : blobs nw = [])
    (hold : old ∉ files') :
    Exact (fun g => if g = nw then relocBlobs old nw off R else if g ∈ files' then blobs g else [])
      (prune m files') (relocRefs old nw off R) ∧
    lookup (prune m files') nw = Frag.zero ∧ lookup (prune m files') old = Frag.zero := by
  have hnw : lookup (prune m files') nw = Frag.zero := by
    rw [c09_lookup_prune]; split
    · rw [hex nw, hfresh]; rfl
    · rfl
  refine ⟨?_, hnw, by rw [c09_lookup_prune]; simp [hold]⟩
  intro g
  show _ = garbageOf (if g = nw then relocBlobs old nw off R else if g ∈ files' then blobs g else []) _
  by_cases hg : g = nw
  · subst hg
    rw [hnw, if_pos rfl, c09_garbage_all_referenced]
    intro b hb
    obtain ⟨p, hp, hpo, rfl⟩ := c09_mem_relocBlobs.1 hb
    exact c09_mem_relocRefs.2 ⟨p, hp, by simp [hpo]⟩
  · rw [if_neg hg, c09_lookup_prune]
    by_cases hgf : g ∈ files'
    · have hgo : g ≠ old := fun e => hold (e ▸ hgf)
      rw [if_pos hgf, if_pos hgf, hex g]
      apply c09_garbage_congr
      intro b hb
      have hbf := hs.file g b hb
      rw [c09_mem_relocRefs]
      constructor
      · intro hbR
        exact ⟨b, hbR, by simp [hbf, hgo]⟩
      · rintro ⟨p, hp, hbp⟩
        by_cases hpo : p.file = old
        · rw [if_pos hpo] at hbp
          have hbn : b.file = nw := by rw [hbp]; rfl
          exact absurd (hbf.symm.trans hbn) hg
        · rw [if_neg hpo] at hbp; exact hbp ▸ hp
    · rw [if_neg hgf, if_neg hgf]; rfl

/-- after a relocation the redirected references are still well formed (so the theorems apply again) -/
theorem c09_relocation_refs_wf (blobs : Nat → List Ptr) (R : List Ptr) (old nw : Nat) (off : Ptr → Nat)
    (files' : List Nat) (hR : RefsWF blobs R) (hfresh : blobs nw = [])
    (hfiles : ∀ p ∈ R, p.file ≠ old → p.file ∈ files') :
    RefsWF (fun g => if g = nw then relocBlobs old nw off R else if g ∈ files' then blobs g else [])
      (relocRefs old nw off R) := by
  intro q hq
  obtain ⟨p, hp, rfl⟩ := c09_mem_relocRefs.1 hq
  show _ ∈ (if _ = nw then _ else _)
  by_cases hpo : p.file = old
  · simp only [if_pos hpo, reloc, if_true]
    exact c09_mem_relocBlobs.2 ⟨p, hp, hpo, rfl⟩
  · simp only [if_neg hpo]
    have hpb := hR p hp
    have hpn : p.file ≠ nw := fun e => by rw [e, hfresh] at hpb; simp at hpb
    rw [if_neg hpn, if_pos (hfiles p hp hpo)]
    exact hpb

/-- **C09, merge commit** (`with_merge` / `with_new_l0_run` with a diff): merge the drop callback's diff, THEN prune
    against the new blob file list — exact for the remaining references, the pruned files' content being forgotten. -/
theorem c09_with_merge_exact (blobs : Nat → List Ptr) (base : FragMap) (R D : List Ptr) (files' : List Nat)
    (hs : StoreWF blobs) (hR : RefsWF blobs R) (hex : Exact blobs base R)
    (hD : D.Nodup) (hDR : ∀ p ∈ D, p ∈ R) :
    Exact (fun f => if f ∈ files' then blobs f else [])
      (withMergeStats base (some (D.foldl onDropped [])) files') (R.filter (fun p => decide (p ∉ D))) :=
  c09_prune_exact' (c09_on_dropped_exact blobs base R D hs hR hex hD hDR) files'

/-- **C09, new blob files** (flush / ingestion / the blob files written by a compaction): adding references `N` that
    all point to blobs of previously empty files whose whole content is `N`'s targets leaves the map exact — the new
    files have no garbage, nothing is recorded for them. -/
theorem c09_new_blob_file_exact (blobs blobs' : Nat → List Ptr) (m : FragMap) (R N : List Ptr)
    (hs' : StoreWF blobs') (hex : Exact blobs m R)
    (hfreshN : ∀ p ∈ N, blobs p.file = [])
    (hsame : ∀ f, (∀ p ∈ N, p.file ≠ f) → blobs' f = blobs f)
    (hall : ∀ p ∈ N, ∀ b ∈ blobs' p.file, b ∈ N) :
    Exact blobs' m (R ++ N) := by
  intro f
  by_cases hf : ∀ p ∈ N, p.file ≠ f
  · rw [hsame f hf, hex f]
    apply c09_garbage_congr
    intro b hb
    have hb' : b ∈ blobs' f := by rw [hsame f hf]; exact hb
    have : b ∉ N := fun hbN => hf b hbN (hs'.file f b hb')
    simp [this]
  · have ⟨p, hp, hpf⟩ : ∃ p ∈ N, p.file = f := by
      apply Classical.byContradiction; intro h; exact hf (fun p hp e => h ⟨p, hp, e⟩)
    subst hpf
    rw [hex p.file, hfreshN p hp, c09_garbageOf_nil]
    symm
    apply c09_garbage_all_referenced
    intro b hb
    exact List.mem_append_right _ (hall p hp b hb)

/-- all statistics operations keep the hash-map invariant (distinct keys) -/
theorem c09_keys_nodup_preserved (m : FragMap) (hk : (keys m).Nodup) :
    (∀ D : List Ptr, (keys (mergeInto (D.foldl onDropped []) m)).Nodup) ∧
    (∀ Ds : List (List Ptr), (keys (withDroppedStats m Ds)).Nodup) ∧
    (∀ files : List Nat, (keys (prune m files)).Nodup) :=
  ⟨fun _ => c09_keys_mergeInto_nodup _ hk, fun Ds => c09_keys_withDroppedStats_nodup Ds hk,
   fun files => c09_keys_prune_nodup hk files⟩

/-! ### non-vacuity and counterexamples (concrete maps) -/
namespace C09Example

/-- blob file 0: three blobs of 4 bytes (3 on disk); blob file 1: one blob of 10 bytes (7 on disk) -/
def a : Ptr := ⟨0, 0, 4, 3⟩
def b : Ptr := ⟨0, 3, 4, 3⟩
def c : Ptr := ⟨0, 6, 4, 3⟩
def d : Ptr := ⟨1, 0, 10, 7⟩
def store : Store := [(0, [a, b, c]), (1, [d])]

theorem store_wf : StoreWF (blobsOf store) := c09_storeWF_of_storeWFB (by decide)

/-- the map `[(0, ⟨1,4,3⟩)]` is exact when `a` is the only unreferenced blob -/
theorem base_exact : Exact (blobsOf store) [(0, ⟨1, 4, 3⟩)] [b, c, d] := c09_exact_of_exactB (by decide)

/-- `c09_on_dropped_exact`: a compaction drops `b` and `d` -/
example : Exact (blobsOf store) (mergeInto ([b, d].foldl onDropped []) [(0, ⟨1, 4, 3⟩)])
    ([b, c, d].filter (fun p => decide (p ∉ [b, d]))) :=
  c09_on_dropped_exact _ _ _ _ store_wf (c09_refsWF_of_all (by decide)) base_exact (by decide) (by decide)

example : mergeInto ([b, d].foldl onDropped []) [(0, ⟨1, 4, 3⟩)] = [(0, ⟨2, 8, 6⟩), (1, ⟨1, 10, 7⟩)] ∧
    [b, c, d].filter (fun p => decide (p ∉ [b, d])) = [c] := by decide

/-- `c09_on_dropped_exact_perm` on the same data -/
example : Exact (blobsOf store) (mergeInto ([b, d].foldl onDropped []) [(0, ⟨1, 4, 3⟩)]) [c] :=
  c09_on_dropped_exact_perm _ _ [b, c, d] [b, d] [c] store_wf (c09_refsWF_of_all (by decide)) base_exact
    (by decide) (by decide)

/-- `R.Nodup` cannot be dropped from the `_perm` form: a blob referenced twice, one reference dropped — the
    statistics count it as garbage although it is still referenced (every other hypothesis holds) -/
example : ([a] ++ [a]).Perm [a, a] ∧ exactB [(0, [a])] [] [a, a] = true ∧
    exactB [(0, [a])] (mergeInto ([a].foldl onDropped []) []) [a] = false := by decide

/-- `D.Nodup` cannot be dropped: the same pointer reported twice is counted twice -/
example : exactB [(0, [a])] [] [a] = true ∧
    mergeInto ([a, a].foldl onDropped []) [] = [(0, ⟨2, 8, 6⟩)] ∧
    garbageOf [a] ([a].filter (fun p => decide (p ∉ [a, a]))) = ⟨1, 4, 3⟩ := by decide

/-- `D ⊆ R` cannot be dropped: dropping a pointer that was not referenced counts its blob twice -/
example : exactB [(0, [a])] [(0, ⟨1, 4, 3⟩)] [] = true ∧
    exactB [(0, [a])] (mergeInto ([a].foldl onDropped []) [(0, ⟨1, 4, 3⟩)]) [] = false := by decide

/-- `RefsWF` cannot be dropped: a dangling pointer `x` (no blob at that offset) is dropped — it is counted as garbage
    of file 0 although the file has no such blob -/
example : let x : Ptr := ⟨0, 99, 1, 1⟩
    exactB [(0, [a])] [] [a, x] = true ∧
    exactB [(0, [a])] (mergeInto ([x].foldl onDropped []) []) ([a, x].filter (fun p => decide (p ∉ [x]))) = false := by
  decide

/-- `StoreWF` (distinct blobs) cannot be dropped: if the file listed the same blob twice, dropping its one reference
    would create two garbage blobs but record one -/
example : exactB [(0, [a, a])] [] [a] = true ∧
    exactB [(0, [a, a])] (mergeInto ([a].foldl onDropped []) []) ([a].filter (fun p => decide (p ∉ [a]))) = false := by
  decide

/-- `c09_with_dropped_exact`: two dropped tables `[a]` and `[b, d]`, nothing was garbage before -/
example : Exact (blobsOf store) (withDroppedStats [] [[a], [b, d]])
    ([a, b, c, d].filter (fun p => decide (p ∉ [[a], [b, d]].flatten))) :=
  c09_with_dropped_exact _ _ _ _ store_wf (c09_refsWF_of_all (by decide)) (c09_exact_of_exactB (by decide))
    (by decide) (by decide) (by decide)

example : withDroppedStats [] [[a], [b, d]] = [(0, ⟨2, 8, 6⟩), (1, ⟨1, 10, 7⟩)] ∧
    linksOf [b, d] = [(0, ⟨1, 4, 3⟩), (1, ⟨1, 10, 7⟩)] := by decide

/-- **F2, the original `with_dropped`**: the replay of the finding — three tables referencing blob file 0 (4 bytes /
    4 on disk each), `drop_range` of the first, then of the second. The original arm yields
    `{len 2, bytes 8, on_disk_bytes 4}` (`stale_blob_bytes() = 4`), the on-disk garbage is 8; the repaired code is
    exact. -/
theorem legacy_undercounts :
    let pa : Ptr := ⟨0, 0, 4, 4⟩; let pb : Ptr := ⟨0, 4, 4, 4⟩; let pc : Ptr := ⟨0, 8, 4, 4⟩
    withDroppedStatsLegacy (withDroppedStatsLegacy [] [[pa]]) [[pb]] = [(0, ⟨2, 8, 4⟩)] ∧
    withDroppedStatsLegacy [] [[pa], [pb]] = [(0, ⟨2, 8, 4⟩)] ∧
    staleBytes (withDroppedStatsLegacy [] [[pa], [pb]]) = 4 ∧
    garbageOf [pa, pb, pc] [pc] = ⟨2, 8, 8⟩ ∧
    exactB [(0, [pa, pb, pc])] (withDroppedStatsLegacy [] [[pa], [pb]]) [pc] = false ∧
    withDroppedStats [] [[pa], [pb]] = [(0, ⟨2, 8, 8⟩)] ∧
    exactB [(0, [pa, pb, pc])] (withDroppedStats [] [[pa], [pb]]) [pc] = true := by decide

/-- one step of the same: `accumulateDroppedLegacy` forgets `onDisk` when the entry already exists -/
example : accumulateDroppedLegacy [(0, ⟨1, 4, 4⟩)] (linksOf [⟨0, 4, 4, 4⟩]) = [(0, ⟨2, 8, 4⟩)] ∧
    accumulateDropped [(0, ⟨1, 4, 4⟩)] (linksOf [⟨0, 4, 4, 4⟩]) = [(0, ⟨2, 8, 8⟩)] := by decide

/-- `c09_with_dropped_legacy_partial` on the first data set: `len`, `bytes` right, `onDisk` 3 instead of 6 -/
example : lookup (withDroppedStatsLegacy [] [[a], [b, d]]) 0 = ⟨2, 8, 3⟩ ∧
    garbageOf (blobsOf store 0) ([a, b, c, d].filter (fun p => decide (p ∉ [[a], [b, d]].flatten))) = ⟨2, 8, 6⟩ := by
  decide

/-- `c09_prune_keeps_present` / `c09_prune_exact`: file 1 has left the blob file list -/
example : prune [(0, ⟨2, 8, 6⟩), (1, ⟨1, 10, 7⟩)] [0, 5] = [(0, ⟨2, 8, 6⟩)] ∧
    find? (prune [(0, ⟨2, 8, 6⟩), (1, ⟨1, 10, 7⟩)] [0, 5]) 0 = some ⟨2, 8, 6⟩ ∧
    find? (prune [(0, ⟨2, 8, 6⟩), (1, ⟨1, 10, 7⟩)] [0, 5]) 1 = none := by decide

example : Exact (fun f => if f ∈ [0, 5] then blobsOf store f else [])
    (prune [(0, ⟨2, 8, 6⟩), (1, ⟨1, 10, 7⟩)] [0, 5]) [c] :=
  c09_prune_exact _ _ _ _ (c09_exact_of_exactB (by decide))

/-- `c09_stale_bytes_sum` / `c09_stale_bytes_exact`: 6 + 7 on-disk garbage bytes -/
example : staleBytes [(0, ⟨2, 8, 6⟩), (1, ⟨1, 10, 7⟩)] = 13 ∧
    ([0, 1].map (fun f => (garbageOf (blobsOf store f) [c]).onDisk)).sum = 13 := by decide

example : staleBytes [(0, ⟨2, 8, 6⟩), (1, ⟨1, 10, 7⟩)]
    = ([0, 1].map (fun f => (garbageOf (blobsOf store f) [c]).onDisk)).sum :=
  c09_stale_bytes_exact (blobsOf store) _ [c] [0, 1] (c09_exact_of_exactB (by decide)) (by decide) (by decide)
    (by decide)

/-- `c09_dead_iff_unreferenced`: with references `[c]` file 1 is dead and unreferenced, file 0 is neither -/
example : isDead [(0, ⟨2, 8, 6⟩), (1, ⟨1, 10, 7⟩)] 1 (totalOf (blobsOf store 1)).bytes = true ∧
    isDead [(0, ⟨2, 8, 6⟩), (1, ⟨1, 10, 7⟩)] 0 (totalOf (blobsOf store 0)).bytes = false ∧
    deadFiles [(0, ⟨2, 8, 6⟩), (1, ⟨1, 10, 7⟩)] [(0, 12), (1, 10)] = [(1, 10)] ∧
    isStale [(0, ⟨2, 8, 6⟩), (1, ⟨1, 10, 7⟩)] 0 12 1 2 = true ∧
    isStale [(0, ⟨2, 8, 6⟩), (1, ⟨1, 10, 7⟩)] 0 12 3 4 = false := by decide

example : isDead [(0, ⟨2, 8, 6⟩), (1, ⟨1, 10, 7⟩)] 1 (totalOf (blobsOf store 1)).bytes = true ↔
    ∀ p ∈ [c], p.file ≠ 1 :=
  c09_dead_iff_unreferenced (blobsOf store) _ [c] 1 store_wf (c09_refsWF_of_all (by decide))
    (c09_exact_of_exactB (by decide)) (by decide) (by decide)

/-- `c09_prune_dead_safe` on the same data: the extracted file 1 is unreferenced -/
example : ∀ t ∈ deadFiles [(0, ⟨2, 8, 6⟩), (1, ⟨1, 10, 7⟩)] [(0, 12), (1, 10)], ∀ p ∈ [c], p.file ≠ t.1 :=
  c09_prune_dead_safe (blobsOf store) _ [c] _ (c09_refsWF_of_all (by decide)) (c09_exact_of_exactB (by decide))
    (by decide) (by decide)

/-- `c09_relocation_refs_wf` for the relocation below -/
example : RefsWF (fun g => if g = 2 then relocBlobs 0 2 (fun _ => 0) [c, d]
      else if g ∈ [1, 2] then blobsOf store g else []) (relocRefs 0 2 (fun _ => 0) [c, d]) :=
  c09_relocation_refs_wf (blobsOf store) [c, d] 0 2 (fun _ => 0) [1, 2] (c09_refsWF_of_all (by decide)) (by decide)
    (by decide)

/-- **the size hypothesis cannot be dropped**: `is_dead` compares bytes. File 0 holds a 5-byte blob (unreferenced)
    and a ZERO-size blob that is still referenced; the statistics are exact, `is_dead` answers `true` (stale bytes 5 =
    total bytes 5) although a reference points into the file. -/
theorem zero_size_blob_dead_but_referenced :
    let z : Ptr := ⟨0, 7, 0, 2⟩
    let s : Store := [(0, [⟨0, 0, 5, 7⟩, z])]
    storeWFB s = true ∧ exactB s [(0, ⟨1, 5, 7⟩)] [z] = true ∧ z ∈ blobsOf s z.file ∧
    isDead [(0, ⟨1, 5, 7⟩)] 0 (totalOf (blobsOf s 0)).bytes = true ∧ z ∈ [z] ∧ z.file = 0 := by decide

/-- **"unreferenced ⇒ dead" needs a non-empty file**: an empty blob file is unreferenced, the empty map is exact
    for it, and `is_dead` answers `false` because the entry is absent (`is_some_and`) -/
theorem empty_file_not_dead :
    let s : Store := [(0, [])]
    storeWFB s = true ∧ exactB s [] [] = true ∧ isDead [] 0 (totalOf (blobsOf s 0)).bytes = false := by decide

/-- `c09_relocation_exact`: file 0 (references `[c]`, garbage `a`, `b`) is rewritten into the fresh file 2 -/
example : Exact (fun g => if g = 2 then relocBlobs 0 2 (fun _ => 0) [c, d]
      else if g ∈ [1, 2] then blobsOf store g else [])
    (prune [(0, ⟨2, 8, 6⟩)] [1, 2]) (relocRefs 0 2 (fun _ => 0) [c, d]) :=
  (c09_relocation_exact (blobsOf store) _ [c, d] 0 2 (fun _ => 0) [1, 2] store_wf
    (c09_exact_of_exactB (by decide)) (by decide) (by decide) (by decide)).1

example : relocRefs 0 2 (fun _ => 0) [c, d] = [⟨2, 0, 4, 3⟩, d] ∧
    relocBlobs 0 2 (fun _ => 0) [c, d] = [⟨2, 0, 4, 3⟩] ∧ prune [(0, ⟨2, 8, 6⟩)] [1, 2] = [] := by decide

/-- `c09_with_merge_exact`: drop `b`, then file list `[0]` -/
example : withMergeStats [(0, ⟨1, 4, 3⟩)] (some ([b, d].foldl onDropped [])) [0] = [(0, ⟨2, 8, 6⟩)] := by decide

example : Exact (fun f => if f ∈ [0] then blobsOf store f else [])
    (withMergeStats [(0, ⟨1, 4, 3⟩)] (some ([b, d].foldl onDropped [])) [0])
    ([b, c, d].filter (fun p => decide (p ∉ [b, d]))) :=
  c09_with_merge_exact _ _ _ _ _ store_wf (c09_refsWF_of_all (by decide)) base_exact (by decide) (by decide)

/-- `c09_new_blob_file_exact`: a flush writes blob file 1 (content `[d]`) and a table that references `d` -/
example : Exact (blobsOf store) [(0, ⟨1, 4, 3⟩)] ([b, c] ++ [d]) :=
  c09_new_blob_file_exact (blobsOf [(0, [a, b, c])]) (blobsOf store) _ [b, c] [d] store_wf
    (c09_exact_of_exactB (by decide)) (by decide)
    (by intro f hf
        have : f ≠ 1 := fun e => hf d (by simp) (by simp [e, d])
        simp [store, blobsOf, Ne.symm this])
    (by decide)

end C09Example

end Lsm
