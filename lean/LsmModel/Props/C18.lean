import LsmModel.Lemmas.HwmLemmas
import LsmModel.Props.C01
/-!
# C18 — reported sequence-number high-water marks equal what is actually stored

`get_highest_persisted_seqno` is the largest (effective) sequence number among the entries stored in the table files
of the current version (`none` iff there is no such entry); it is the same before and after a reopen; the memtable
mark (`get_highest_memtable_seqno`) and the overall mark (`get_highest_seqno`) likewise.

## Formalisation (definitions in `LsmModel.Lemmas.HwmLemmas`)

* `maxSeqno l` (`LsmModel.Basic`) — `fetch_max` folded over a list of entries, `none` for the empty list.
* `optMax a b` — Rust's `Option::max` on `Option<SeqNo>` (`None < Some _`, so `none` is neutral); `optMaxList` is
  `Iterator::max` over optional marks (`none` for the empty iterator); `optLe a b` is the induced order on marks
  (`none` below everything). All statements about "raising / lowering" a mark are in this order.
* `persistedHwm t` — `maxSeqno` over all entries of all tables of the LATEST super version's version. This is
  verbatim the `persisted=` field the driver (`Driver/Tree.lean`, query `hwm`) prints and the harness compares with
  the real `get_highest_persisted_seqno()`; the only adaptation: for a state without a super version (not reachable,
  `TreeState.WF` excludes it) the driver answers `panic`, the definition here is `none`.
  Table entries of the model carry their EFFECTIVE seqno (local seqno + the table's global seqno).
* `memtableHwm t` — `maxSeqno ((sv.active :: sv.sealed).flatMap t.mem)`, verbatim the `memtable=` field of the driver;
  `c18_memtable_per_memtable` shows it is what `get_highest_memtable_seqno` computes
  (`active.max(sealed.map(get_highest_seqno).max().flatten())`), and `c18_maxSeqno_memInsert` (lemma file) that a
  memtable's own mark is the `fetch_max` over its inserts.
* `overallHwm t = optMax (memtableHwm t) (persistedHwm t)` — `get_highest_seqno` (abstract_tree.rs:271).

## What is proved

* `c18_persisted_is_max`, `c18_persisted_none` — the mark is the largest stored seqno: attained and an upper bound;
  `none` iff no table entry. `c18_memtable_is_max` the same for memtables.
* `c18_per_table` — the mark equals the maximum over the tables of each table's own maximum, which is how the real
  code computes it (`iter_tables().map(Table::get_highest_seqno).max()`); `c18_table_meta_max` links a table's own
  maximum to the block layer (C12): the writer's streaming metadata field `maxSeqno` (`metadata.seqnos.1`, initial
  value `0`, so `0` for an empty stream — the real writer deletes an empty table file) is `maxSeqno` of the stream it
  wrote, for every block size and without any sortedness hypothesis; `c18_table_meta_max_global` adds the global
  seqno as `Table::get_highest_seqno` does (`metadata.seqnos.1 + global_seqno`).
* `c18_reopen_same` — `reopen` keeps the persisted mark, the memtable mark becomes `none` (memtables are gone) and
  the overall mark becomes the persisted one. The model keeps `seqCtr` across `reopen`; in the real code the counter
  (`config.seqno`, shared with the caller) is NOT restored by the crate's recovery — the caller restores it from this
  very mark (protocol P4: counter ≥ highest stored seqno + 1), and by `c18_below_counter` `mark + 1` never exceeds
  the pre-crash counter (it can be smaller: compaction may have evicted the entry with the largest seqno).
* `c18_below_counter` — in `Good` states (the C01 invariant, which holds in every state reachable by C01's alphabet)
  all three marks are `< seqCtr`, i.e. `≤ counter − 1`; `c18_below_counter_of_bound` needs only that the table entries
  of the latest version are below the counter. `c18_write_raises`: after a non-empty write batch in a `Good` state
  the memtable mark and the overall mark are EXACTLY `counter − 1`.
* Monotonicity of the persisted mark:
  - `c18_flush_monotone`, `c18_flushCommit_monotone`, `c18_ingest_monotone`: flush, the commit of a concurrent
    flush and bulk ingestion (`with_new_l0_run`) never lower it — no hypothesis at all (a version without levels has
    no tables before or after); `c18_flush_exact` / `c18_ingest_exact`: with a level 0 the new mark is exactly
    `max(old mark, mark of the written stream)`;
  - `c18_rotate_same`, `c18_write_persisted_same`: `rotate` and `write` do not touch it;
  - `c18_move_same`: `move_tables` into an existing level (`dest < levels.length`) keeps it;
  - `c18_drop_not_above`: `drop_tables` never raises it — and can lower it (example below);
  - `c18_applyOp_monotone`: summary over `Op`: every operation except `merge`, `drop`, `clear` never lowers it.
* Compaction:
  - `c18_merge_not_above`: a merge NEVER raises the mark — any watermark, any destination, with or without tombstone
    eviction, ANY compaction filter: the GC stream's output is a sublist of the filtered input and a filter verdict
    `replace vt v` changes only type and value of an entry, never key or seqno (`c18_cstream_seqno_mem`).
  - "a merge never lowers the mark" is FALSE: `C18Example.merge_lowers` — the last-level merge of C01's example run
    evicts the tombstone `d3` (seqno 3) that carries the mark; it drops from `3` to `1`. The real code behaves the
    same: `get_highest_persisted_seqno` (tree/mod.rs:662) is recomputed from the current version's table metadata on
    every call (`metadata.seqnos.1 + global_seqno` per table, table/mod.rs:623), nothing is cached, so once the
    compacted version is installed the real getter reports the lower value as well. Likewise a filter verdict
    `drop` / `replace tomb` on the carrier, or the weak-tombstone pair rule, can lower it.
  - `c18_merge_keeps_if_value`: what does hold — if SOME entry carrying the mark survives the filter as a
    non-tombstone (`filterHead f e = (some head, pre)`, `head.isTomb = false`; e.g. it is a value / indirection and
    the filter says `keep`, or `replace` by a value), then a merge into an existing level leaves the mark unchanged,
    for every watermark and with or without eviction. Reason: the carrier is the newest version of its key among the
    inputs, and the stream never drops a non-tombstone head. Hypotheses: `Good t` (gives sorted, `ikEq`-distinct
    inputs, so that the merged input is a source) and `dest < t.levelCount`. `c18_merge_keeps_if_kept` is the
    special case "is not a tombstone and the filter keeps it".
-/
namespace Lsm
open Blocks
set_option linter.unusedSectionVars false
variable {K : Type} [LT K] [DecidableLT K] [DecidableEq K] [LE K] [Std.IsLinearOrder K] [Std.LawfulOrderLT K]

/-! ### the marks are the largest stored seqnos -/

/-- **C18.** The persisted mark is `some m` exactly when `m` is the largest seqno stored in a table of the latest
    version: some table entry carries it and no table entry exceeds it. -/
theorem c18_persisted_is_max {t : TreeState K} {sv : SuperVersion K} (hl : t.latest? = some sv) (m : Nat) :
    persistedHwm t = some m ↔
      (∃ tb ∈ sv.version.tables, ∃ e ∈ tb.entries, e.seqno = m) ∧
      ∀ tb ∈ sv.version.tables, ∀ e ∈ tb.entries, e.seqno ≤ m := by
  rw [persistedHwm_of_latest hl, versionHwm_eq_some_iff]

/-- … and `none` exactly when no table stores an entry -/
theorem c18_persisted_none {t : TreeState K} {sv : SuperVersion K} (hl : t.latest? = some sv) :
    persistedHwm t = none ↔ ∀ tb ∈ sv.version.tables, tb.entries = [] := by
  rw [persistedHwm_of_latest hl, versionHwm_eq_none_iff]

/-- the memtable mark is the largest seqno stored in the active or a sealed memtable -/
theorem c18_memtable_is_max {t : TreeState K} {sv : SuperVersion K} (hl : t.latest? = some sv) (m : Nat) :
    memtableHwm t = some m ↔
      (∃ id ∈ sv.active :: sv.sealed, ∃ e ∈ t.mem id, e.seqno = m) ∧
      ∀ id ∈ sv.active :: sv.sealed, ∀ e ∈ t.mem id, e.seqno ≤ m := by
  rw [memtableHwm_of_latest hl, c18_maxSeqno_eq_some_iff]
  simp only [List.mem_flatMap]
  constructor
  · rintro ⟨⟨e, ⟨id, hid, he⟩, hm⟩, hub⟩
    exact ⟨⟨id, hid, e, he, hm⟩, fun id hid e he => hub e ⟨id, hid, he⟩⟩
  · rintro ⟨⟨id, hid, e, he, hm⟩, hub⟩
    exact ⟨⟨e, ⟨id, hid, he⟩, hm⟩, fun e ⟨id, hid, he⟩ => hub id hid e he⟩

/-- the overall mark is the larger of the two (`memtable_seqno.max(table_seqno)`): it is `some m` iff one of the
    marks is `some m` and the other one is not above it -/
theorem c18_overall_is_max (t : TreeState K) (m : Nat) :
    overallHwm t = some m ↔
      (memtableHwm t = some m ∧ optLe (persistedHwm t) (memtableHwm t)) ∨
      (persistedHwm t = some m ∧ optLe (memtableHwm t) (persistedHwm t)) :=
  optMax_eq_some

/-- what the real getter computes: the maximum over the tables of each table's own maximum -/
theorem c18_per_table (ts : List (TableM K)) :
    maxSeqno (ts.flatMap (·.entries)) = optMaxList (ts.map (fun tb => maxSeqno tb.entries)) :=
  c18_maxSeqno_flatMap _ _

/-- `c18_per_table` for the persisted mark of a state -/
theorem c18_persisted_per_table {t : TreeState K} {sv : SuperVersion K} (hl : t.latest? = some sv) :
    persistedHwm t = optMaxList (sv.version.tables.map (fun tb => maxSeqno tb.entries)) := by
  rw [persistedHwm_of_latest hl, versionHwm_per_table]

/-- what the real memtable getter computes: active mark against the maximum of the sealed memtables' marks -/
theorem c18_memtable_per_memtable {t : TreeState K} {sv : SuperVersion K} (hl : t.latest? = some sv) :
    memtableHwm t
      = optMax (maxSeqno (t.mem sv.active)) (optMaxList (sv.sealed.map (fun id => maxSeqno (t.mem id)))) :=
  memtableHwm_per_memtable hl

/-- link to the block layer (C12): the maximum seqno the table writer records in its streaming metadata for a
    table written from `es` — whatever the block size — is `maxSeqno es` (`0` for the empty stream) -/
theorem c18_table_meta_max (bs : Nat) (sizeOf : Entry K → Nat) (es : List (Entry K)) :
    (writeTable bs sizeOf es).mdata.maxSeqno = (maxSeqno es).getD 0 ∧
    (writerMeta es).maxSeqno = (maxSeqno es).getD 0 ∧
    (es ≠ [] → maxSeqno es = some (writeTable bs sizeOf es).mdata.maxSeqno) := by
  refine ⟨c18_writeTable_maxSeqno bs sizeOf es, c18_writerMeta_maxSeqno es, fun hne => ?_⟩
  rw [(writeTable_meta bs sizeOf es).1]
  exact c18_maxSeqno_eq_writerMeta hne

/-- `Table::get_highest_seqno = metadata.seqnos.1 + global_seqno`: for a non-empty table written from the local
    entries `es` and carrying global seqno `g`, this is the mark of the table's effective entries (what the version
    layer of the model stores) -/
theorem c18_table_meta_max_global (bs : Nat) (sizeOf : Entry K → Nat) (es : List (Entry K)) (g : Nat)
    (hne : es ≠ []) :
    maxSeqno (es.map (fun e => { e with seqno := e.seqno + g }))
      = some ((writeTable bs sizeOf es).mdata.maxSeqno + g) := by
  rw [c18_maxSeqno_map_shift, (c18_table_meta_max bs sizeOf es).2.2 hne]
  rfl

/-! ### reopen -/

/-- the persisted mark is the same before and after a reopen; the memtable mark is gone, the overall mark is the
    persisted one; the model's counter is kept -/
theorem c18_reopen_same {t t' : TreeState K} (h : t.reopen = some t') :
    persistedHwm t' = persistedHwm t ∧ memtableHwm t' = none ∧ overallHwm t' = persistedHwm t ∧
      t'.seqCtr = t.seqCtr := by
  obtain ⟨h1, h2⟩ := c18_reopen_hwm h
  refine ⟨h1, h2, by rw [overallHwm, h2, h1]; rfl, (reopen_counters h).1⟩

/-! ### the marks stay below the counter -/

/-- minimal form: if every table entry of the latest version is below the counter, so is the persisted mark -/
theorem c18_below_counter_of_bound {t : TreeState K} {sv : SuperVersion K} (hl : t.latest? = some sv)
    (hb : ∀ tb ∈ sv.version.tables, ∀ e ∈ tb.entries, e.seqno < t.seqCtr) {m : Nat}
    (h : persistedHwm t = some m) : m < t.seqCtr :=
  persistedHwm_lt_of_below hl hb h

/-- in `Good` states every mark is below the counter (`≤ counter − 1`) -/
theorem c18_below_counter {t : TreeState K} (hg : Good t) (m : Nat) :
    (persistedHwm t = some m → m < t.seqCtr) ∧ (memtableHwm t = some m → m < t.seqCtr) ∧
    (overallHwm t = some m → m < t.seqCtr) := by
  obtain ⟨sv, hl, hsv, _⟩ := hg.sv
  have h1 : persistedHwm t = some m → m < t.seqCtr :=
    persistedHwm_lt_of_below hl (c18_goodSv_tables_below hsv)
  have h2 : memtableHwm t = some m → m < t.seqCtr :=
    memtableHwm_lt_of_below hl (c18_goodSv_mems_below hsv)
  refine ⟨h1, h2, fun h => ?_⟩
  rcases (c18_overall_is_max t m).1 h with ⟨h, _⟩ | ⟨h, _⟩
  · exact h2 h
  · exact h1 h

/-- … in particular in every state reachable by C01's alphabet from the empty tree -/
theorem c18_below_counter_reach (n : Nat) (ops : List (Op K)) (t : TreeState K)
    (h : Reach (TreeState.init n none) ops t) (m : Nat) (hm : overallHwm t = some m) : m < t.seqCtr :=
  (c18_below_counter (c01_good_invariant n ops t h) m).2.2 hm

/-- after a non-empty write batch the memtable mark and the overall mark are exactly the seqno of the batch,
    i.e. the new counter minus one; the persisted mark is untouched -/
theorem c18_write_raises {t t' : TreeState K} (hg : Good t) {es : List (Entry K)} (hne : es ≠ [])
    (hw : t.write es = some t') :
    memtableHwm t' = some (t'.seqCtr - 1) ∧ overallHwm t' = some (t'.seqCtr - 1) ∧
      persistedHwm t' = persistedHwm t := by
  obtain ⟨h1, h2, h3, h4⟩ := c18_write_hwm_good hg hne hw
  rw [h4, Nat.add_sub_cancel]
  exact ⟨h1, h2, h3⟩

/-! ### monotonicity of the persisted mark -/

/-- a flush can only raise the persisted mark or keep it -/
theorem c18_flush_monotone {t t' : TreeState K} {wm : Nat} {cuts : List (Nat × Nat)} {sep : Bool}
    (h : t.flushSealed wm cuts sep = some t') : optLe (persistedHwm t) (persistedHwm t') :=
  flushSealed_persistedHwm_le h

/-- with a level 0 and something to flush: the new mark is the larger of the old mark and the flushed stream's -/
theorem c18_flush_exact {t t' : TreeState K} {wm : Nat} {cuts : List (Nat × Nat)} {sep : Bool}
    {sv : SuperVersion K} (hl : t.latest? = some sv) (hs : sv.sealed ≠ []) (h0 : 0 < sv.version.levels.length)
    (h : t.flushSealed wm cuts sep = some t') :
    persistedHwm t' = optMax (maxSeqno (t.flushStream sv wm).1) (persistedHwm t) :=
  flushSealed_persistedHwm hl hs h0 h

/-- the commit of a concurrent flush can only raise the persisted mark or keep it -/
theorem c18_flushCommit_monotone {t t' : TreeState K} {ids : List Nat} {wm : Nat} {cuts : List (Nat × Nat)}
    (h : t.flushCommit ids wm cuts = some t') : optLe (persistedHwm t) (persistedHwm t') :=
  flushCommit_persistedHwm_le h

/-- bulk ingestion can only raise the persisted mark or keep it -/
theorem c18_ingest_monotone {t t' : TreeState K} {items : List (Entry K)} {cuts : List (Nat × Nat)}
    (h : t.ingestCommit items cuts = some t') : optLe (persistedHwm t) (persistedHwm t') :=
  ingestCommit_persistedHwm_le h

/-- with a level 0: the ingested tables contribute `local maximum + global seqno`, the global seqno being the
    counter value drawn by the ingestion -/
theorem c18_ingest_exact {t t' : TreeState K} {items : List (Entry K)} {cuts : List (Nat × Nat)}
    {sv : SuperVersion K} (hl : t.latest? = some sv) (h0 : 0 < sv.version.levels.length)
    (h : t.ingestCommit items cuts = some t') :
    persistedHwm t' = optMax ((maxSeqno items).map (· + t.seqCtr)) (persistedHwm t) :=
  ingestCommit_persistedHwm hl h0 h

/-- `rotate_memtable` changes neither mark -/
theorem c18_rotate_same (t : TreeState K) (n : Nat) (hf : t.freshMem n = true) :
    persistedHwm (t.rotate n) = persistedHwm t ∧ memtableHwm (t.rotate n) = memtableHwm t :=
  c18_rotate_hwm t n hf

/-- a write does not touch the persisted mark (no invariant needed) -/
theorem c18_write_persisted_same {t t' : TreeState K} {es : List (Entry K)} (hw : t.write es = some t') :
    persistedHwm t' = persistedHwm t := by
  obtain ⟨a, _, rfl⟩ := write_cases hw
  rfl

/-- `move_tables` into an existing level keeps the persisted mark -/
theorem c18_move_same {t t' : TreeState K} {ids : List Nat} {dest wm : Nat}
    (hdest : ∀ sv, t.latest? = some sv → dest < sv.version.levels.length)
    (h : t.moveCommit ids dest wm = some t') : persistedHwm t' = persistedHwm t :=
  moveCommit_persistedHwm hdest h

/-- `drop_tables` never raises the persisted mark (it can lower it: `C18Example.drop_lowers`) -/
theorem c18_drop_not_above {t t' : TreeState K} {ids : List Nat} {wm : Nat}
    (h : t.dropCommit ids wm = some t') : optLe (persistedHwm t') (persistedHwm t) :=
  dropCommit_persistedHwm_le h

/-- summary: every operation other than `merge`, `drop` and `clear` (a `move` must target an existing level) can
    only raise the persisted mark or keep it -/
theorem c18_applyOp_monotone {t t' : TreeState K} {op : Op K} (h : t.applyOp op = some t')
    (hop : match op with
      | .merge _ _ _ _ _ => False
      | .drop _ _ => False
      | .clear _ => False
      | .move _ dest _ => ∀ sv, t.latest? = some sv → dest < sv.version.levels.length
      | _ => True) :
    optLe (persistedHwm t) (persistedHwm t') := by
  cases op with
  | write es => rw [c18_write_persisted_same h]; exact optLe_refl _
  | rotate m =>
    simp only [TreeState.applyOp] at h
    split at h
    · next hf => cases h; rw [(c18_rotate_hwm t m hf).1]; exact optLe_refl _
    · cases h
  | flush wm m cuts =>
    simp only [TreeState.applyOp] at h
    split at h
    · next hf => rw [← (c18_rotate_hwm t m hf).1]; exact flushSealed_persistedHwm_le h
    · cases h
  | flushCommit ids wm cuts => exact flushCommit_persistedHwm_le h
  | merge ids dest wm f cuts => exact absurd hop id
  | move ids dest wm => rw [moveCommit_persistedHwm hop h]; exact optLe_refl _
  | drop ids wm => exact absurd hop id
  | clear m => exact absurd hop id
  | ingest m fcuts items cuts =>
    simp only [TreeState.applyOp] at h
    split at h
    · next hf =>
      split at h
      · next t1 h1 =>
        rw [← (c18_rotate_hwm t m hf).1]
        exact optLe_trans (flushSealed_persistedHwm_le h1) (ingestCommit_persistedHwm_le h)
      · cases h
    · cases h
  | reopen => rw [(c18_reopen_hwm h).1]; exact optLe_refl _

/-! ### compaction -/

/-- a merge never raises the persisted mark: any inputs, destination, watermark, compaction filter, with or without
    tombstone eviction -/
theorem c18_merge_not_above {t t' : TreeState K} {ids : List Nat} {dest wm : Nat} {f : Entry K → Verdict}
    {cuts : List (Nat × Nat)} (h : t.mergeCommit ids dest wm f cuts = some t') :
    optLe (persistedHwm t') (persistedHwm t) :=
  mergeCommit_persistedHwm_le h

/-- if an entry `e` carrying the persisted mark survives the compaction filter as a non-tombstone `head`, a merge into
    an existing level leaves the mark unchanged — whatever the inputs, the watermark and the eviction flag -/
theorem c18_merge_keeps_if_value {t t' : TreeState K} (hg : Good t) {ids : List Nat} {dest wm : Nat}
    {f : Entry K → Verdict} {cuts : List (Nat × Nat)} (hdest : dest < t.levelCount)
    (h : t.mergeCommit ids dest wm f cuts = some t')
    {sv : SuperVersion K} (hl : t.latest? = some sv) {tb : TableM K} {e head : Entry K} {pre : List (Entry K)}
    (htb : tb ∈ sv.version.tables) (he : e ∈ tb.entries) (hm : persistedHwm t = some e.seqno)
    (hf : filterHead f e = (some head, pre)) (hnt : head.isTomb = false) :
    persistedHwm t' = persistedHwm t := by
  obtain ⟨sv', hl', hsv, _⟩ := hg.sv
  obtain rfl : sv' = sv := Option.some.inj (hl'.symm.trans hl)
  have hord : ∀ k, Desc (tabHist sv'.version k) := by
    intro k
    have h1 := hsv.ord k
    rw [keyHist_eq, Desc, List.pairwise_append] at h1
    exact h1.2.1
  exact mergeCommit_persistedHwm_keep hl hsv.vwf hord (by rw [hsv.lvl]; exact hdest) h htb he hm hf hnt

/-- special case: the carrier is not a tombstone and the filter keeps it (e.g. there is no filter) -/
theorem c18_merge_keeps_if_kept {t t' : TreeState K} (hg : Good t) {ids : List Nat} {dest wm : Nat}
    {f : Entry K → Verdict} {cuts : List (Nat × Nat)} (hdest : dest < t.levelCount)
    (h : t.mergeCommit ids dest wm f cuts = some t')
    {sv : SuperVersion K} (hl : t.latest? = some sv) {tb : TableM K} {e : Entry K}
    (htb : tb ∈ sv.version.tables) (he : e ∈ tb.entries) (hm : persistedHwm t = some e.seqno)
    (hnt : e.isTomb = false) (hf : f e = .keep) :
    persistedHwm t' = persistedHwm t :=
  c18_merge_keeps_if_value hg hdest h hl htb he hm (filterHead_keep hnt hf) hnt

/-! ### Non-vacuity and counterexamples on `K := Nat` (states of C01's example run) -/
namespace C18Example
open C01Example

/-- the marks along C01's run: nothing stored; one flushed table `[a0, b1]`; the tombstone `d3` written, then flushed;
    after the last-level merge; after reopen -/
example : persistedHwm s0 = none ∧ persistedHwm s3 = some 1 ∧ persistedHwm s4 = some 1 ∧ persistedHwm s5 = some 3 ∧
    persistedHwm s6 = some 1 ∧ persistedHwm s7 = some 1 := by decide

example : memtableHwm s0 = none ∧ memtableHwm s2 = some 1 ∧ memtableHwm s3 = none ∧ memtableHwm s4 = some 3 ∧
    overallHwm s4 = some 3 ∧ overallHwm s5 = some 3 ∧ overallHwm s6 = some 1 := by decide

/-- `c18_persisted_is_max` on `s5`: `3` is stored (the tombstone `d3` in table 101) and nothing exceeds it -/
example : (∃ tb ∈ v2.tables, ∃ e ∈ tb.entries, e.seqno = 3) ∧ ∀ tb ∈ v2.tables, ∀ e ∈ tb.entries, e.seqno ≤ 3 :=
  (c18_persisted_is_max (t := s5) (sv := ⟨2, [], v2, 4⟩) rfl 3).1 (by decide)

/-- … and in the other direction -/
example : persistedHwm s5 = some 3 :=
  (c18_persisted_is_max (t := s5) (sv := ⟨2, [], v2, 4⟩) rfl 3).2
    ⟨⟨t101, by decide, d3, by decide, rfl⟩, by decide⟩

/-- `c18_persisted_none` on the empty tree -/
example : persistedHwm s0 = none := (c18_persisted_none (t := s0) (sv := ⟨0, [], v0, 0⟩) rfl).2 (by decide)

/-- `c18_per_table` on `s5`: table 101 reports 3, table 100 reports 1 -/
example : v2.tables.map (fun tb => maxSeqno tb.entries) = [some 3, some 1] ∧
    persistedHwm s5 = optMaxList [some 3, some 1] :=
  ⟨by decide, c18_persisted_per_table (t := s5) (sv := ⟨2, [], v2, 4⟩) rfl⟩

/-- `c18_memtable_per_memtable` on `s4r` (active memtable 2 empty, sealed memtable 1 = `[d3]`) -/
example : memtableHwm s4r = optMax none (optMaxList [some 3]) :=
  c18_memtable_per_memtable (t := s4r) (sv := ⟨2, [1], v1, 2⟩) rfl

/-- `c18_table_meta_max`: the writer's metadata for table 100 (block size 1, every item of size 1) records 1 -/
example : (writeTable 1 (fun _ => 1) [a0, b1]).mdata.maxSeqno = 1 ∧ maxSeqno [a0, b1] = some 1 :=
  ⟨by decide, ((c18_table_meta_max 1 (fun _ => 1) [a0, b1]).2.2 (by decide)).trans (by decide)⟩

/-- `c18_table_meta_max_global`: the same table ingested with global seqno 5 reports 6 -/
example : maxSeqno ([a0, b1].map (fun e => { e with seqno := e.seqno + 5 })) = some 6 :=
  c18_table_meta_max_global 1 (fun _ => 1) [a0, b1] 5 (by decide)

/-- `c18_reopen_same` on the reopen step of the run -/
example : persistedHwm s7 = persistedHwm s6 ∧ memtableHwm s7 = none ∧ overallHwm s7 = persistedHwm s6 ∧
    s7.seqCtr = s6.seqCtr :=
  c18_reopen_same step7

/-- a reopen that loses an unflushed memtable: the memtable mark (3) is gone, the persisted mark (1) stays -/
example : ∃ t', s4.reopen = some t' ∧ memtableHwm s4 = some 3 ∧ memtableHwm t' = none ∧
    overallHwm t' = some 1 := by
  refine ⟨_, rfl, by decide, ?_, ?_⟩
  · exact (c18_reopen_same (t := s4) rfl).2.1
  · rw [(c18_reopen_same (t := s4) rfl).2.2.1]; decide

/-- `c18_below_counter` at the end of the run: the mark is 1, the counter 6 -/
example : overallHwm s7 = some 1 ∧ 1 < s7.seqCtr :=
  ⟨by decide, c18_below_counter_reach 2 _ s7 reach7 1 (by decide)⟩

/-- the first four steps of the run -/
theorem reach4 : Reach s0 [.write [a0], .write [b1], .flush 0 1 [(100, 2)], .write [d3]] s4 := by
  refine .step (t' := _) ?_ rfl (.step (t' := s2) ?_ rfl (.step ok3 step3 (.step ?_ step4 (.refl _))))
  · exact ⟨by decide, by decide⟩
  · exact ⟨by decide, by decide⟩
  · exact ⟨by decide, by decide⟩

theorem reach3 : Reach s0 [.write [a0], .write [b1], .flush 0 1 [(100, 2)]] s3 := by
  refine .step (t' := _) ?_ rfl (.step (t' := s2) ?_ rfl (.step ok3 step3 (.refl _)))
  · exact ⟨by decide, by decide⟩
  · exact ⟨by decide, by decide⟩

theorem good3 : Good s3 := c01_good_invariant 2 _ s3 reach3

/-- `c18_write_raises` on the delete step `s3 → s4` (seqno 3, counter 3 → 4) -/
example : memtableHwm s4 = some (s4.seqCtr - 1) ∧ overallHwm s4 = some (s4.seqCtr - 1) ∧
    persistedHwm s4 = persistedHwm s3 :=
  c18_write_raises good3 (es := [d3]) (by decide) step4

/-- `c18_flush_monotone` / `c18_flush_exact` on the two flushes of the run: `none → 1` and `1 → 3` -/
example : optLe (persistedHwm s2r) (persistedHwm s3) ∧ persistedHwm s2r = none ∧ persistedHwm s3 = some 1 :=
  ⟨c18_flush_monotone (step3 : s2r.flushSealed 0 [(100, 2)] = some s3), by decide, by decide⟩

example : persistedHwm s5 = optMax (maxSeqno [d3]) (persistedHwm s4r) := by
  have h := c18_flush_exact (t := s4r) (sv := ⟨2, [1], v1, 2⟩) rfl (by decide) (by decide)
    (step5 : s4r.flushSealed 0 [(101, 1)] = some s5)
  rwa [stream4] at h

/-- `c18_applyOp_monotone` on the flush operation `s4 → s5` -/
example : optLe (persistedHwm s4) (persistedHwm s5) := c18_applyOp_monotone step5 trivial

/-- `c18_flushCommit_monotone`: committing the flush of memtable 1 on `s4r` concurrently -/
example : ∃ t', s4r.flushCommit [1] 0 [(101, 1)] = some t' ∧ optLe (persistedHwm s4r) (persistedHwm t') ∧
    persistedHwm t' = some 3 := by
  have hs : (cstream 0 false noFilter (mergeAll ([1].map s4r.mem))).1 = [d3] := congrArg Prod.fst stream4
  have hl : s4r.latest? = some ⟨2, [1], v1, 2⟩ := rfl
  have h : s4r.flushCommit [1] 0 [(101, 1)] = some s5 := by
    simp only [TreeState.flushCommit, hl, hs]
    rfl
  exact ⟨s5, h, c18_flushCommit_monotone h, by decide⟩

/-- `c18_ingest_monotone` / `c18_ingest_exact`: ingesting one item with local seqno 0 into `s5` (counter 5): the
    ingested table reports `0 + 5`, the mark goes from 3 to 5 -/
example : (s5.ingestCommit [⟨7, 0, .value, [70]⟩] [(200, 1)]).isSome = true ∧
    ∀ t', s5.ingestCommit [⟨7, 0, .value, [70]⟩] [(200, 1)] = some t' →
      optLe (persistedHwm s5) (persistedHwm t') ∧ persistedHwm t' = some 5 := by
  refine ⟨rfl, fun t' h => ⟨c18_ingest_monotone h, ?_⟩⟩
  rw [c18_ingest_exact (t := s5) (sv := ⟨2, [], v2, 4⟩) rfl (by decide) h]
  decide

/-- `c18_move_same`: moving table 100 of `s5` down to level 1 -/
example : ∃ t', s5.moveCommit [100] 1 0 = some t' ∧ persistedHwm t' = persistedHwm s5 := by
  refine ⟨_, rfl, c18_move_same (t := s5) ?_ rfl⟩
  intro sv hsv
  obtain rfl : sv = ⟨2, [], v2, 4⟩ := Option.some.inj (hsv.symm.trans (rfl : s5.latest? = _))
  decide

/-- `c18_rotate_same` on the rotation `s4 → s4r` -/
example : persistedHwm s4r = persistedHwm s4 ∧ memtableHwm s4r = memtableHwm s4 :=
  rot4 ▸ c18_rotate_same s4 2 (by decide)

/-- `c18_drop_not_above`, and a drop that LOWERS the mark: dropping the tombstone table 101 of `s5` (3 → 1) -/
theorem drop_lowers : ∃ t', s5.dropCommit [101] 0 = some t' ∧ persistedHwm s5 = some 3 ∧ persistedHwm t' = some 1 ∧
    optLe (persistedHwm t') (persistedHwm s5) :=
  ⟨_, rfl, by decide, by decide, c18_drop_not_above (t := s5) rfl⟩

/-- `c18_merge_not_above` on the last-level merge of the run … -/
example : optLe (persistedHwm s6) (persistedHwm s5) :=
  c18_merge_not_above (step6 : s5.mergeCommit [100, 101] 1 10 noFilter [(102, 1)] = some s6)

/-- … which is the COUNTEREXAMPLE to "a merge never lowers the persisted mark": the merge of tables 100 and 101 into
    the last level evicts the tombstone `d3` that carries the mark 3 (together with the value `a0` it deletes); the
    only surviving entry is `b1`, the mark is 1 afterwards -/
theorem merge_lowers : s5.mergeCommit [100, 101] 1 10 noFilter [(102, 1)] = some s6 ∧
    persistedHwm s5 = some 3 ∧ persistedHwm s6 = some 1 ∧ ¬ optLe (persistedHwm s5) (persistedHwm s6) :=
  ⟨step6, by decide, by decide, by decide⟩

/-- `c18_merge_keeps_if_kept`: the same kind of last-level merge applied to `s3` (table 100 = `[a0, b1]`): the carrier
    of the mark is the value `b1`, the mark stays 1 -/
def s3m : TreeState Nat :=
  { hist := [⟨1, [], ⟨2, [[], [[⟨103, 1, 2, [a0, b1], 0⟩]]]⟩, 3⟩], mems := [⟨1, []⟩], seqCtr := 4, visible := 4,
    levelCount := 2 }

theorem step3m : s3.mergeCommit [100] 1 10 noFilter [(103, 2)] = some s3m := by
  have hl : s3.latest? = some ⟨1, [], v1, 2⟩ := rfl
  have he : (1 + 1 == s3.levelCount) = true := rfl
  have hi : mergeInputs v1 [100] = [a0, b1] := by
    simp [mergeInputs, v1, Version.runs, t100, mergeAll, merge2]
  have hc : cstream 10 true noFilter [a0, b1] = ([a0, b1], []) := by
    simp [cstream, filterHead, noFilter, a0, b1, Entry.isTomb]
  simp only [TreeState.mergeCommit, hl, he, hi, hc]
  rfl

example : persistedHwm s3m = persistedHwm s3 ∧ persistedHwm s3 = some 1 :=
  ⟨c18_merge_keeps_if_kept good3 (by decide) step3m (sv := ⟨1, [], v1, 2⟩) rfl (tb := t100) (e := b1)
    (by decide) (by decide) (by decide) (by decide) rfl, by decide⟩

end C18Example

end Lsm
