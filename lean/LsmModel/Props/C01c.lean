import LsmModel.Lemmas.LeveledLemmas
import LsmModel.Props.C01b
/-
# C01c — the Leveled strategy always chooses admissibly

`c01_point_read_refines_map` (Props/C01.lean) assumes, for every merge / move step, that the choice of inputs is
`admissible` (second conjunct of `okStep t (.merge …)` / `okStep t (.move …)`). Props/C01b.lean discharges that
conjunct for major / pull-down / move-down. This module discharges it for **Leveled**
(src/compaction/leveled/mod.rs, modelled in Tree/Leveled.lean as `leveledChooseAt`), so that "Leveled always chooses
admissibly" stops being a monitored assumption:

* `c01_leveled_admissible` — for EVERY `pick : LevelPick` (the two float-dependent decisions of the real code:
  `need_new_l1` and which level has the highest score), every hidden set, size function and parameters, and every
  version that is `Version.WF` (runs sorted and key-disjoint, table ids distinct, recorded key ranges cover the
  content) and obeys usage protocol **P6** (every level ≥ 1 holds at most one run), the choice is `doNothing`, or a
  `move ids dest` with `admissible v ids dest false`, or a `merge ids dest` with
  `admissible v ids dest (dest + 1 == levelCount)`; `dest` is a level of the version and `ids` are ids of its tables.
* `c01_leveled_not_hidden` — unless the choice is the trivial move into Lmax, no chosen table is in the hidden set.
  The `'trivial_lmax` block of the real code (mod.rs:281-308) does NOT consult the hidden set:
  `c01_leveled_lmax_ignores_hidden_set` is the witness. (The worker's fail-safe in `move_tables` declines such a
  choice, so this is not a correctness defect.)
* `c01_leveled_okStep_move`, `c01_leveled_okStep_merge`, `c01_leveled_okStep` — the full `okStep` on a `Good` state,
  in the shape of `c01_movedown_okStep` / `c01_pulldown_okStep`.
* `c01_leveled_counterexample_without_P6` — P6 cannot be dropped: with two runs in L1 the L0 → L1 choice of the
  real code is not admissible (known: DESIGN.md, P6 / F7 follow-on).
-/
namespace Lsm
set_option linter.unusedSectionVars false
variable {K : Type} [LT K] [DecidableLT K] [DecidableEq K] [LE K] [Std.IsLinearOrder K] [Std.LawfulOrderLT K]

/-- **Leveled chooses admissibly** (bare statement on a version). -/
theorem c01_leveled_admissible (p : LeveledParams K) (v : Version K) (hidden : List Nat) (size : Nat → Nat)
    (pick : LevelPick) (hv : v.WF) (hp6 : P6 v) :
    match leveledChooseAt p v hidden size pick with
    | .doNothing => True
    | .move ids dest =>
      admissible v ids dest false = true ∧ dest < v.levels.length ∧ ∀ i ∈ ids, i ∈ v.tableIds
    | .merge ids dest =>
      admissible v ids dest (dest + 1 == v.levels.length) = true ∧ dest < v.levels.length ∧
        ∀ i ∈ ids, i ∈ v.tableIds
    | .drop _ => False := by
  have h := (leveled_choice_ok p v hidden size pick hv hp6).1
  split
  · trivial
  · next ids dest hc =>
    rw [hc] at h
    exact ⟨h.1 false (fun e => by cases e), h.2⟩
  · next ids dest hc =>
    rw [hc] at h
    exact ⟨h.1 _ (fun e => by have : dest + 1 = v.levels.length := by simpa using e
                              omega), h.2⟩
  · next ids hc =>
    rw [hc] at h
    exact h

/-- a `merge` chosen by Leveled is admissible for BOTH values of the eviction flag whenever the flag may be set at
    all (destination = last level), and without eviction always -/
theorem c01_leveled_admissible_evict (p : LeveledParams K) (v : Version K) (hidden : List Nat) (size : Nat → Nat)
    (pick : LevelPick) (hv : v.WF) (hp6 : P6 v) (ids : List Nat) (dest : Nat)
    (hc : leveledChooseAt p v hidden size pick = .merge ids dest ∨
          leveledChooseAt p v hidden size pick = .move ids dest) (evict : Bool)
    (hev : evict = true → v.levels.length ≤ dest + 1) : admissible v ids dest evict = true := by
  have h := (leveled_choice_ok p v hidden size pick hv hp6).1
  rcases hc with hc | hc <;> rw [hc] at h <;> exact h.1 evict hev

/-- unless the trivial move into Lmax fires, no chosen table is hidden -/
theorem c01_leveled_not_hidden (p : LeveledParams K) (v : Version K) (hidden : List Nat) (size : Nat → Nat)
    (pick : LevelPick) (hv : v.WF) (hp6 : P6 v) (hlmax : trivialLmax p v = none) (ids : List Nat) (dest : Nat)
    (hc : leveledChooseAt p v hidden size pick = .merge ids dest ∨
          leveledChooseAt p v hidden size pick = .move ids dest) :
    ∀ i ∈ ids, i ∉ hidden := by
  have h := (leveled_choice_ok p v hidden size pick hv hp6).2 hlmax
  intro i hi hh
  have : hidden.contains i = false := by
    rcases hc with hc | hc <;> rw [hc] at h <;> exact h i hi
  rw [List.contains_eq_mem, decide_eq_false_iff_not] at this
  exact this hh

/-- Leveled never returns `Choice::Drop` -/
theorem c01_leveled_never_drops (p : LeveledParams K) (v : Version K) (hidden : List Nat) (size : Nat → Nat)
    (pick : LevelPick) (hv : v.WF) (hp6 : P6 v) (ids : List Nat) :
    leveledChooseAt p v hidden size pick ≠ .drop ids := by
  intro hc
  have h := (leveled_choice_ok p v hidden size pick hv hp6).1
  rw [hc] at h
  exact h

/-! ### on tree states: the `admissible` conjunct of `okStep`, and the full `okStep` -/

/-- the `admissible` conjunct of `okStep t (.move ids dest wm)` for a `move` chosen by Leveled -/
theorem c01_leveled_step_ok_move (t : TreeState K) (hg : Good t) (p : LeveledParams K) (hidden : List Nat)
    (size : Nat → Nat) (pick : LevelPick) (ids : List Nat) (dest : Nat) (sv : SuperVersion K)
    (hsv : t.latest? = some sv) (hp6 : P6 sv.version)
    (hc : leveledChooseAt p sv.version hidden size pick = .move ids dest) :
    dest < t.levelCount ∧ admissible sv.version ids dest false = true := by
  have hgs := hg.latest_goodSv hsv
  have h := c01_leveled_admissible p sv.version hidden size pick hgs.vwf hp6
  rw [hc] at h
  exact ⟨hgs.lvl ▸ h.2.1, h.1⟩

/-- the `admissible` conjunct of `okStep t (.merge ids dest wm f cuts)` for a `merge` chosen by Leveled: tombstones
    are evicted exactly when the destination is the last level, as `mergeCommit` does -/
theorem c01_leveled_step_ok_merge (t : TreeState K) (hg : Good t) (p : LeveledParams K) (hidden : List Nat)
    (size : Nat → Nat) (pick : LevelPick) (ids : List Nat) (dest : Nat) (sv : SuperVersion K)
    (hsv : t.latest? = some sv) (hp6 : P6 sv.version)
    (hc : leveledChooseAt p sv.version hidden size pick = .merge ids dest) :
    dest < t.levelCount ∧ admissible sv.version ids dest (dest + 1 == t.levelCount) = true := by
  have hgs := hg.latest_goodSv hsv
  have h := c01_leveled_admissible p sv.version hidden size pick hgs.vwf hp6
  rw [hc] at h
  exact ⟨hgs.lvl ▸ h.2.1, hgs.lvl ▸ h.1⟩

/-- `okStep` of a move chosen by Leveled on a `Good` state under P6: no hypothesis about observed data remains -/
theorem c01_leveled_okStep_move (t : TreeState K) (hg : Good t) (p : LeveledParams K) (hidden : List Nat)
    (size : Nat → Nat) (pick : LevelPick) (ids : List Nat) (dest wm : Nat)
    (hp6 : ∀ sv, t.latest? = some sv → P6 sv.version)
    (hc : ∀ sv, t.latest? = some sv → leveledChooseAt p sv.version hidden size pick = .move ids dest) :
    okStep t (.move ids dest wm) := by
  intro sv hsv
  exact c01_leveled_step_ok_move t hg p hidden size pick ids dest sv hsv (hp6 sv hsv) (hc sv hsv)

/-- `okStep` of a merge chosen by Leveled on a `Good` state under P6: only the observed-data conjuncts (the
    compaction filter keeps what it is shown, output cuts) remain as hypotheses -/
theorem c01_leveled_okStep_merge (t : TreeState K) (hg : Good t) (p : LeveledParams K) (hidden : List Nat)
    (size : Nat → Nat) (pick : LevelPick) (ids : List Nat) (dest wm : Nat) (f : Entry K → Verdict)
    (cuts : List (Nat × Nat))
    (hp6 : ∀ sv, t.latest? = some sv → P6 sv.version)
    (hc : ∀ sv, t.latest? = some sv → leveledChooseAt p sv.version hidden size pick = .merge ids dest)
    (hobs : ∀ sv, t.latest? = some sv →
      (∀ e ∈ mergeInputs sv.version ids, e.isTomb = false → f e = .keep) ∧
      cutsOk cuts (cstream wm (dest + 1 == t.levelCount) noFilter (mergeInputs sv.version ids)).1 sv.version) :
    okStep t (.merge ids dest wm f cuts) := by
  intro sv hsv
  obtain ⟨h2, h3⟩ := hobs sv hsv
  obtain ⟨h0, h1⟩ := c01_leveled_step_ok_merge t hg p hidden size pick ids dest sv hsv (hp6 sv hsv) (hc sv hsv)
  exact ⟨h0, h1, h2, h3⟩

/-- **`okStep` of whatever Leveled chooses.** `c` is the choice on the latest version; if it is a `move` the move
    step is `okStep`; if it is a `merge` the merge step is `okStep` given the observed-data conjuncts; it is never
    a `drop`. -/
theorem c01_leveled_okStep (t : TreeState K) (hg : Good t) (p : LeveledParams K) (hidden : List Nat)
    (size : Nat → Nat) (pick : LevelPick) (c : Choice)
    (hp6 : ∀ sv, t.latest? = some sv → P6 sv.version)
    (hc : ∀ sv, t.latest? = some sv → leveledChooseAt p sv.version hidden size pick = c) :
    (∀ ids dest wm, c = .move ids dest → okStep t (.move ids dest wm)) ∧
    (∀ ids dest wm f cuts, c = .merge ids dest →
      (∀ sv, t.latest? = some sv →
        (∀ e ∈ mergeInputs sv.version ids, e.isTomb = false → f e = .keep) ∧
        cutsOk cuts (cstream wm (dest + 1 == t.levelCount) noFilter (mergeInputs sv.version ids)).1 sv.version) →
      okStep t (.merge ids dest wm f cuts)) ∧
    (∀ ids, c ≠ .drop ids) := by
  refine ⟨?_, ?_, ?_⟩
  · intro ids dest wm e
    exact c01_leveled_okStep_move t hg p hidden size pick ids dest wm hp6 (fun sv hsv => e ▸ hc sv hsv)
  · intro ids dest wm f cuts e hobs
    exact c01_leveled_okStep_merge t hg p hidden size pick ids dest wm f cuts hp6 (fun sv hsv => e ▸ hc sv hsv) hobs
  · intro ids e
    obtain ⟨sv, hsv, _⟩ := hg.sv
    have hgs := hg.latest_goodSv hsv
    exact c01_leveled_never_drops p sv.version hidden size pick hgs.vwf (hp6 sv hsv) ids (e ▸ hc sv hsv)

/-- hence: a `Good` state stays `Good` across a move chosen by Leveled, and no read changes -/
theorem c01_leveled_move_step (t t' : TreeState K) (hg : Good t) (p : LeveledParams K) (hidden : List Nat)
    (size : Nat → Nat) (pick : LevelPick) (ids : List Nat) (dest wm : Nat)
    (hp6 : ∀ sv, t.latest? = some sv → P6 sv.version)
    (hc : ∀ sv, t.latest? = some sv → leveledChooseAt p sv.version hidden size pick = .move ids dest)
    (ha : t.applyOp (.move ids dest wm) = some t') : Good t' :=
  (applyOp_good hg (c01_leveled_okStep_move t hg p hidden size pick ids dest wm hp6 hc) ha).1

/-! ### Non-vacuity, and necessity of P6 (`K := Nat`, three levels) -/
namespace C01cExample

def mk (id lo hi : Nat) (es : List (Entry Nat)) : TableM Nat := ⟨id, lo, hi, es, 0⟩
def e (k s : Nat) : Entry Nat := ⟨k, s, .value, [1]⟩

def par : LeveledParams Nat := ⟨4, 64, 0⟩
def sz : Nat → Nat := fun _ => 10

def t1 : TableM Nat := mk 1 1 2 [e 1 4, e 2 4]
def t2 : TableM Nat := mk 2 5 6 [e 5 4, e 6 4]
def t3 : TableM Nat := mk 3 3 4 [e 3 1, e 4 1]
def t4 : TableM Nat := mk 4 1 6 [e 1 1, e 6 1]
def a1 : TableM Nat := mk 7 1 1 [e 1 9]
def a2 : TableM Nat := mk 8 2 5 [e 2 8, e 5 8]

/-- L0 empty, L1 = one run `[t1, t2]`, L2 = `[t3]` lying in the gap between them -/
def vMove : Version Nat := ⟨0, [[], [[t1, t2]], [[t3]]]⟩
/-- L2 = `[t4]` covering both tables of L1 -/
def vMerge : Version Nat := ⟨0, [[], [[t1, t2]], [[t4]]]⟩
/-- L0 = two runs, L1 = `[t1, t2]` -/
def vL0 : Version Nat := ⟨0, [[[a1], [a2]], [[t1, t2]], []]⟩
/-- L0 = one run, L1 empty, L2 = `[t3]` not overlapping it -/
def vLmax : Version Nat := ⟨0, [[[a1]], [], [[t3]]]⟩

/-- L1 scored: the whole run overlaps L2, the window `[t1]` does not: a TRIVIAL MOVE of `t1` into L2 -/
example : leveledChooseAt par vMove [] sz ⟨false, some 1⟩ = .move [1] 2 ∧ admissible vMove [1] 2 false = true := by
  decide

/-- L1 scored, every window overlaps: a MERGE of `t4` with the tables of L1 its range contains, into the last level
    (so with tombstone eviction) -/
example : leveledChooseAt par vMerge [] sz ⟨false, some 1⟩ = .merge [1, 2, 4] 2 ∧
    admissible vMerge [1, 2, 4] 2 true = true := by decide

/-- the same with table 2 hidden: the minimal merge is blocked, nothing is chosen -/
example : leveledChooseAt par vMerge [2] sz ⟨false, some 1⟩ = .doNothing := by decide

/-- L0 scored: all of L0 plus the overlapping tables of L1 are merged into L1 -/
example : leveledChooseAt par vL0 [] sz ⟨false, some 0⟩ = .merge [1, 2, 7, 8] 1 ∧
    admissible vL0 [1, 2, 7, 8] 1 false = true := by decide

/-- nothing scored: `DoNothing` -/
example : leveledChooseAt par vL0 [] sz ⟨false, none⟩ = .doNothing := by decide

/-- trivial move into Lmax (whatever the pick) -/
example : leveledChooseAt par vLmax [] sz ⟨true, some 1⟩ = .move [7] 2 ∧ admissible vLmax [7] 2 false = true := by
  decide

/-- the hypotheses of the theorem are satisfiable: `P6` holds on the examples -/
theorem p6_vMerge : P6 vMerge := by
  intro i lvl hi hl
  match i, hi with
  | 1, _ => simp [vMerge] at hl; subst hl; decide
  | 2, _ => simp [vMerge] at hl; subst hl; decide
  | n + 3, _ => simp [vMerge] at hl

/-- … and so does `Version.WF` -/
theorem wf_vMerge : vMerge.WF where
  runs_ok := by
    intro r hr
    rw [← runOkB_iff]
    revert r hr
    decide
  nodup := by decide
  meta_ok := by decide
  src := by
    intro t ht
    rw [← isSourceB_iff]
    revert t ht
    decide

/-- the theorem applied to a concrete version on which a merge is chosen -/
example : admissible vMerge [1, 2, 4] 2 true = true := by
  have h := c01_leveled_admissible par vMerge [] sz ⟨false, some 1⟩ wf_vMerge p6_vMerge
  have hc : leveledChooseAt par vMerge [] sz ⟨false, some 1⟩ = .merge [1, 2, 4] 2 := by decide
  rw [hc] at h
  exact h.1

/-- the `'trivial_lmax` block ignores the hidden set: table 7 is hidden (being compacted) and still chosen -/
theorem c01_leveled_lmax_ignores_hidden_set :
    leveledChooseAt par vLmax [7] sz ⟨false, none⟩ = .move [7] 2 := by decide

/-- **P6 is necessary.** L1 holds two runs: `x` (key 3, newer) in run 0 and `y` (keys 1 and 3, older) in run 1.
    L0 → L1 picks all of L0 and the tables of L1 overlapping L0's range `[1, 1]`, i.e. `y` but not `x`; the merge
    output (holding the OLD version of key 3) would be installed in front of `x`. The version is otherwise
    well-formed (runs sorted, ids distinct, ranges exact). -/
def x : TableM Nat := mk 5 3 3 [e 3 6]
def y : TableM Nat := mk 6 1 3 [e 1 2, e 3 2]
def vTwoRuns : Version Nat := ⟨0, [[[a1]], [[x], [y]], []]⟩

theorem c01_leveled_counterexample_without_P6 :
    leveledChooseAt par vTwoRuns [] sz ⟨false, some 0⟩ = .merge [6, 7] 1 ∧
    admissible vTwoRuns [6, 7] 1 false = false ∧
    vTwoRuns.runs.all runOkB = true ∧ vTwoRuns.tables.all tableMetaOk = true := by decide

end C01cExample

#print axioms c01_leveled_admissible
#print axioms c01_leveled_admissible_evict
#print axioms c01_leveled_not_hidden
#print axioms c01_leveled_never_drops
#print axioms c01_leveled_step_ok_move
#print axioms c01_leveled_step_ok_merge
#print axioms c01_leveled_okStep_move
#print axioms c01_leveled_okStep_merge
#print axioms c01_leveled_okStep
#print axioms c01_leveled_move_step
#print axioms C01cExample.c01_leveled_lmax_ignores_hidden_set
#print axioms C01cExample.c01_leveled_counterexample_without_P6

end Lsm
