import LsmModel.Lemmas.ArchiveReadLemmas
/-!
# C10 (file level) — the sfa archive layout of table / blob / version files and its corruption coverage

Model: `LsmModel/Fs/Archive.lean` (read its MODELLING NOTES A1–A7 first).  `H : Bytes → Bytes` is the 128-bit hash (16
little-endian bytes) exactly as in `Props/C10.lean`; nothing is assumed about it beyond its width, and every "is reported"
statement carries the explicit escape clause `Collision128 H` (= `∃ x y, x ≠ y ∧ H x = H y`), block-level ones also
`Collision32 H`.

File = section payloads ++ ToC ++ trailer.  Which check covers which byte (offsets relative to the trailer start `T`):
  payloads                 NOTHING at the archive level (`c10file_unseen_bytes`); a table file's payloads are block frames,
                           each covered by its own two checksums (`c10file_block_at_handle_*`, composing `Props/C10.lean`)
  ToC (magic,count,entries) hashed; compared with the trailer's checksum — AFTER the count was used for an allocation (F10,
                           `c10file_f10_count_consumed_before_checksum`) and after all entries were read
  T+0..4 magic, T+4 version, T+5 checksum type      compared literally
  T+6..22 ToC checksum     compared with the hash of the bytes read
  T+22..30 toc_pos         covered by no check of its own: a wrong position makes the reader hash OTHER bytes
                           (`c10file_any_single_byte`: error, or collision, or a verbatim copy of the ToC there ⇒ same entries)
  T+30..38 toc_len         NEVER READ (`c10file_unseen_bytes`)
Table files additionally contain the 1-byte section `table_version`, which no reader looks at (`Region.unread`).

TRUNCATION is NOT detected in general: a cut right behind a payload that is itself an archive image decodes
(`c10file_truncation_embedded_archive_accepted`, confirmed on the real reader by `ia archive`); it is detected when no proper
prefix ends in a trailer image (`c10file_truncation_detected`), and always for cuts shorter than a trailer.
-/
namespace Lsm
open Frame Archive

/-! ## round trip -/

/-- The reader returns exactly the entries the writer pushed; if the first section is non-empty these are
(name, running offset, length) of every section in order. -/
theorem c10file_roundtrip {H : Bytes → Bytes} (hH : ∀ x, (H x).length = 16) {s : List (Bytes × Bytes)}
    (hwf : WfSections s) :
    decodeArchive H (encodeArchive H s) = .ok (tocEntries s) ∧
    (decodeArchiveTrace H (encodeArchive H s)).1 = some (tocEntries s).length ∧
    (AllListed s → tocEntries s = expectedEntriesFrom 0 s) := by
  refine ⟨decodeArchive_encode hH hwf, ?_, fun h => tocEntriesFrom_eq_expected (Or.inr h)⟩
  rw [encodeArchive_eq_image, decodeArchiveTrace_image hH (tocEntries_valid hwf) (tocEntries_length_lt hwf) hwf.2.2]

/-- Opening the written file and reading section `n` returns the bytes written to it (distinct names, first section
non-empty). -/
theorem c10file_section_roundtrip {H : Bytes → Bytes} (hH : ∀ x, (H x).length = 16) {s : List (Bytes × Bytes)}
    (hwf : WfSections s) (hall : AllListed s) (hd : DistinctNames s) {n b : Bytes} (hm : (n, b) ∈ s) :
    readSection H (encodeArchive H s) n = .ok (some b) :=
  readSection_encode hH hwf hall hd hm

/-- non-vacuity of the hypotheses -/
example : WfSections [([100], [1, 2]), ([116], [])] ∧ AllListed [([100], [1, 2]), ([116], ([] : Bytes))] ∧
    DistinctNames [([100], [1, 2]), ([116], ([] : Bytes))] := by
  refine ⟨by decide, by decide, by unfold DistinctNames; decide⟩

/-- writer quirk A2: a leading EMPTY section gets no ToC entry at all -/
example : tocEntries [([100], []), ([116], [7])] = [{ name := [116], pos := 0, len := 1 }] := by decide

/-! ## F10 -/

/-- Finding F10 in the model: once the ToC magic matched, the 4 count bytes are handed to `Vec::with_capacity`
whatever the stored checksum `ck` and the hash are — the request precedes the checksum comparison. -/
theorem c10file_f10_count_consumed_before_checksum (h128 : Bytes → Bytes) {t : Bytes} (ck : Bytes) (hl : 8 ≤ t.length)
    (hm : t.take 4 = tocMagic) : (readTocTrace h128 t ck).1 = some (leNat ((t.drop 4).take 4)) :=
  alloc_before_checksum h128 ck hl hm

/-! ## coverage: single bytes -/

/-- EVERY single-byte alteration of a written archive (any position — `set` beyond the end is the identity —, any
value): the reader fails, or a 128-bit collision is exhibited, or it returns the very same entries. -/
theorem c10file_any_single_byte {H : Bytes → Bytes} (hH : ∀ x, (H x).length = 16) {s : List (Bytes × Bytes)}
    (hwf : WfSections s) {p : Nat} {b : UInt8} {es' : List Entry}
    (hd : decodeArchive H ((encodeArchive H s).set p b) = .ok es') : es' = tocEntries s ∨ Collision128 H := by
  rw [encodeArchive_eq_image] at hd
  exact image_single_byte hH (tocEntries_valid hwf) (tocEntries_length_lt hwf) hwf.2.2 _ hd

/-- The ToC and trailer bytes 0..22 (magic, version, checksum type, checksum): a single-byte alteration that changes
the file is REPORTED unless a 128-bit collision is exhibited. -/
theorem c10file_detected_bytes {H : Bytes → Bytes} (hH : ∀ x, (H x).length = 16) {s : List (Bytes × Bytes)}
    (hwf : WfSections s) {p : Nat} {b : UInt8} {es' : List Entry}
    (hlo : (payloads s).length ≤ p) (hhi : p < (payloads s).length + (encodeToc (tocEntries s)).length + 22)
    (hne : (encodeArchive H s).set p b ≠ encodeArchive H s)
    (hd : decodeArchive H ((encodeArchive H s).set p b) = .ok es') : Collision128 H := by
  rw [encodeArchive_eq_image] at hd hne
  exact image_single_byte_detected hH (tocEntries_valid hwf) (tocEntries_length_lt hwf) hwf.2.2 _ hlo hhi hne hd

/-- UNDETECTED ⇒ SAME DATA.  Payload bytes and the last 8 bytes (`toc_len`) are not looked at by the archive reader:
altering one changes neither its result nor its allocation request. -/
theorem c10file_unseen_bytes {H : Bytes → Bytes} (hH : ∀ x, (H x).length = 16) {s : List (Bytes × Bytes)}
    (hwf : WfSections s) {p : Nat} {b : UInt8}
    (hreg : p < (payloads s).length ∨ (payloads s).length + (encodeToc (tocEntries s)).length + 30 ≤ p) :
    decodeArchiveTrace H ((encodeArchive H s).set p b) = decodeArchiveTrace H (encodeArchive H s) := by
  rw [encodeArchive_eq_image]
  exact image_single_byte_unseen hH (tocEntries_valid hwf) (tocEntries_length_lt hwf) hwf.2.2 _ hreg

/-! ## coverage: whole regions -/

/-- ANY rewrite of the ToC region (same length, any number of bytes) is reported or exhibits a collision. -/
theorem c10file_toc_rewrite {H : Bytes → Bytes} (hH : ∀ x, (H x).length = 16) {s : List (Bytes × Bytes)}
    (hwf : WfSections s) {toc' : Bytes} (hl : toc'.length = (encodeToc (tocEntries s)).length)
    (hne : toc' ≠ encodeToc (tocEntries s)) {es' : List Entry}
    (hd : decodeArchive H (payloads s ++ toc' ++ encodeTrailer (H (encodeToc (tocEntries s))) (payloads s).length
            (encodeToc (tocEntries s)).length) = .ok es') : Collision128 H :=
  toc_change hH (tocEntries_valid hwf) (tocEntries_length_lt hwf) hwf.2.2 _ hl hne hd

/-- A wrong stored ToC checksum is ALWAYS reported (no collision clause). -/
theorem c10file_checksum_field {H : Bytes → Bytes} (hH : ∀ x, (H x).length = 16) {s : List (Bytes × Bytes)}
    (hwf : WfSections s) {ck' : Bytes} (hl : ck'.length = 16) (hne : ck' ≠ H (encodeToc (tocEntries s))) (tl : Nat) :
    decodeArchive H (payloads s ++ encodeToc (tocEntries s) ++ encodeTrailer ck' (payloads s).length tl)
      = .error .checksumMismatch :=
  checksum_change hH (tocEntries_valid hwf) (tocEntries_length_lt hwf) hwf.2.2 tl hl hne

/-- Rewriting the payloads (same total length) is invisible to the archive reader. -/
theorem c10file_payload_rewrite {H : Bytes → Bytes} (hH : ∀ x, (H x).length = 16) {s : List (Bytes × Bytes)}
    (hwf : WfSections s) {body' : Bytes} (hl : body'.length = (payloads s).length) (tl : Nat) :
    decodeArchive H (body' ++ encodeToc (tocEntries s) ++ encodeTrailer (H (encodeToc (tocEntries s)))
      (payloads s).length tl) = .ok (tocEntries s) := by
  unfold decodeArchive
  rw [body_change hH (tocEntries_valid hwf) (tocEntries_length_lt hwf) hwf.2.2 tl hl]

/-! ## table files: blocks behind their handles, region map -/

/-- A byte outside a block handle's range does not influence that block's read (`load_block`). -/
theorem c10file_block_at_handle_outside (H : Bytes → Bytes) (exp : Option UInt8) (file : Bytes) {off size p : Nat}
    (b : UInt8) (h : p < off ∨ off + size ≤ p) :
    decodeBlockFile H exp ((file.set p b).drop off) size = decodeBlockFile H exp (file.drop off) size :=
  blockFile_outside H exp file b h

/-- A byte INSIDE the range of a handle that names a written block frame (wherever the frame lies in the file): the
block read fails, or a 32-bit / 128-bit collision is exhibited (composition with `c10_block_single_byte`). -/
theorem c10file_block_at_handle_inside {H : Bytes → Bytes} (hH : ∀ x, (H x).length = 16) {ty : UInt8} {payload : Bytes}
    (hty : ty ≤ 3) (hpl : payload.length < 2 ^ 32) {exp : Option UInt8} {file : Bytes} {off size p : Nat} {b : UInt8}
    (hfr : (file.drop off).take size = encodeBlock H ty payload) (hsz : size = (encodeBlock H ty payload).length)
    (hlo : off ≤ p) (hhi : p < off + size) (hp : p < file.length) (hb : b ≠ file[p]) {r : UInt8 × Bytes}
    (hd : decodeBlockFile H exp ((file.set p b).drop off) size = .ok r) : Collision32 H ∨ Collision128 H :=
  blockFile_inside hH hty hpl hfr hsz hlo hhi hp hb hd

/-- The region map of a table file is total on the file and undefined beyond it: every byte offset lies in exactly one
region (`regionOf` is a function). -/
theorem c10file_region_total {H : Bytes → Bytes} (hH : ∀ x, (H x).length = 16) (t : TableParts) (p : Nat) :
    (regionOf t p).isSome ↔ p < (tableFile H t).length :=
  regionOf_isSome_iff hH t p

/-- UNDETECTED ⇒ SAME DATA at table level.  In a written archive, a byte the archive reader does not see (payload region or
`toc_len`) and that lies outside every block range the table read uses (`OutsideUsed`: the meta, tli and filter entries and
the data-block handles the index yields) — e.g. the `table_version` section, or `toc_len` — changes NOTHING that opening and
fully reading the table returns, for any index decoder `handlesOf`. -/
theorem c10file_table_unseen_same_data {H : Bytes → Bytes} (hH : ∀ x, (H x).length = 16) {s : List (Bytes × Bytes)}
    (hwf : WfSections s) {handlesOf : Bytes → Option (List (Nat × Nat))} {p : Nat} {b : UInt8}
    (hreg : p < (payloads s).length ∨ (payloads s).length + (encodeToc (tocEntries s)).length + 30 ≤ p)
    (hout : OutsideUsed H handlesOf (encodeArchive H s) p) :
    readTableFully H handlesOf ((encodeArchive H s).set p b) = readTableFully H handlesOf (encodeArchive H s) := by
  refine readTableFully_outside ?_ hout
  unfold decodeArchive
  rw [c10file_unseen_bytes hH hwf hreg]

/-! ## truncation -/

/-- Fewer bytes than a trailer: always an I/O error. -/
theorem c10file_truncation_short {h128 : Bytes → Bytes} {q : Bytes} (h : q.length < 38) :
    decodeArchive h128 q = .error .io :=
  decodeArchive_short h

/-- Whatever the reader accepts ends in 38 bytes that start with "SFA!" 01 00. -/
theorem c10file_accepted_has_trailer_head {h128 : Bytes → Bytes} {q : Bytes} {es : List Entry}
    (h : decodeArchive h128 q = .ok es) :
    38 ≤ q.length ∧ (q.drop (q.length - 38)).take 6 = trailerMagic ++ [1, 0] :=
  decodeArchive_ok_tail h

/-- Hence: if no proper prefix of the file ends in such a trailer image, EVERY truncation is an error. -/
theorem c10file_truncation_detected {h128 : Bytes → Bytes} {file : Bytes} (hno : NoTrailerImageBefore file) {k : Nat}
    (hk : k < file.length) : ∃ e, decodeArchive h128 (file.take k) = .error e :=
  truncation_detected hno hk

/-- non-vacuity: a written archive whose payload contains no trailer image satisfies the hypothesis (toy hash `sumH`),
and decodes -/
example : NoTrailerImageBefore (encodeArchive sumH [([100], [1, 2])]) ∧
    decodeArchive sumH (encodeArchive sumH [([100], [1, 2])]) = .ok [{ name := [100], pos := 0, len := 2 }] := by
  constructor <;> decide

/-- … and that hypothesis cannot be dropped: an archive followed by ANY bytes (e.g. the rest of an outer archive whose
section payload it is), cut right behind it, decodes — to the embedded entries. -/
theorem c10file_truncation_embedded_archive_accepted {H : Bytes → Bytes} (hH : ∀ x, (H x).length = 16)
    {s : List (Bytes × Bytes)} (hwf : WfSections s) (rest : Bytes) :
    decodeArchive H ((encodeArchive H s ++ rest).take (encodeArchive H s).length) = .ok (tocEntries s) :=
  truncation_after_embedded hH hwf rest

#print axioms c10file_roundtrip
#print axioms c10file_section_roundtrip
#print axioms c10file_f10_count_consumed_before_checksum
#print axioms c10file_any_single_byte
#print axioms c10file_detected_bytes
#print axioms c10file_unseen_bytes
#print axioms c10file_toc_rewrite
#print axioms c10file_checksum_field
#print axioms c10file_payload_rewrite
#print axioms c10file_block_at_handle_outside
#print axioms c10file_block_at_handle_inside
#print axioms c10file_region_total
#print axioms c10file_table_unseen_same_data
#print axioms c10file_truncation_short
#print axioms c10file_accepted_has_trailer_head
#print axioms c10file_truncation_detected
#print axioms c10file_truncation_embedded_archive_accepted

end Lsm
